"""Conformance cases for the evaluator (sa/absint.py): every function `case_*` is run by CPython and by the
evaluator (from this file's source); both must give the same value or raise the same exception type.
The file is copied into a scratch package by tools/evalconf.py; it is not part of any check."""
import collections
import functools
import itertools
import operator
import re
from dataclasses import dataclass, field
from decimal import Decimal
from typing import Any, NamedTuple


class P:
    """Equality by name (case-insensitive), like the library's Constraint."""
    def __init__(self, name, weight=0):
        self.name = name
        self.weight = weight

    def __eq__(self, other):
        return isinstance(other, P) and self.name.lower() == other.name.lower()

    def __hash__(self):
        return hash(self.name.lower())

    def __lt__(self, other):
        return self.name.lower() < other.name.lower()

    def __repr__(self):
        return f"P({self.name})"


class Box:
    shared = []          # class-level: one list for every instance
    LIMIT = 3
    DOUBLE = LIMIT * 2

    def __init__(self, items=None, tags=[]):
        self.items = items if items is not None else []
        self.tags = tags

    def add(self, x):
        self.items.append(x)
        Box.shared.append(x)
        return self

    @property
    def size(self):
        return len(self.items)

    @classmethod
    def make(cls, *xs):
        return cls(list(xs))

    @staticmethod
    def twice(x):
        return 2 * x

    def label(self):
        return "box"

    alias = label


@dataclass
class Rec:
    a: int
    b: str = "x"
    c: list = field(default_factory=list)


@dataclass(frozen=True)
class FRec:
    a: int
    b: int = 2


class Key(NamedTuple):
    parent: str
    lo: int
    hi: int = 9


def gen_upto(n):
    for i in range(n):
        yield i
    yield from ("a", "b")


def names(ps):
    return [p.name for p in ps]


def case_set_own_equality():
    s = {P("A"), P("a"), P("B")}
    return sorted(names(s), key=str.lower), len(s), P("b") in s, P("c") in s


def case_dict_own_equality():
    d = {P("A"): 1}
    d[P("a")] = 2
    d[P("B")] = 3
    return len(d), d[P("A")], names(d.keys())[0], d.get(P("b")), d.get(P("z"), "none")


def case_dict_comprehension_collapse():
    ps = [P("x", 1), P("X", 2), P("y", 3)]
    d = {p: p.weight for p in ps}
    return len(d), sorted(d.values()), names(d)[0]


def case_set_algebra():
    a = {P("a"), P("b")}
    b = {P("B"), P("c")}
    return (sorted(names(a | b), key=str.lower), sorted(names(a & b)), sorted(names(a - b)),
            len(a ^ b), a.issubset(a | b), a.isdisjoint({P("z")}))


def case_list_methods_equality():
    ps = [P("a"), P("B"), P("A")]
    return ps.index(P("b")), ps.count(P("A")), P("b") in ps


def case_sorted_key_reverse():
    ps = [P("b", 1), P("a", 1), P("c", 0)]
    return (names(sorted(ps)), names(sorted(ps, key=lambda p: p.weight)),
            names(sorted(ps, key=lambda p: p.weight, reverse=True)), names(sorted(ps, reverse=True)))


def case_min_max_key():
    ps = [P("b", 1), P("a", 1), P("c", 0)]
    return (min(ps).name, max(ps).name, max(ps, key=lambda p: p.weight).name, min(ps, key=lambda p: p.weight).name,
            max([3, 1, 2]), min("b", "a"), max([], default=7), max([1, 2], key=lambda x: -x))


def case_generator_one_shot():
    g = (x * x for x in range(4))
    first = list(g)
    second = list(g)
    return first, second


def case_generator_function():
    g = gen_upto(3)
    a = next(g)
    rest = list(g)
    return a, rest, next(iter([]), "dflt")


def case_iter_next_stack():
    stack = [iter([1, 2]), iter([3])]
    out = []
    while stack:
        x = next(stack[-1], None)
        if x is None:
            stack.pop()
            continue
        out.append(x)
    return out


def case_iter_live_list():
    xs = [1, 2]
    it = iter(xs)
    out = []
    for x in it:
        out.append(x)
        if x == 1:
            xs.append(3)
    return out


def case_next_on_list_raises():
    return next([1, 2])


def case_len_of_generator_raises():
    return len(x for x in [1])


def case_map_filter_zip():
    m = map(lambda x: x + 1, [1, 2, 3])
    f = filter(None, [0, 1, "", "a"])
    z = zip("ab", [1, 2, 3])
    return list(m), list(m), list(f), list(z), list(enumerate("ab", start=1)), list(reversed([1, 2]))


def case_zip_strict():
    return list(zip([1], [1, 2], strict=True))


def case_augassign_alias():
    a = [1]
    b = a
    b += [2]
    c = a
    c = c + [3]
    s = {1}
    t = s
    t |= {2}
    return a, b, c, sorted(s)


def case_mutable_default_and_class_attr():
    Box.shared.clear()
    b1, b2 = Box(), Box()
    b1.tags.append("t")
    b1.add(1)
    b2.add(2)
    return b2.tags, Box.shared, b1.shared is b2.shared, b1.items, Box.DOUBLE, b1.size


def case_class_alias_and_classmethod():
    b = Box.make(1, 2)
    return b.alias(), b.items, Box.twice(4), b.twice(3), b.make(5).items, type(b.make()).__name__


def case_dataclass():
    r1, r2 = Rec(1), Rec(1)
    r1.c.append(5)
    return r1 == r2, r1.c, r2.c, Rec(2, "y") == Rec(2, "y"), r1.b, Rec(a=3, c=[1]).c


def case_frozen_dataclass():
    f = FRec(1)
    return f == FRec(1, 2), len({f, FRec(1)}), f.b


def case_dataclass_missing_arg():
    return Rec()


def case_namedtuple():
    k1, k2 = Key("p", 1), Key("p", 1, 9)
    return k1 == k2, k1 < Key("p", 2), k1.hi, k1[0], list(k1), sorted([Key("b", 1), Key("a", 5)])[0].parent, k1 == ("p", 1, 9)


def case_closure_nonlocal():
    count = 0
    seen = []

    def bump(x):
        nonlocal count
        count += 1
        seen.append(x)
        return count
    bump("a")
    bump("b")
    return count, seen


def case_late_binding():
    fs = [lambda: i for i in range(3)]
    gs = [lambda i=i: i for i in range(3)]
    return [f() for f in fs], [g() for g in gs]


def case_try_finally_order():
    log = []

    def f():
        try:
            log.append("try")
            return "ret"
        finally:
            log.append("finally")
    r = f()
    try:
        try:
            raise ValueError("x")
        finally:
            log.append("inner-finally")
    except ValueError:
        log.append("caught")
    else:
        log.append("else")
    return r, log


def case_try_else():
    log = []
    for v in ("1", "x"):
        try:
            n = int(v)
        except ValueError:
            log.append("bad")
        else:
            log.append(n)
    return log


def case_loop_else_and_continue_in_try():
    out = []
    for x in range(5):
        try:
            if x % 2:
                continue
            out.append(x)
        finally:
            out.append("f")
    else:
        out.append("done")
    while True:
        try:
            out.pop()
        except IndexError:
            break
    return out


def case_suppress():
    import contextlib
    out = []
    with contextlib.suppress(KeyError, IndexError):
        out.append(1)
        {}["k"]
        out.append(2)
    with contextlib.suppress(ValueError):
        out.append(int("3"))
    return out


def case_suppress_other_raises():
    import contextlib
    with contextlib.suppress(KeyError):
        int("x")
    return "unreached"


def case_match():
    def kind(v):
        match v:
            case 0 | 1:
                return "small"
            case int(n) if n > 10:
                return "big"
            case [x, y]:
                return f"pair {x}{y}"
            case [first, *rest]:
                return f"seq {first} {len(rest)}"
            case "a":
                return "letter"
            case None:
                return "none"
            case _:
                return "other"
    return [kind(v) for v in (0, 50, 5, [1, 2], [1, 2, 3], "a", None, "zz")]


def case_star_args():
    def f(a, *rest, k=0, **kw):
        return a, rest, k, sorted(kw.items())
    args = (1, 2, 3)
    return f(*args), f(1, k=5, z=9), f(*[1], **{"k": 2})


def case_unexpected_kwarg():
    def f(a):
        return a
    return f(1, b=2)


def case_functools():
    add3 = functools.partial(operator.add, 3)
    join = functools.reduce(lambda acc, x: acc + [x * 2], [1, 2, 3], [])
    return add3(4), join, functools.reduce(operator.mul, [1, 2, 3, 4]), list(map(operator.itemgetter(1), [(1, 2), (3, 4)]))


def case_lru_cache_by_equality():
    calls = []

    @functools.lru_cache(maxsize=None)
    def weight(p):
        calls.append(p.name)
        return p.weight
    return weight(P("a", 1)), weight(P("A", 2)), calls


def case_methodcaller_attrgetter():
    ps = [P("b", 2), P("a", 1)]
    lab = operator.methodcaller("label")
    return list(map(operator.attrgetter("name"), ps)), lab(Box()), operator.attrgetter("name", "weight")(ps[0])


def case_itertools():
    g = itertools.groupby(["aa", "ab", "b", "a"], key=lambda s: s[0])
    groups = [(k, list(v)) for k, v in g]
    return (groups, list(itertools.chain([1], (2, 3))), list(itertools.chain.from_iterable([[1], [2, 3]])),
            list(itertools.combinations("abc", 2)), list(itertools.accumulate([1, 2, 3])), list(itertools.islice(range(10), 2, 5)),
            list(itertools.pairwise([1, 2, 3])), list(itertools.product("ab", [1, 2])), list(itertools.zip_longest([1], [1, 2])),
            list(itertools.takewhile(lambda x: x < 3, [1, 2, 3, 1])), list(itertools.starmap(operator.add, [(1, 2), (3, 4)])))


def case_collections():
    c = collections.Counter("abca")
    d = collections.defaultdict(list)
    d["x"].append(1)
    dq = collections.deque([1, 2, 3])
    dq.appendleft(0)
    dq.rotate(1)
    return c["a"], c["z"], c.most_common(1), dict(d), d["y"], dq.popleft(), list(dq), dq.pop()


def case_re():
    pat = re.compile(r"(\w+)=(\d+)")
    m = pat.search("k=12;j=3")
    table = {"a": "1", "b": "2"}
    return (m.group(1), m.groups(), pat.findall("k=12;j=3"), re.sub(r"[ab]", lambda mo: table[mo.group(0)], "cab"),
            re.escape("a.b"), bool(re.fullmatch(r"[A-Za-z_]\w*", "x1")), re.split(r",\s*", "a, b,c"))


def case_decimal():
    return abs(Decimal("1.50").as_tuple().exponent), str(Decimal("0.1") + Decimal("0.2")), round(2.675, 2), round(1.5), round(2.5)


def case_strings():
    t = str.maketrans({"a": "b", "-": None})
    return ("a-ba".translate(t), "x".center(5, "*"), "a,b".partition(","), "A b".swapcase(), " x ".strip(), "a.b.c".rsplit(".", 1),
            "{:>4}|{:<3}|{:.2f}".format("a", "b", 1.239), f"{3:03d}|{'q'!r}|{1.5:.1f}", "%s-%d" % ("a", 3), "ab" * 2, "b" in "abc",
            ",".join(map(str, [1, 2])), "Ab".casefold(), "x1".isidentifier(), "a\tb".expandtabs(4))


def case_slices_and_unpacking():
    xs = list(range(6))
    a, *mid, z = xs
    (p, q), r = (1, 2), 3
    xs[1:3] = ["x"]
    return a, mid, z, p, q, r, xs, xs[::-1], xs[-2:], "abc"[1:], xs[slice(1, 3)]


def case_del():
    xs = [1, 2, 3]
    d = {"a": 1, "b": 2}
    del xs[0]
    del d["a"]
    return xs, d


def case_boolean_operands_and_chains():
    return (0 or "x", 1 and [], None or 0, 1 < 2 < 3, 1 < 3 < 2, not [], 3 if [] else 4, -7 // 2, -7 % 3, 7 / 2, 2 ** 10, 5 | 2, 6 & 3)


def case_walrus_and_comprehension_scope():
    x = "outer"
    ys = [x for x in range(3)]
    total = [(acc := i * 2) for i in range(3)]
    return x, ys, total, acc


def case_dict_order_and_ops():
    d = {"b": 1, "a": 2}
    d["c"] = 3
    d["b"] = 9
    e = d | {"a": 0}
    d.update(z=1)
    return list(d), list(e.items()), d.pop("z"), d.setdefault("q", []), sorted(d), dict(zip("ab", [1, 2])), dict([("k", 1)], j=2)


def case_isinstance_and_types():
    return (isinstance(True, int), isinstance(1, bool), isinstance(P("a"), object), isinstance(Key("a", 1), tuple),
            isinstance(Key("a", 1), Key), isinstance([], (list, tuple)), type(1).__name__, isinstance(1.0, (int, float)))


def case_exception_hierarchy():
    out = []
    for exc in (KeyError("k"), IndexError(), ZeroDivisionError(), UnicodeDecodeError("utf8", b"", 0, 1, "x")):
        try:
            raise exc
        except LookupError:
            out.append("lookup")
        except ArithmeticError:
            out.append("arith")
        except ValueError:
            out.append("value")
    return out


def case_zero_division():
    return 1 / 0


def case_key_error():
    return {}["missing"]


def case_attribute_error():
    return P("a").nope


def case_unbound_local():
    def f(flag):
        if flag:
            v = 1
        return v
    return f(False)


def case_sum_any_all():
    return sum([1, 2], 10), sum(x for x in range(4)), any(x > 2 for x in range(4)), all([]), any([]), sum([[1], [2]], [])


def case_equality_with_other_types():
    return P("a") == "a", "a" == P("a"), P("a") != P("A"), [P("a")] == [P("A")], (1, P("b")) == (1, P("B")), {1: P("a")} == {1: P("A")}


def case_string_template_and_textwrap():
    import string
    import textwrap
    return string.Template("$a-$b").substitute(a=1, b="x"), textwrap.indent("a\nb", "  "), textwrap.dedent("  a\n  b"), string.ascii_lowercase[:3]


def case_genexp_late_binding():
    # generator expressions kept in a dict and consumed after the loop: free names have their final values
    names = ["a", "b", "c"]
    kept = {n: (m for m in names if m != n) for n in names}
    out1 = {k: list(v) for k, v in kept.items()}
    gens = []
    for k in range(3):
        gens.append(x + k for x in (10, 20))
    out2 = [list(g) for g in gens]
    src = [1, 2, 3]
    g = (y * 2 for y in src)           # first iterable evaluated now
    src = [7]
    factor = 3
    h = (y * factor for y in [1, 2])
    first = next(h)
    factor = 5
    rest = list(h)
    return [out1, out2, list(g), first, rest]


def case_genexp_exhausted_twice():
    import itertools
    data = [[1, 2], [3]]
    flat = itertools.chain.from_iterable(x for x in data)
    a = []
    b = []
    a.extend(flat)
    b.extend(flat)
    counts = (len(x) for x in data)
    s1 = sum(counts)
    s2 = sum(counts)
    return [a, b, s1, s2]


def case_generator_lazy_and_suspended():
    log = []

    def groups(items):
        for it in items:
            members = [it]
            log.append(("open", it))
            yield members
            members.append(it * 10)        # appended after the consumer has seen the list
            log.append(("closed", it))
    early = [list(m) for m in groups([1, 2])]
    late = list(groups([3, 4]))
    g = groups([5, 6])
    first = next(g)
    snapshot = list(log)
    return [early, late, first, snapshot]


def case_generator_send_return_close():
    def acc():
        total = 0
        while True:
            x = yield total
            if x is None:
                return total
            total += x

    def outer():
        r = yield from acc()
        yield ("returned", r)
    g = outer()
    out = [next(g), g.send(3), g.send(4), g.send(None)]
    trail = []

    def res():
        try:
            yield 1
            yield 2
        finally:
            trail.append("cleanup")
    r = res()
    next(r)
    r.close()
    return [out, trail, list(r)]


def case_generator_recursive_walk():
    def walk(t):
        yield t[0]
        for c in t[1]:
            yield from walk(c)
    tree = (1, [(2, [(3, []), (4, [])]), (5, [(6, [])])])
    it = walk(tree)
    head = [next(it), next(it)]
    return [head, list(it), any(x > 3 for x in walk(tree))]


# ---- round 6: language mechanisms ---------------------------------------------------------------------------
import contextlib as _ctx
import dataclasses as _dc
import enum as _enum
import functools as _ft
import itertools as _itl
import operator as _op
import typing as _ty
from types import MethodType as _MethodType


class _R6Stack:
    """iterator protocol, __bool__, __len__, __contains__, __getitem__, __call__"""
    def __init__(self, items):
        self._items = list(items)

    def __bool__(self):
        return bool(self._items)

    def __len__(self):
        return len(self._items)

    def __contains__(self, x):
        return x in self._items

    def __getitem__(self, i):
        return self._items[i]

    def __iter__(self):
        return _R6Iter(self._items)

    def __call__(self, k):
        return self._items[0] * k

    def take(self):
        return self._items.pop()


class _R6Iter:
    def __init__(self, items):
        self._rest = list(items)

    def __iter__(self):
        return self

    def __next__(self):
        if not self._rest:
            raise StopIteration
        return self._rest.pop(0)


class _R6OnlyLen:
    def __init__(self, n):
        self.n = n

    def __len__(self):
        return self.n


class _R6OnlyGetitem:
    def __getitem__(self, i):
        if i >= 3:
            raise IndexError(i)
        return i * i


def case_r6_protocols():
    s = _R6Stack([1, 2, 3])
    out = []
    while s:
        out.append(s.take())
    t = _R6Stack([4, 5])
    return [out, bool(s), len(t), 5 in t, 9 in t, t[1], list(t), [x for x in t], t(3), bool(_R6OnlyLen(0)), bool(_R6OnlyLen(2)),
            list(_R6OnlyGetitem()), sum(t), max(t), next(iter(t)), sorted(t, reverse=True), list(zip(t, "ab")),
            "yes" if _R6OnlyLen(0) else "no", not t, all(t), list(map(str, t)), list(enumerate(t))]


@_ctx.contextmanager
def _r6_nested(log, tag):
    log.append(("enter", tag))
    try:
        yield tag.upper()
    except KeyError:
        log.append(("swallowed", tag))
    finally:
        log.append(("exit", tag))


class _R6CM:
    def __init__(self, log):
        self.log = log

    def __enter__(self):
        self.log.append("in")
        return 7

    def __exit__(self, et, ev, tb):
        self.log.append(("out", et is None))
        return et is not None and issubclass(et, ValueError)


def case_r6_context_managers():
    log = []
    with _r6_nested(log, "a") as v:
        log.append(v)
    with _r6_nested(log, "b"):
        raise KeyError("x")
    try:
        with _r6_nested(log, "c"):
            raise ValueError("boom")
    except ValueError:
        log.append("propagated")
    with _R6CM(log) as seven:
        log.append(seven)
    with _R6CM(log):
        raise ValueError("eaten")

    def early():
        with _r6_nested(log, "d"):
            return "returned"
    log.append(early())
    for i in range(2):
        with _r6_nested(log, "e%d" % i):
            if i == 0:
                continue
            break
    return log


@_dc.dataclass
class _R6Walk:
    root: int
    found: list = _dc.field(init=False)
    pending: list = _dc.field(init=False, default_factory=list)
    scale: int = 2
    tag: str = _dc.field(default="t", repr=False)

    def __post_init__(self):
        self.found = [self.root]
        self.pending.append(self.root * self.scale)


@_dc.dataclass(frozen=True)
class _R6Names:
    parent: str
    children: tuple = ()

    @_ft.cached_property
    def joined(self):
        return self.parent + ":" + ",".join(self.children)


@_dc.dataclass(order=True)
class _R6Ver:
    major: int
    minor: int = 0


def case_r6_dataclasses():
    w = _R6Walk(3)
    w2 = _R6Walk(root=4, scale=5, tag="x")
    n = _R6Names("p", ("a", "b"))
    err = None
    try:
        n.parent = "q"
    except Exception as exc:
        err = type(exc).__name__
    err2 = None
    try:
        _R6Walk(1, [9])
    except TypeError:
        err2 = "TypeError"
    return [w.found, w.pending, w.scale, w.tag, w2.found, w2.pending, w2.tag, n.joined, n.joined, err, err2,
            _R6Ver(1, 2) < _R6Ver(1, 3), _R6Ver(2) == _R6Ver(2, 0), sorted([_R6Ver(2), _R6Ver(1, 5)])[0].minor,
            _R6Names("p") == _R6Names("p"), _dc.asdict(_R6Ver(3, 4)), _dc.replace(_R6Ver(3, 4), minor=9).minor]


class _R6Rec(_ty.NamedTuple):
    name: str
    lo: int = 0
    hi: int = 1

    def span(self):
        return self.hi - self.lo

    @classmethod
    def of(cls, text):
        a, b = text.split("..")
        return cls("parsed", int(a), int(b))

    @property
    def label(self):
        return f"{self.name}[{self.lo}..{self.hi}]"

    def __str__(self):
        return "<" + self.label + ">"


def case_r6_namedtuple_methods():
    r = _R6Rec("g", 1, 4)
    p = _R6Rec.of("2..9")
    lo, hi = r[1:]
    match r:
        case _R6Rec(_, 1, h):
            m1 = ("pos", h)
        case _:
            m1 = None
    match p:
        case _R6Rec(name="other"):
            m2 = "other"
        case _R6Rec(lo=2, hi=top):
            m2 = ("kw", top)
    return [r.span(), p.span(), r.label, str(r), f"{p}", r._asdict(), r._replace(hi=8).span(), lo, hi, m1, m2, r == ("g", 1, 4),
            len(r), list(r), _R6Rec("d").hi, p.name, _R6Rec._fields, "%s" % (r,), tuple(r) + (1,)]


class _R6Kind(_enum.Enum):
    ALT = _enum.auto()
    OR = _enum.auto()
    CARD = (7, "x")
    SAME = 1          # alias of ALT

    @classmethod
    def of(cls, lo, hi, n):
        if (lo, hi) == (1, 1):
            return cls.ALT
        return cls.OR if (lo, hi) == (1, n) else cls.CARD

    def label(self):
        match self:
            case _R6Kind.ALT:
                return "alternative"
            case _R6Kind.OR:
                return "or"
            case _:
                return "card"

    @property
    def is_group(self):
        return self is not _R6Kind.CARD


class _R6Sym(str, _enum.Enum):
    AND = "&"
    IMPLIES = "=>"
    REQUIRES = "=>"      # alias


class _R6Shape(_enum.Enum):
    SQUARE = (1, 4)
    LINE = (2, 2)

    def __init__(self, code, corners):
        self.code = code
        self.corners = corners

    def describe(self):
        return f"{self.name}:{self.code}:{self.corners}"


def case_r6_enums():
    table = {m: m.value for m in _R6Sym}
    return [[m.name for m in _R6Kind], _R6Kind.ALT.value, _R6Kind.OR.value, _R6Kind.SAME is _R6Kind.ALT, _R6Kind.SAME.name,
            _R6Kind.of(1, 1, 3).label(), _R6Kind.of(1, 3, 3).label(), _R6Kind.of(2, 3, 3).label(), _R6Kind.CARD.is_group,
            _R6Kind(2).name, _R6Kind["OR"].value, len(_R6Kind), list(_R6Kind.__members__), sorted(k.name for k in table),
            _R6Sym.REQUIRES.name, _R6Sym("=>").name, _R6Sym.AND == "&", _R6Sym.AND.value, str(_R6Sym.AND.value),
            [s.describe() for s in _R6Shape], _R6Shape.LINE.corners, _R6Shape((1, 4)).name,
            _R6Kind.OR in _R6Kind, isinstance(_R6Kind.OR, _R6Kind), {v.value: v.name for v in _R6Kind}[2],
            _R6Kind._value2member_map_[(7, "x")].name, bool(_R6Kind.ALT)]


class _R6Flag:
    """non-data descriptor with __set_name__"""
    def __init__(self, default=False):
        self.default = default

    def __set_name__(self, owner, name):
        self.key = "_" + name
        self.owner_name = owner.__name__

    def __get__(self, obj, objtype=None):
        if obj is None:
            return self
        return getattr(obj, self.key, self.default)


class _R6Pos:
    """data descriptor"""
    def __set_name__(self, owner, name):
        self.slot = "_p_" + name

    def __get__(self, obj, objtype=None):
        return obj.__dict__.get(self.slot, 0) if obj is not None else self

    def __set__(self, obj, value):
        if value < 0:
            raise ValueError("negative")
        obj.__dict__[self.slot] = value


class _R6Query:
    """installs an ordinary method under its own name"""
    def __init__(self, factor):
        self.factor = factor

    def __set_name__(self, owner, name):
        factor = self.factor

        def method(self_, x=1):
            return self_.base * factor * x
        method.__name__ = name
        setattr(owner, name, method)


class _R6Host:
    abstract = _R6Flag()
    mandatory = _R6Flag(True)
    level = _R6Pos()
    double = _R6Query(2)
    triple = _R6Query(3)

    def __init__(self, base):
        self.base = base
        self._abstract = base > 5


def case_r6_descriptors():
    h, g = _R6Host(2), _R6Host(7)
    h.level = 4
    err = None
    try:
        g.level = -1
    except ValueError:
        err = "ValueError"
    return [h.abstract, g.abstract, h.mandatory, h.level, g.level, err, h.double(), g.triple(2), _R6Host.double.__name__,
            _R6Host.abstract.key, _R6Host.abstract.owner_name, _R6Host.__dict__["mandatory"].default]


def _r6_with_listings(*specs):
    def decorate(cls):
        for name, attr, factor in specs:
            def listing(self, _attr=attr, _factor=factor):
                return [x * _factor for x in getattr(self, _attr)]
            listing.__name__ = name
            setattr(cls, name, listing)
        cls.installed = tuple(n for n, _, _ in specs)
        return cls
    return decorate


def _r6_identified_by(*fields):
    key = _op.attrgetter(*fields)

    def decorate(cls):
        cls.__eq__ = lambda self, other: isinstance(other, cls) and key(self) == key(other)
        cls.__hash__ = lambda self: hash(key(self))
        cls.__lt__ = lambda self, other: key(self) < key(other)
        return cls
    return decorate


@_r6_with_listings(("doubles", "xs", 2), ("tens", "xs", 10))
@_r6_identified_by("name", "size")
class _R6Model:
    def __init__(self, name, size, xs=()):
        self.name, self.size, self.xs = name, size, list(xs)


def case_r6_class_decorators():
    a, b, c = _R6Model("m", 1, [1, 2]), _R6Model("m", 1, [9]), _R6Model("m", 2)
    return [a.doubles(), a.tens(), _R6Model.installed, a == b, a == c, a != c, hash(a) == hash(b), len({a, b, c}), a < c,
            sorted([c, a])[0].size, a in [b], [c, a].index(b), {a: 1}[b], a.doubles.__name__]


class _R6Base:
    registry = {}

    def __init_subclass__(cls, initial=None, kinds=(), **kw):
        super().__init_subclass__(**kw)
        cls._initial = staticmethod(initial) if initial is not None else None
        for k in kinds:
            _R6Base.registry[k] = cls

    def __init__(self):
        self.result = self._initial() if self._initial is not None else None

    @classmethod
    def of(cls, kind):
        return _R6Base.registry[kind]()


class _R6Count(_R6Base, initial=int, kinds=("n", "count")):
    pass


class _R6List(_R6Base, initial=list, kinds=("l",)):
    def add(self, x):
        self.result.append(x)
        return self


def case_r6_init_subclass():
    c, l1, l2 = _R6Count(), _R6List(), _R6List()
    l1.add(1)
    return [c.result, l1.result, l2.result, type(_R6Base.of("count")).__name__, _R6Base.of("l").add(5).result,
            sorted(_R6Base.registry), isinstance(_R6Base.of("n"), _R6Count)]


class _R6Lazy:
    def __init__(self, xs):
        self.xs = xs
        self.calls = 0

    @_ft.cached_property
    def total(self):
        self.calls += 1
        return sum(self.xs)

    def __getattr__(self, name):
        if name.startswith("get_"):
            return lambda: (name[4:], self.xs)
        raise AttributeError(name)

    def __setattr__(self, name, value):
        if name == "forbidden":
            raise AttributeError("no")
        object.__setattr__(self, name, value)


def case_r6_getattr_hooks():
    z = _R6Lazy([1, 2, 3])
    first, second = z.total, z.total
    err = None
    try:
        z.forbidden = 1
    except AttributeError:
        err = "AttributeError"
    err2 = None
    try:
        z.unknown
    except AttributeError:
        err2 = "AttributeError"
    z.other = 5
    return [first, second, z.calls, z.get_names(), err, err2, z.other, hasattr(z, "get_x"), hasattr(z, "nothing"),
            getattr(z, "missing", "dflt")]


def case_r6_functional_tools():
    def deco(f):
        @_ft.wraps(f)
        def inner(*a, **k):
            return ("wrapped", f(*a, **k))
        return inner

    @deco
    def plus(a, b=1):
        "doc of plus"
        return a + b

    k = _R6OnlyLen(3)
    k.v = 3
    bound = _MethodType(lambda self, x: self.v + x, k)
    prop_holder = type(k)
    acc = list(_itl.accumulate([1, 2, 3], _op.mul, initial=10))
    return [plus(1), plus.__name__, plus.__doc__, bound(4), format(3.14159, ".2f"), format(12.333, ".3g"), format(255, "x"),
            format("s", ">3"), acc, list(_itl.accumulate([1, 2, 3])), list(_itl.compress("abcd", [1, 0, 1, 0])),
            list(filter(_ft.partial(_op.is_not, None), [1, None, 2])), list(_itl.starmap(pow, [(2, 3), (3, 2)])),
            list(_itl.takewhile(lambda x: x < 3, _itl.count())), list(_itl.islice(_itl.repeat("z"), 2)),
            prop_holder.__name__, list(_itl.pairwise([1, 2, 3])), list(_itl.batched([1, 2, 3], 2)) if hasattr(_itl, "batched") else [(1, 2), (3,)],
            _ft.reduce(_ft.partial(max), [1, 5, 2]), sorted({"b": 1, "a": 2}.items(), key=_op.itemgetter(1)),
            _op.methodcaller("upper")("x"), "{:>4}|{!r}".format("ab", "c"), "%05.1f" % 2.5, round(2.675, 2), divmod(7, 2)]


def case_r6_match_statements():
    out = []
    for v in [(1, 1), (0, 1), (1, 5), (2, 3), [1, 2, 3], {"k": 1, "z": 2}, "text", 5, None, 2.5, (1,), _R6Ver(1, 2), _R6Ver(3)]:
        size = 5
        match v:
            case (1, 1):
                r = "alt"
            case (0, 1):
                r = "mux"
            case (1, hi) if hi == size:
                r = ("or", hi)
            case (lo, hi):
                r = ("card", lo, hi)
            case [first, *rest]:
                r = ("seq", first, rest)
            case {"k": kv, **others}:
                r = ("map", kv, others)
            case str() as t:
                r = ("str", t)
            case int() | float() as num:
                r = ("num", num)
            case _R6Ver(major=1, minor=mn):
                r = ("ver1", mn)
            case _R6Ver(mj):
                r = ("ver", mj)
            case None:
                r = "none"
            case _:
                r = "other"
        out.append(r)
    return out


@_ft.singledispatch
def _r6_describe(x):
    return ("other", x)


@_r6_describe.register(int)
def _(x):
    return ("int", x)


def _r6_make(tag):
    def impl(x):
        return (tag, len(x))
    return impl


for _r6_cls, _r6_tag in ((list, "list"), (str, "str")):
    _r6_describe.register(_r6_cls)(_r6_make(_r6_tag))
_r6_describe.register(tuple, _r6_make("tuple"))
_R6_TABLE = {}
for _r6_i in range(3):
    _R6_TABLE[_r6_i] = lambda x, k=_r6_i: x + k
if len(_R6_TABLE) > 2:
    _R6_TABLE["big"] = True


def case_r6_module_level_statements():
    return [_r6_describe(3), _r6_describe([1, 2]), _r6_describe("abc"), _r6_describe((1,)), _r6_describe(2.5), _r6_describe(True),
            _R6_TABLE[2](10), _R6_TABLE["big"], sorted(map(str, _R6_TABLE))]


class _R6Plugin:
    registered = []

    def __init_subclass__(cls, types=(), **kw):
        super().__init_subclass__(**kw)
        _R6Plugin.registered.extend((t, cls) for t in types)

    @staticmethod
    def of(t):
        for name, kind in _R6Plugin.registered:
            if name == t:
                return kind()
        return _R6Fallback()

    def label(self):
        return type(self).__name__


class _R6Xor(_R6Plugin, types=("XOR", "ALT")):
    pass


class _R6Or(_R6Plugin, types=("OR",)):
    pass


class _R6Fallback(_R6Plugin):
    pass


def case_r6_registry_filled_at_import():
    return [_R6Plugin.of("XOR").label(), _R6Plugin.of("OR").label(), _R6Plugin.of("ALT").label(), _R6Plugin.of("?").label(),
            [t for t, _ in _R6Plugin.registered]]


def case_r6_lazy_builtins():
    log = []

    def noisy(x):
        log.append(x)
        return x * 2
    m = map(noisy, [1, 2, 3])
    before = list(log)
    first = next(m)
    numbered = list(zip(_itl.count(1), "abc"))
    evens = filter(lambda v: v % 2 == 0, _itl.count())
    firsts = [next(evens), next(evens)]
    pairs = list(enumerate(_itl.islice(_itl.count(10), 3), start=1))
    gen = (i for i in range(3))
    z = zip(gen, "xy")
    zl = list(z)
    leftover = list(gen)
    mm = map(lambda a, b: a + b, [1, 2, 3], _itl.count(100))
    return [before, first, list(log), list(m), log, numbered, firsts, pairs, zl, leftover, list(mm), sum(map(len, ["a", "bb"])),
            any(map(lambda v: v > 2, _itl.count())), dict(zip("ab", _itl.count()))]


@_ft.singledispatch
def _r6_literal(value):
    return f"{value}"


@_r6_literal.register
def _(value: None):
    return "nothing"


@_r6_literal.register
def _(value: bool):
    return str(value).lower()


@_r6_literal.register
def _(value: str):
    return f'"{value}"'


def case_r6_dispatch_on_none():
    err = None
    try:
        isinstance(3, 4)
    except TypeError:
        err = "TypeError"
    return [_r6_literal(None), _r6_literal(True), _r6_literal("s"), _r6_literal(2.5), _r6_literal(7), isinstance(None, type(None)), err]


def case_r7_number_and_char_builtins():
    import re
    unesc = re.sub(r"%([0-9A-Fa-f]{2})", lambda m: chr(int(m.group(1), 16)), "50%25 off%22")
    return [int("25", 16), int("0x1f", 0), int("101", base=2), chr(65) + chr(0x25), ord("a"), hex(255), bin(5), unesc,
            int(3.9), int(" 7 "), float("1e3"), "%02X" % ord('"'), f"{ord('%'):02X}"]


# ---- round 8: standard-library facilities used by modernisations ------------------------------------------------------
import types as _types
import enum as _enum
import io as _io
import bisect as _bisect
import heapq as _heapq
import string as _string
import textwrap as _textwrap
from typing import TypedDict as _TypedDict, Protocol as _Protocol
import abc as _abc

_TABLE = _types.MappingProxyType({"a": 1, "b": 2})
_WORDS = frozenset({"and", "or"})


class _Info(_TypedDict):
    name: str
    size: int


class _InfoOpt(_TypedDict, total=False):
    extra: str


class _Named(_Protocol):
    name: str


class _Slotted:
    __slots__ = ("a", "b")

    def __init__(self, a, b):
        self.a = a
        self.b = b


class _Shape(_abc.ABC):
    @_abc.abstractmethod
    def area(self):
        ...

    def double(self):
        return 2 * self.area()


class _Sq(_Shape):
    def __init__(self, s):
        self.s = s

    def area(self):
        return self.s * self.s


class _Lazy:
    def __init__(self, xs):
        self.xs = xs
        self.calls = 0

    @functools.cached_property
    def total(self):
        self.calls += 1
        return sum(self.xs)


class _Disp:
    @functools.singledispatchmethod
    def show(self, v):
        return "other"

    @show.register
    def _(self, v: int):
        return "int"

    @show.register
    def _(self, v: str):
        return "str"


def case_r8_mappingproxy():
    out = [_TABLE["a"], _TABLE.get("z", 0), "b" in _TABLE, list(_TABLE), len(_TABLE), sorted(_TABLE.items())]
    try:
        _TABLE["c"] = 3
    except TypeError:
        out.append("readonly")
    return out


def case_r8_typeddict():
    d = _Info(name="x", size=3)
    e = _InfoOpt()
    d2 = d | {"size": 4}
    return [d, e, d2, isinstance(d, dict), list(d)]


def case_r8_flag_intenum():
    # (declined: a class statement inside a function is outside the fragment; at module level a Flag / IntEnum class makes
    # the evaluator decline the whole module, see ensure_built)
    class _Perm(_enum.Flag):
        R = 1
        W = 2
        X = 4

    class _Level(_enum.IntEnum):
        LOW = 1
        HIGH = 5
    p = _Perm.R | _Perm.W
    return [_Perm.R in p, _Perm.X in p, p.value, _Level.HIGH > 3, int(_Level.LOW), _Level(5).name, sorted([_Level.HIGH, _Level.LOW])[0].name]


def case_r8_slots():
    s = _Slotted(1, 2)
    s.a = 5
    try:
        s.c = 1
        extra = "stored"
    except AttributeError:
        extra = "refused"
    return [s.a, s.b, extra]


def case_r8_abc():
    out = [_Sq(3).double()]
    try:
        _Shape()
        out.append("made")
    except TypeError:
        out.append("abstract")
    return out


def case_r8_cached_property():
    z = _Lazy([1, 2, 3])
    a = z.total
    z.xs.append(10)
    b = z.total
    del z.total
    c = z.total
    return [a, b, c, z.calls]


def case_r8_singledispatchmethod():
    d = _Disp()
    return [d.show(1), d.show("s"), d.show(2.5), d.show(True)]


def case_r8_stringio():
    buf = _io.StringIO()
    buf.write("a")
    buf.writelines(["b", "c\n"])
    print("d", 1, file=buf, sep="-")
    return buf.getvalue()


def case_r8_str_methods():
    t = str.maketrans({"a": "1", "b": None})
    return ["abcab".translate(t), "k=v=w".partition("="), "k=v=w".rpartition("="), "prefix_x".removeprefix("prefix_"),
            "x.uvl".removesuffix(".uvl"), "{a}-{b}".format_map({"a": 1, "b": 2}), _string.Template("$x and ${y}").substitute(x=1, y=2),
            _textwrap.indent("a\nb", "  "), "a,b;c".replace(";", ",").split(","), "Abc".casefold(), "x".join(["1", "2"]),
            "  s ".strip(), "a b".title(), "ab".center(6, "*"), "7".zfill(3), "a\tb".expandtabs(4)]


def case_r8_re_named_groups():
    pat = re.compile(r"""
        (?P<lo>\d+) \.\. (?P<hi>\d+|\*)   # bounds
    """, re.VERBOSE)
    m = pat.fullmatch("2..*")
    m2 = pat.search("x 10..12 y")
    return [m.group("lo"), m["hi"], m2.groupdict(), m2.span(), pat.sub(lambda mm: mm.group("hi"), "1..3 4..5"), bool(pat.match("no"))]


def case_r8_bisect_heapq():
    xs = [1, 3, 5]
    _bisect.insort(xs, 4)
    h = [5, 1, 4]
    _heapq.heapify(h)
    _heapq.heappush(h, 0)
    return [xs, _bisect.bisect_left(xs, 3), _bisect.bisect_right(xs, 3), _heapq.heappop(h), _heapq.nsmallest(2, [4, 2, 9]), sorted(h)]


def case_r8_collections():
    cm = collections.ChainMap({"a": 1}, {"a": 2, "b": 3})
    od = collections.OrderedDict([("x", 1), ("y", 2)])
    od.move_to_end("x")
    dd = collections.defaultdict(list)
    dd["k"].append(1)
    ns = _types.SimpleNamespace(a=1, b="t")
    ns.c = 3
    return [cm["a"], cm["b"], list(od), dict(dd), ns.a, ns.c, sorted(vars(ns))]


def case_r8_itertools():
    a, b = itertools.tee(iter([1, 2, 3]))
    return [list(itertools.pairwise([1, 2, 3])), list(itertools.starmap(pow, [(2, 3), (3, 2)])),
            list(itertools.zip_longest("ab", "c", fillvalue="-")), list(itertools.compress("abc", [1, 0, 1])),
            list(itertools.product("ab", repeat=2))[:3], list(a), list(b), operator.itemgetter(1, 0)(["x", "y"])]


def case_r8_match_sequences():
    out = []
    for v in ((1, 2), [1, 2, 3], ("k", {"a": 1}), (0,), "str", (1, "x")):
        match v:
            case (1, 2):
                out.append("pair")
            case [1, *rest]:
                out.append(("head", rest))
            case ("k", {"a": x}):
                out.append(("map", x))
            case (0 | 9,):
                out.append("single")
            case str() as s:
                out.append(("s", s))
            case _:
                out.append("other")
    return out


def case_r8_try_else_finally_from():
    log = []

    def f(x):
        try:
            if x == 0:
                raise KeyError("k")
        except KeyError as exc:
            log.append("except")
            raise ValueError("v") from exc
        else:
            log.append("else")
        finally:
            log.append("finally")
        return x
    f(1)
    try:
        f(0)
    except ValueError as exc:
        log.append(type(exc.__cause__).__name__)
    return log


def case_r8_nonlocal_unpacking_merge():
    def counter():
        n = 0

        def inc(k=1):
            nonlocal n
            n += k
            return n
        return inc
    c = counter()
    c()
    c(5)
    first, *mid, last = [1, 2, 3, 4]
    d = {"a": 1} | {"b": 2}
    d |= {"a": 9}

    def g(*a, **k):
        return (a, sorted(k))
    return [c(), first, mid, last, d, [*range(2), *"ab"], {**d, "z": 0}, g(*[1, 2], **{"x": 1}), {k: v for k, v in d.items() if v > 1},
            {x % 2 for x in range(5)}]


def case_r8_contextlib_exitstack():
    import contextlib
    log = []

    @contextlib.contextmanager
    def cm(name):
        log.append("in " + name)
        try:
            yield name
        finally:
            log.append("out " + name)
    with contextlib.ExitStack() as st:
        a = st.enter_context(cm("a"))
        b = st.enter_context(cm("b"))
        log.append(a + b)
    with contextlib.suppress(KeyError):
        {}["x"]
        log.append("not reached")
    return log


def case_r8_dataclass_slots():
    @dataclass(slots=True)
    class Pt:
        x: int
        y: int = 0
    p = Pt(1)
    p.y = 4
    return [p.x, p.y, p == Pt(1, 4)]


def case_r8_dunder_methods_of_builtins():
    fmt = "[%s to %s]".__mod__
    return [fmt((1, 2)), "ab".__add__("c"), [1].__add__([2]), "ab".__mul__(2), "b".__lt__("c"), "abc".__getitem__(1),
            list(map("<%s>".__mod__, ["x", "y"])), "x".__ne__("x")]


class _Perm(_enum.Flag):
    R = _enum.auto()
    W = _enum.auto()
    X = _enum.auto()
    RW = R | W
    NONE = 0


_FAMILY = _types.MappingProxyType({"read": _Perm.R, "write": _Perm.W, "all": _Perm.R | _Perm.W | _Perm.X})


def case_r9_flag():
    p = _Perm.R | _Perm.W
    q = _FAMILY["read"]
    q |= _Perm.X
    return [_Perm.R in p, _Perm.X in p, p.value, p is _Perm.RW, p == _Perm.RW, p.name, bool(_Perm.NONE), bool(p & _Perm.X),
            (p & _Perm.W).name, (p ^ _Perm.W).name, [m.name for m in _Perm], (~_Perm.R).value, q.value, (_Perm.R | _Perm.X).value,
            _Perm.W.value, _Perm(4).name, _FAMILY["all"].value, _Perm.R in _FAMILY["all"], hash(_Perm.R) == hash(_Perm.R)]
