"""Conformance cases for the evaluator (sa/absint.py): every function `case_*` is run by CPython and by the
evaluator (from this file's source); both must give the same value or raise the same exception type.
The file is copied into a scratch package by tools/evalconf.py; it is not part of any check."""
import collections
import functools
import itertools
import operator
import re
from dataclasses import dataclass, field
from decimal import Decimal
from typing import Any, NamedTuple


class P:
    """Equality by name (case-insensitive), like the library's Constraint."""
    def __init__(self, name, weight=0):
        self.name = name
        self.weight = weight

    def __eq__(self, other):
        return isinstance(other, P) and self.name.lower() == other.name.lower()

    def __hash__(self):
        return hash(self.name.lower())

    def __lt__(self, other):
        return self.name.lower() < other.name.lower()

    def __repr__(self):
        return f"P({self.name})"


class Box:
    shared = []          # class-level: one list for every instance
    LIMIT = 3
    DOUBLE = LIMIT * 2

    def __init__(self, items=None, tags=[]):
        self.items = items if items is not None else []
        self.tags = tags

    def add(self, x):
        self.items.append(x)
        Box.shared.append(x)
        return self

    @property
    def size(self):
        return len(self.items)

    @classmethod
    def make(cls, *xs):
        return cls(list(xs))

    @staticmethod
    def twice(x):
        return 2 * x

    def label(self):
        return "box"

    alias = label


@dataclass
class Rec:
    a: int
    b: str = "x"
    c: list = field(default_factory=list)


@dataclass(frozen=True)
class FRec:
    a: int
    b: int = 2


class Key(NamedTuple):
    parent: str
    lo: int
    hi: int = 9


def gen_upto(n):
    for i in range(n):
        yield i
    yield from ("a", "b")


def names(ps):
    return [p.name for p in ps]


def case_set_own_equality():
    s = {P("A"), P("a"), P("B")}
    return sorted(names(s), key=str.lower), len(s), P("b") in s, P("c") in s


def case_dict_own_equality():
    d = {P("A"): 1}
    d[P("a")] = 2
    d[P("B")] = 3
    return len(d), d[P("A")], names(d.keys())[0], d.get(P("b")), d.get(P("z"), "none")


def case_dict_comprehension_collapse():
    ps = [P("x", 1), P("X", 2), P("y", 3)]
    d = {p: p.weight for p in ps}
    return len(d), sorted(d.values()), names(d)[0]


def case_set_algebra():
    a = {P("a"), P("b")}
    b = {P("B"), P("c")}
    return (sorted(names(a | b), key=str.lower), sorted(names(a & b)), sorted(names(a - b)),
            len(a ^ b), a.issubset(a | b), a.isdisjoint({P("z")}))


def case_list_methods_equality():
    ps = [P("a"), P("B"), P("A")]
    return ps.index(P("b")), ps.count(P("A")), P("b") in ps


def case_sorted_key_reverse():
    ps = [P("b", 1), P("a", 1), P("c", 0)]
    return (names(sorted(ps)), names(sorted(ps, key=lambda p: p.weight)),
            names(sorted(ps, key=lambda p: p.weight, reverse=True)), names(sorted(ps, reverse=True)))


def case_min_max_key():
    ps = [P("b", 1), P("a", 1), P("c", 0)]
    return (min(ps).name, max(ps).name, max(ps, key=lambda p: p.weight).name, min(ps, key=lambda p: p.weight).name,
            max([3, 1, 2]), min("b", "a"), max([], default=7), max([1, 2], key=lambda x: -x))


def case_generator_one_shot():
    g = (x * x for x in range(4))
    first = list(g)
    second = list(g)
    return first, second


def case_generator_function():
    g = gen_upto(3)
    a = next(g)
    rest = list(g)
    return a, rest, next(iter([]), "dflt")


def case_iter_next_stack():
    stack = [iter([1, 2]), iter([3])]
    out = []
    while stack:
        x = next(stack[-1], None)
        if x is None:
            stack.pop()
            continue
        out.append(x)
    return out


def case_iter_live_list():
    xs = [1, 2]
    it = iter(xs)
    out = []
    for x in it:
        out.append(x)
        if x == 1:
            xs.append(3)
    return out


def case_next_on_list_raises():
    return next([1, 2])


def case_len_of_generator_raises():
    return len(x for x in [1])


def case_map_filter_zip():
    m = map(lambda x: x + 1, [1, 2, 3])
    f = filter(None, [0, 1, "", "a"])
    z = zip("ab", [1, 2, 3])
    return list(m), list(m), list(f), list(z), list(enumerate("ab", start=1)), list(reversed([1, 2]))


def case_zip_strict():
    return list(zip([1], [1, 2], strict=True))


def case_augassign_alias():
    a = [1]
    b = a
    b += [2]
    c = a
    c = c + [3]
    s = {1}
    t = s
    t |= {2}
    return a, b, c, sorted(s)


def case_mutable_default_and_class_attr():
    Box.shared.clear()
    b1, b2 = Box(), Box()
    b1.tags.append("t")
    b1.add(1)
    b2.add(2)
    return b2.tags, Box.shared, b1.shared is b2.shared, b1.items, Box.DOUBLE, b1.size


def case_class_alias_and_classmethod():
    b = Box.make(1, 2)
    return b.alias(), b.items, Box.twice(4), b.twice(3), b.make(5).items, type(b.make()).__name__


def case_dataclass():
    r1, r2 = Rec(1), Rec(1)
    r1.c.append(5)
    return r1 == r2, r1.c, r2.c, Rec(2, "y") == Rec(2, "y"), r1.b, Rec(a=3, c=[1]).c


def case_frozen_dataclass():
    f = FRec(1)
    return f == FRec(1, 2), len({f, FRec(1)}), f.b


def case_dataclass_missing_arg():
    return Rec()


def case_namedtuple():
    k1, k2 = Key("p", 1), Key("p", 1, 9)
    return k1 == k2, k1 < Key("p", 2), k1.hi, k1[0], list(k1), sorted([Key("b", 1), Key("a", 5)])[0].parent, k1 == ("p", 1, 9)


def case_closure_nonlocal():
    count = 0
    seen = []

    def bump(x):
        nonlocal count
        count += 1
        seen.append(x)
        return count
    bump("a")
    bump("b")
    return count, seen


def case_late_binding():
    fs = [lambda: i for i in range(3)]
    gs = [lambda i=i: i for i in range(3)]
    return [f() for f in fs], [g() for g in gs]


def case_try_finally_order():
    log = []

    def f():
        try:
            log.append("try")
            return "ret"
        finally:
            log.append("finally")
    r = f()
    try:
        try:
            raise ValueError("x")
        finally:
            log.append("inner-finally")
    except ValueError:
        log.append("caught")
    else:
        log.append("else")
    return r, log


def case_try_else():
    log = []
    for v in ("1", "x"):
        try:
            n = int(v)
        except ValueError:
            log.append("bad")
        else:
            log.append(n)
    return log


def case_loop_else_and_continue_in_try():
    out = []
    for x in range(5):
        try:
            if x % 2:
                continue
            out.append(x)
        finally:
            out.append("f")
    else:
        out.append("done")
    while True:
        try:
            out.pop()
        except IndexError:
            break
    return out


def case_suppress():
    import contextlib
    out = []
    with contextlib.suppress(KeyError, IndexError):
        out.append(1)
        {}["k"]
        out.append(2)
    with contextlib.suppress(ValueError):
        out.append(int("3"))
    return out


def case_suppress_other_raises():
    import contextlib
    with contextlib.suppress(KeyError):
        int("x")
    return "unreached"


def case_match():
    def kind(v):
        match v:
            case 0 | 1:
                return "small"
            case int(n) if n > 10:
                return "big"
            case [x, y]:
                return f"pair {x}{y}"
            case [first, *rest]:
                return f"seq {first} {len(rest)}"
            case "a":
                return "letter"
            case None:
                return "none"
            case _:
                return "other"
    return [kind(v) for v in (0, 50, 5, [1, 2], [1, 2, 3], "a", None, "zz")]


def case_star_args():
    def f(a, *rest, k=0, **kw):
        return a, rest, k, sorted(kw.items())
    args = (1, 2, 3)
    return f(*args), f(1, k=5, z=9), f(*[1], **{"k": 2})


def case_unexpected_kwarg():
    def f(a):
        return a
    return f(1, b=2)


def case_functools():
    add3 = functools.partial(operator.add, 3)
    join = functools.reduce(lambda acc, x: acc + [x * 2], [1, 2, 3], [])
    return add3(4), join, functools.reduce(operator.mul, [1, 2, 3, 4]), list(map(operator.itemgetter(1), [(1, 2), (3, 4)]))


def case_lru_cache_by_equality():
    calls = []

    @functools.lru_cache(maxsize=None)
    def weight(p):
        calls.append(p.name)
        return p.weight
    return weight(P("a", 1)), weight(P("A", 2)), calls


def case_methodcaller_attrgetter():
    ps = [P("b", 2), P("a", 1)]
    lab = operator.methodcaller("label")
    return list(map(operator.attrgetter("name"), ps)), lab(Box()), operator.attrgetter("name", "weight")(ps[0])


def case_itertools():
    g = itertools.groupby(["aa", "ab", "b", "a"], key=lambda s: s[0])
    groups = [(k, list(v)) for k, v in g]
    return (groups, list(itertools.chain([1], (2, 3))), list(itertools.chain.from_iterable([[1], [2, 3]])),
            list(itertools.combinations("abc", 2)), list(itertools.accumulate([1, 2, 3])), list(itertools.islice(range(10), 2, 5)),
            list(itertools.pairwise([1, 2, 3])), list(itertools.product("ab", [1, 2])), list(itertools.zip_longest([1], [1, 2])),
            list(itertools.takewhile(lambda x: x < 3, [1, 2, 3, 1])), list(itertools.starmap(operator.add, [(1, 2), (3, 4)])))


def case_collections():
    c = collections.Counter("abca")
    d = collections.defaultdict(list)
    d["x"].append(1)
    dq = collections.deque([1, 2, 3])
    dq.appendleft(0)
    dq.rotate(1)
    return c["a"], c["z"], c.most_common(1), dict(d), d["y"], dq.popleft(), list(dq), dq.pop()


def case_re():
    pat = re.compile(r"(\w+)=(\d+)")
    m = pat.search("k=12;j=3")
    table = {"a": "1", "b": "2"}
    return (m.group(1), m.groups(), pat.findall("k=12;j=3"), re.sub(r"[ab]", lambda mo: table[mo.group(0)], "cab"),
            re.escape("a.b"), bool(re.fullmatch(r"[A-Za-z_]\w*", "x1")), re.split(r",\s*", "a, b,c"))


def case_decimal():
    return abs(Decimal("1.50").as_tuple().exponent), str(Decimal("0.1") + Decimal("0.2")), round(2.675, 2), round(1.5), round(2.5)


def case_strings():
    t = str.maketrans({"a": "b", "-": None})
    return ("a-ba".translate(t), "x".center(5, "*"), "a,b".partition(","), "A b".swapcase(), " x ".strip(), "a.b.c".rsplit(".", 1),
            "{:>4}|{:<3}|{:.2f}".format("a", "b", 1.239), f"{3:03d}|{'q'!r}|{1.5:.1f}", "%s-%d" % ("a", 3), "ab" * 2, "b" in "abc",
            ",".join(map(str, [1, 2])), "Ab".casefold(), "x1".isidentifier(), "a\tb".expandtabs(4))


def case_slices_and_unpacking():
    xs = list(range(6))
    a, *mid, z = xs
    (p, q), r = (1, 2), 3
    xs[1:3] = ["x"]
    return a, mid, z, p, q, r, xs, xs[::-1], xs[-2:], "abc"[1:], xs[slice(1, 3)]


def case_del():
    xs = [1, 2, 3]
    d = {"a": 1, "b": 2}
    del xs[0]
    del d["a"]
    return xs, d


def case_boolean_operands_and_chains():
    return (0 or "x", 1 and [], None or 0, 1 < 2 < 3, 1 < 3 < 2, not [], 3 if [] else 4, -7 // 2, -7 % 3, 7 / 2, 2 ** 10, 5 | 2, 6 & 3)


def case_walrus_and_comprehension_scope():
    x = "outer"
    ys = [x for x in range(3)]
    total = [(acc := i * 2) for i in range(3)]
    return x, ys, total, acc


def case_dict_order_and_ops():
    d = {"b": 1, "a": 2}
    d["c"] = 3
    d["b"] = 9
    e = d | {"a": 0}
    d.update(z=1)
    return list(d), list(e.items()), d.pop("z"), d.setdefault("q", []), sorted(d), dict(zip("ab", [1, 2])), dict([("k", 1)], j=2)


def case_isinstance_and_types():
    return (isinstance(True, int), isinstance(1, bool), isinstance(P("a"), object), isinstance(Key("a", 1), tuple),
            isinstance(Key("a", 1), Key), isinstance([], (list, tuple)), type(1).__name__, isinstance(1.0, (int, float)))


def case_exception_hierarchy():
    out = []
    for exc in (KeyError("k"), IndexError(), ZeroDivisionError(), UnicodeDecodeError("utf8", b"", 0, 1, "x")):
        try:
            raise exc
        except LookupError:
            out.append("lookup")
        except ArithmeticError:
            out.append("arith")
        except ValueError:
            out.append("value")
    return out


def case_zero_division():
    return 1 / 0


def case_key_error():
    return {}["missing"]


def case_attribute_error():
    return P("a").nope


def case_unbound_local():
    def f(flag):
        if flag:
            v = 1
        return v
    return f(False)


def case_sum_any_all():
    return sum([1, 2], 10), sum(x for x in range(4)), any(x > 2 for x in range(4)), all([]), any([]), sum([[1], [2]], [])


def case_equality_with_other_types():
    return P("a") == "a", "a" == P("a"), P("a") != P("A"), [P("a")] == [P("A")], (1, P("b")) == (1, P("B")), {1: P("a")} == {1: P("A")}


def case_string_template_and_textwrap():
    import string
    import textwrap
    return string.Template("$a-$b").substitute(a=1, b="x"), textwrap.indent("a\nb", "  "), textwrap.dedent("  a\n  b"), string.ascii_lowercase[:3]


def case_genexp_late_binding():
    # generator expressions kept in a dict and consumed after the loop: free names have their final values
    names = ["a", "b", "c"]
    kept = {n: (m for m in names if m != n) for n in names}
    out1 = {k: list(v) for k, v in kept.items()}
    gens = []
    for k in range(3):
        gens.append(x + k for x in (10, 20))
    out2 = [list(g) for g in gens]
    src = [1, 2, 3]
    g = (y * 2 for y in src)           # first iterable evaluated now
    src = [7]
    factor = 3
    h = (y * factor for y in [1, 2])
    first = next(h)
    factor = 5
    rest = list(h)
    return [out1, out2, list(g), first, rest]


def case_genexp_exhausted_twice():
    import itertools
    data = [[1, 2], [3]]
    flat = itertools.chain.from_iterable(x for x in data)
    a = []
    b = []
    a.extend(flat)
    b.extend(flat)
    counts = (len(x) for x in data)
    s1 = sum(counts)
    s2 = sum(counts)
    return [a, b, s1, s2]


def case_generator_lazy_and_suspended():
    log = []

    def groups(items):
        for it in items:
            members = [it]
            log.append(("open", it))
            yield members
            members.append(it * 10)        # appended after the consumer has seen the list
            log.append(("closed", it))
    early = [list(m) for m in groups([1, 2])]
    late = list(groups([3, 4]))
    g = groups([5, 6])
    first = next(g)
    snapshot = list(log)
    return [early, late, first, snapshot]


def case_generator_send_return_close():
    def acc():
        total = 0
        while True:
            x = yield total
            if x is None:
                return total
            total += x

    def outer():
        r = yield from acc()
        yield ("returned", r)
    g = outer()
    out = [next(g), g.send(3), g.send(4), g.send(None)]
    trail = []

    def res():
        try:
            yield 1
            yield 2
        finally:
            trail.append("cleanup")
    r = res()
    next(r)
    r.close()
    return [out, trail, list(r)]


def case_generator_recursive_walk():
    def walk(t):
        yield t[0]
        for c in t[1]:
            yield from walk(c)
    tree = (1, [(2, [(3, []), (4, [])]), (5, [(6, [])])])
    it = walk(tree)
    head = [next(it), next(it)]
    return [head, list(it), any(x > 3 for x in walk(tree))]
