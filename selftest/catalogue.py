"""Self-test catalogue: single-site edits of /repo's package applied to scratch copies.

expect='fire': the edit breaks the property (and passes the 144 pinned tests); the named rule must
report it. expect='silent': behaviour-preserving refactor; checks must exit 0.
"""
FM = "models/feature_model.py"
OPS = "operations/"
TR = "transformations/"

CATALOGUE = [
    # ---- C03 ------------------------------------------------------------------------------------
    dict(id="c03-mutex-n2", props=["C03"], file=FM, rule="C03-PARTITION",
         old="self.card_min == 0 and self.card_max == 1 and len(self.children) > 1",
         new="self.card_min == 0 and self.card_max == 1 and len(self.children) > 2"),
    dict(id="c03-relations-skip-mutex", props=["C03"], file=FM, rule="C03-LISTING",
         old="            pending.append(iter([child_relation for child in relation.children",
         new="            pending.append(iter([child_relation for child in (relation.children if not relation.is_mutex() else [])"),
    dict(id="c03-lookup-casefold", props=["C03"], file=FM, rule="C03-LISTING",
         old="if f.name == feature_name", new="if f.name.lower() == feature_name.lower()"),
    dict(id="c03-optional-listing", props=["C03"], file=FM, rule="C03-FILTER",
         old="return [f for f in self.get_features() if f.is_optional()]",
         new="return [f for f in self.get_features() if not f.is_mandatory()]"),
    dict(id="c03-silent-inline-or-group", props=["C03"], file=FM, expect="silent",
         old="return any(r.is_or() for r in self.get_relations())",
         new="return any(r.card_min == 1 and r.card_max == len(r.children) and len(r.children) > 1 "
             "for r in self.relations)"),
    dict(id="c03-silent-is-or-via-group", props=["C03"], file=FM, expect="silent",
         old="""        return (
            self.card_min == 1
            and self.card_max == len(self.children)
            and len(self.children) > 1
        )""",
         new="        return self.is_group() and self.card_min == 1 and self.card_max == len(self.children)"),
    # ---- C20 ------------------------------------------------------------------------------------
    dict(id="c20-eq-drops-cardmax", props=["C20"], file=FM, rule="C20-",
         old="            and self.card_max == other.card_max\n", new=""),
    dict(id="c20-hash-tuple-children", props=["C20"], file=FM, rule="C20-HASHEQ",
         old="(self.parent, frozenset(self.children), self.card_min, self.card_max)",
         new="(self.parent, tuple(self.children), self.card_min, self.card_max)"),
    dict(id="c20-ctc-lt-by-name", props=["C20"], file=FM, rule="C20-SORTKEY",
         old="return str(self.ast).lower() < str(other.ast).lower()", new="return self.name < other.name"),
    dict(id="c20-relation-lt-str", props=["C20"], file=FM, rule="C20-SORTKEY",
         old="return self._ordering_key() < other._ordering_key()", new="return str(self) < str(other)"),
    # ---- C13 ------------------------------------------------------------------------------------
    dict(id="c13-optional-plus2", props=["C13"], file=OPS + "fm_estimated_configurations_number.py",
         rule="C13-FORMS",
         old="counts.append(count_configurations_rec(relation.children[0]) + 1)",
         new="counts.append(count_configurations_rec(relation.children[0]) + 2)"),
    dict(id="c13-or-no-minus1", props=["C13"], file=OPS + "fm_estimated_configurations_number.py",
         rule="C13-FORMS", old="counts.append(math.prod(children_counts) - 1)",
         new="counts.append(math.prod(children_counts))"),
    dict(id="c13-sum-instead-of-prod", props=["C13"], file=OPS + "fm_estimated_configurations_number.py",
         rule="C13-COMBINE", old="    return math.prod(counts)", new="    return sum(counts)"),
    dict(id="c13-leaf-or-abstract", props=["C13"], file=OPS + "fm_estimated_configurations_number.py",
         rule="C13-", old="if feature.is_leaf():", new="if feature.is_leaf() or feature.is_abstract:"),
    # ---- C14 ------------------------------------------------------------------------------------
    dict(id="c14-also-optional", props=["C14"], file=OPS + "fm_core_features.py", rule="C14-GUARD",
         old="if relation.card_min >= len(relation.children):",
         new="if relation.card_min >= len(relation.children) or relation.is_optional():"),
    dict(id="c14-no-closure", props=["C14"], file=OPS + "fm_core_features.py", rule="C14-CLOSURE",
         old="                features.extend(relation.children)", new="                pass"),
    dict(id="c14-silent-bfs", props=["C14"], file=OPS + "fm_core_features.py", expect="silent",
         old="        feature = features.pop()", new="        feature = features.pop(0)"),
    # ---- C15 ------------------------------------------------------------------------------------
    dict(id="c15-merge-optional", props=["C15"], file=OPS + "fm_atomic_sets.py", rule="C15-GUARD",
         old="        if child.is_mandatory():", new="        if child.is_mandatory() or child.is_optional():"),
    dict(id="c15-forget-register", props=["C15"], file=OPS + "fm_atomic_sets.py", rule="C15-PARTITION",
         old="            atomic_sets.append(new_as)", new="            pass"),
    # ---- C16 ------------------------------------------------------------------------------------
    dict(id="c16-depth-plus1", props=["C16"], file=OPS + "fm_max_depth_tree.py", rule="C16-DEPTH",
         old="max(len(get_feature_ancestors(f)) for f", new="max(len(get_feature_ancestors(f)) + 1 for f"),
    dict(id="c16-vp-only-optional", props=["C16"], file=OPS + "fm_variation_points.py", rule="C16-VP",
         old="            if not relation.is_mandatory():", new="            if relation.is_optional():"),
    dict(id="c16-ancestors-reversed", props=["C16"], file=OPS + "fm_feature_ancestors.py",
         rule="C16-ANCESTORS", old="        features.append(parent)", new="        features.insert(0, parent)"),
    # ---- C18 ------------------------------------------------------------------------------------
    dict(id="c18-requires-accepts-equiv", props=["C18"], file=FM, rule="C18-TABLES",
         old="""            if root_op.data in [ASTOperation.REQUIRES, ASTOperation.IMPLIES]:
                return root_op.left.is_term() and root_op.right.is_term()

            if root_op.data == ASTOperation.OR:
                neg_left = (
                    root_op.left.data == ASTOperation.NOT
                    and root_op.left.left.is_term()
                )
                neg_right = (
                    root_op.right.data == ASTOperation.NOT
                    and root_op.right.left.is_term()
                )
                return (""",
         new="""            if root_op.data in [ASTOperation.REQUIRES, ASTOperation.IMPLIES, ASTOperation.EQUIVALENCE]:
                return root_op.left.is_term() and root_op.right.is_term()

            if root_op.data == ASTOperation.OR:
                neg_left = (
                    root_op.left.data == ASTOperation.NOT
                    and root_op.left.left.is_term()
                )
                neg_right = (
                    root_op.right.data == ASTOperation.NOT
                    and root_op.right.left.is_term()
                )
                return ("""),
    dict(id="c18-swap-pair", props=["C18"], file=FM, rule="C18-TABLES",
         old="""        elif left == ASTOperation.NOT:  # implies: A -> B
            left = root_op.left.left.data
            right = root_op.right.data""",
         new="""        elif left == ASTOperation.NOT:  # implies: A -> B
            right = root_op.left.left.data
            left = root_op.right.data"""),
    dict(id="c18-complex-not-logical", props=["C18"], file=FM, rule="C18-CONSIST",
         old="        return self.is_logical_constraint() and not self.is_simple_constraint()",
         new="        return not self.is_simple_constraint()"),
    dict(id="c18-getfeatures-left-only", props=["C18"], file=FM, rule="C18-NAMES",
         old="""            elif node.is_binary_op():
                stack.append(node.right)
                stack.append(node.left)
        return list(features)""",
         new="""            elif node.is_binary_op():
                stack.append(node.left)
        return list(features)"""),
    # ---- C19 ------------------------------------------------------------------------------------
    dict(id="c19-result-accumulates", props=["C19"], file=OPS + "fm_count_leafs.py", rule="C19-RESULT",
         old="        self.result = count_leaf_features(fm_model)",
         new="        self.result += count_leaf_features(fm_model)"),
    dict(id="c19-core-sorts-ctcs", props=["C19"], file=OPS + "fm_core_features.py", rule="C19-PURE",
         old="    core_features = [feature_model.root]",
         new="    feature_model.ctcs.sort()\n    core_features = [feature_model.root]"),
    dict(id="c19-vp-aliases-children", props=["C19", "C16"], file=OPS + "fm_variation_points.py",
         rule="C19-PURE", old="        variants = []\n",
         new="        variants = feature.get_relations()[0].children if feature.get_relations() else []\n"),
    dict(id="c19-randint-swapped", props=["C19"], file=OPS + "fm_generate_random_attribute.py",
         rule="C19-GENATTR",
         old="value = random.randint(random_range.min_value, random_range.max_value)",
         new="value = random.randint(random_range.max_value, random_range.min_value)"),
    dict(id="c19-genattr-overwrites", props=["C19"], file=OPS + "fm_generate_random_attribute.py",
         rule="C19-GENATTR",
         old="            if not any(name == attr.name for attr in feature.get_attributes()):",
         new="            if True:"),
    dict(id="c19-genattr-touches-abstract", props=["C19"], file=OPS + "fm_generate_random_attribute.py",
         rule="C19-", old="                feature.add_attribute(new_attribute)\n",
         new="                feature.add_attribute(new_attribute)\n                feature.is_abstract = False\n"),
    dict(id="c19-metrics-sorts-relations", props=["C19"], file=OPS + "fm_metrics.py", rule="C19-PURE",
         old="        self._features = self.model.get_features()\n",
         new="        self._features = self.model.get_features()\n        self.model.root.relations.sort()\n"),
    dict(id="c19-metrics-no-reset", props=["C19"], file=OPS + "fm_metrics.py", rule="C19-RESULT",
         old="        self.result = []\n        return super().execute(model)",
         new="        return super().execute(model)"),
    dict(id="c19-silent-local-result", props=["C19", "C16"], file=OPS + "fm_count_leafs.py", expect="silent",
         old="        self.result = count_leaf_features(fm_model)",
         new="        leafs = count_leaf_features(fm_model)\n        self.result = leafs"),
    # ---- C17 ------------------------------------------------------------------------------------
    dict(id="c17-size-of-other-listing", props=["C17"], file=OPS + "fm_metrics.py", rule="C17-SIZE",
         old="            size=len(_abstract_features),", new="            size=len(self._features),"),
    dict(id="c17-ratio-wrong-denominator", props=["C17"], file=OPS + "fm_metrics.py", rule="C17-RATIO",
         old="ratio=self.get_ratio(_or_groups, _group_features),",
         new="ratio=self.get_ratio(_or_groups, self._features),"),
    dict(id="c17-duplicate-name", props=["C17"], file=OPS + "fm_metrics.py", rule="C17-NAMES",
         old='name = "Max depth of tree"', new='name = "Depth of tree"'),
    dict(id="c17-compound-includes-leaf", props=["C17"], file=OPS + "fm_metrics.py", rule="C17-",
         old="f.name for f in self._features if len(f.get_relations()) > 0",
         new="f.name for f in self._features if len(f.get_relations()) >= 0"),
    dict(id="c17-depth-off-by-one", props=["C17"], file=OPS + "fm_metrics.py", rule="C17-D",
         old="            len(self.get_feature_ancestors(self._features_by_name[f]))",
         new="            len(self.get_feature_ancestors(self._features_by_name[f])) + 1"),
    dict(id="c17-min-children-all-features", props=["C17"], file=OPS + "fm_metrics.py", rule="C17-DEF",
         old="                if not feature.is_leaf()\n            ),\n            default=0,",
         new="            ),\n            default=0,"),
    dict(id="c17-grouped-by-parent", props=["C17"], file=OPS + "fm_metrics.py", rule="C17-",
         old="            r.is_group() and feature in r.children for r in parent.get_relations()",
         new="            r.is_group() for r in parent.get_relations()"),
    dict(id="c17-avg-children-non-leaf", props=["C17"], file=OPS + "fm_metrics.py", rule="C17-DEF",
         old="_avg_children_per_feature = round(nof_children / len(self._features), 2)",
         new="_avg_children_per_feature = round(nof_children / len(self._features), 1)"),
    dict(id="c17-stale-cache", props=["C17", "C19"], file=OPS + "fm_metrics.py", rule="C1",
         old="        self._leaf_features = [\n            f.name for f in self._features if len(f.get_relations()) == 0\n        ]",
         new="        if not self._leaf_features:\n            self._leaf_features = [\n                f.name for f in self._features if len(f.get_relations()) == 0\n            ]"),
    dict(id="c17-silent-rename-local", props=["C17"], file=OPS + "fm_metrics.py", expect="silent",
         old="        _features = list(self._features_by_name.keys())\n        result = self.construct_result(\n            name=name, doc=self.features.__doc__, result=_features, size=len(_features)",
         new="        names = [f.name for f in self._features]\n        result = self.construct_result(\n            name=name, doc=self.features.__doc__, result=names, size=len(names)"),
    # ---- C05 ------------------------------------------------------------------------------------
    dict(id="c05-swap-card", props=["C05"], file=TR + "json_reader.py", rule="C05-KIND",
         old="new_relation = Relation(feature, children, card_min, card_max)",
         new="new_relation = Relation(feature, children, card_max, card_min)"),
    dict(id="c05-abstract-str", props=["C05"], file=TR + "json_writer.py", rule="C05-TYPE",
         old="    feature_info['abstract'] = feature.is_abstract",
         new="    feature_info['abstract'] = str(feature.is_abstract)\n    feature_info['abstract'] = feature_info['abstract'] == 'False'"),
    # the reader rebuilds (0,1,all children) from OPTIONAL as well: the model comes back unchanged
    dict(id="c05-silent-mutex-as-optional", props=["C05"], file=TR + "json_writer.py", expect="silent",
         old="            relation_type = JSONFeatureType.MUTEX.value",
         new="            relation_type = JSONFeatureType.OPTIONAL.value"),
    dict(id="c05-reader-no-unquote", props=["C05"], file=TR + "json_reader.py", rule="C05-ENC",
         old="    feature_name = unsafename(feature_node['name'])", new="    feature_name = feature_node['name']"),
    dict(id="c05-xor-as-or", props=["C05"], file=TR + "json_reader.py", rule="C05-VOC",
         old="node = functools.reduce(lambda lambd, r: Node(ASTOperation.XOR, lambd, r), op_list)",
         new="node = functools.reduce(lambda lambd, r: Node(ASTOperation.OR, lambd, r), op_list)"),
    dict(id="c05-and-binary-only", props=["C05"], file=TR + "json_reader.py", rule="C05-FOLD",
         old="        node = functools.reduce(lambda lambd, r: Node(ASTOperation.AND, lambd, r), op_list)",
         new="        node = Node(ASTOperation.AND, op_list[0], op_list[1])"),
    dict(id="c05-drop-attr-value-false", props=["C05"], file=TR + "json_writer.py", rule="C05-FIELDS",
         old="        if attribute.default_value is not None:\n            attr_info['value']",
         new="        if attribute.default_value:\n            attr_info['value']"),
    dict(id="c05-parse-json-no-ctcs", props=["C05"], file=TR + "json_reader.py", rule="C05-SIBLING",
         old="        constraints = parse_constraints(constraints_info)\n        return FeatureModel(root_feature, constraints)\n\n\ndef parse_tree",
         new="        constraints = parse_constraints(constraints_info)\n        return FeatureModel(root_feature, [])\n\n\ndef parse_tree"),
    dict(id="c05-return-differs", props=["C05"], file=TR + "json_writer.py", rule="C05-DUMP",
         old="        return json.dumps(json_object, indent=4)", new="        return json.dumps(json_object, indent=2)"),
    dict(id="c05-ctc-name-lost", props=["C05"], file=TR + "json_reader.py", rule="C05-FIELDS",
         old="        ctc = Constraint(name, AST(ctc_node))", new="        ctc = Constraint(str(len(constraints)), AST(ctc_node))"),
    dict(id="c05-silent-dict-dispatch", props=["C05"], file=TR + "json_reader.py", expect="silent",
         old="            if relation_type == JSONFeatureType.OPTIONAL.value:\n                new_relation = Relation(feature, children, 0, 1)\n            elif relation_type == JSONFeatureType.MANDATORY.value:",
         new="            if relation_type == 'OPTIONAL':\n                new_relation = Relation(parent=feature, children=children, card_min=0, card_max=1)\n            elif relation_type == JSONFeatureType.MANDATORY.value:"),
    # ---- C08 ------------------------------------------------------------------------------------
    dict(id="c08-xor-as-or-term", props=["C08"], file=TR + "glencoe_writer.py", rule="C08-VOC",
         old='ASTOperation.XOR: "XorTerm"', new='ASTOperation.XOR: "OrTerm"'),
    dict(id="c08-or-group-max1", props=["C08"], file=TR + "glencoe_reader.py", rule="C08-KIND",
         old="                    relation = Relation(feature, children, 1, len(children))",
         new="                    relation = Relation(feature, children, 1, 1)"),
    dict(id="c08-optional-flag-inverted", props=["C08"], file=TR + "glencoe_writer.py", rule="C08-KIND",
         old='"optional": not feature.is_mandatory(),', new='"optional": feature.is_optional() or feature.is_root(),'),
    dict(id="c08-min-max-swapped", props=["C08"], file=TR + "glencoe_writer.py", rule="C08-KIND",
         old='            features_info[feature_id]["min"] = relation.card_min\n            features_info[feature_id]["max"] = relation.card_max',
         new='            features_info[feature_id]["min"] = relation.card_max\n            features_info[feature_id]["max"] = relation.card_min'),
    dict(id="c08-key-raw-name", props=["C08"], file=TR + "glencoe_writer.py", rule="C08-JOIN",
         old="        feature_id = safename(feature.name)", new="        feature_id = feature.name"),
    dict(id="c08-excludes-as-implies", props=["C08"], file=TR + "glencoe_reader.py", rule="C08-VOC",
         old="            node = Node(ASTOperation.EXCLUDES, left, right)", new="            node = Node(ASTOperation.IMPLIES, left, right)"),
    dict(id="c08-mandatory-in-group-dropped", props=["C08"], file=TR + "glencoe_reader.py", rule="C08-KIND",
         old="                elif not optional:\n                    # Additional relation because Glencoe supports mandatory features in groups\n                    relation = Relation(feature, [child_feature], 1, 1)\n                    feature.add_relation(relation)",
         new="                elif not optional:\n                    pass"),
    dict(id="c08-silent-sorted-keys", props=["C08"], file=TR + "glencoe_writer.py", expect="silent",
         old="    for feature in sorted(features, key=lambda f: f.name):", new="    for feature in sorted(features, key=lambda f: (f.name, 0)):"),
    # ---- C07 ------------------------------------------------------------------------------------
    dict(id="c07-alt-tag-renamed", props=["C07"], file=TR + "featureide_writer.py", rule="C07-KIND",
         old="        name = FeatureIDEReader.TAG_ALT", new="        name = 'alternative'"),
    dict(id="c07-or-group-max1", props=["C07"], file=TR + "featureide_reader.py", rule="C07-KIND",
         old="                        card_max=len(direct_children),", new="                        card_max=1,"),
    dict(id="c07-mandatory-flag-dropped", props=["C07"], file=TR + "featureide_writer.py", rule="C07-KIND",
         old="    if feature.is_mandatory():\n        atributes['mandatory'] = 'true'", new="    if False:\n        atributes['mandatory'] = 'true'"),
    dict(id="c07-abstract-dropped", props=["C07"], file=TR + "featureide_writer.py", rule="C07-FIELDS",
         old="    if feature.is_abstract:\n        atributes['abstract'] = 'true'", new="    if feature.is_abstract and feature.is_leaf():\n        atributes['abstract'] = 'true'"),
    dict(id="c07-imp-operands-swapped", props=["C07"], file=TR + "featureide_reader.py", rule="C07-VOC",
         old="            node = Node(ASTOperation.IMPLIES)\n            node.left = self._parse_rule(rule[0]).root\n            node.right = self._parse_rule(rule[1]).root",
         new="            node = Node(ASTOperation.IMPLIES)\n            node.left = self._parse_rule(rule[1]).root\n            node.right = self._parse_rule(rule[0]).root"),
    dict(id="c07-eq-one-direction", props=["C07"], file=TR + "featureide_reader.py", rule="C07-VOC",
         old="            node.right.left = self._parse_rule(rule[1]).root\n            node.right.right = self._parse_rule(rule[0]).root",
         new="            node.right.left = self._parse_rule(rule[0]).root\n            node.right.right = self._parse_rule(rule[1]).root"),
    dict(id="c07-quote-names-again", props=["C07"], file=TR + "featureide_writer.py", rule="C07-ENC",
         old="    atributes['name'] = feature.name", new="    atributes['name'] = feature.name.replace(' ', '_')"),
    dict(id="c07-return-str", props=["C07"], file=TR + "featureide_writer.py", rule="C07-DUMP",
         old="        return xml_str\n", new="        return xml_str.decode('utf8').strip()\n"),
    # ---- C01 ------------------------------------------------------------------------------------
    dict(id="c01-and-or-swapped", props=["C01"], file=TR + "uvl_writer.py", rule="C01-OPS",
         old='ASTOperation.AND: "&",', new='ASTOperation.AND: "|",'),
    dict(id="c01-reader-and-as-or", props=["C01", "C04"], file=TR + "uvl_reader.py", rule="C0",
         old="        elif isinstance(ctc_node, UVLPythonParser.AndConstraintContext):\n            operator = ASTOperation.AND",
         new="        elif isinstance(ctc_node, UVLPythonParser.AndConstraintContext):\n            operator = ASTOperation.OR"),
    dict(id="c01-lower-as-lowerequals", props=["C01"], file=TR + "uvl_writer.py", rule="C01-OPS",
         old="ASTOperation.LOWER: '<',", new="ASTOperation.LOWER: '<=',"),
    dict(id="c01-or-group-card11", props=["C01", "C04"], file=TR + "uvl_reader.py", rule="C0",
         old="feature.add_relation(Relation(feature, childs, 1, len(childs)))", new="feature.add_relation(Relation(feature, childs, 1, 1))"),
    dict(id="c01-star-lost", props=["C01"], file=TR + "uvl_writer.py", rule="C01-KIND",
         old="                max_value = '*' if max_value == -1 else max_value\n                result",
         new="                max_value = len(rel.children) if max_value == -1 else max_value\n                result"),
    dict(id="c01-cardinality-parts-swapped", props=["C01", "C04"], file=TR + "uvl_reader.py", rule="C0",
         old="            min_value = parts[0]\n            max_value = parts[1]", new="            min_value = parts[1]\n            max_value = parts[0]"),
    dict(id="c01-abstract-not-written", props=["C01"], file=TR + "uvl_writer.py", rule="C01-FIELDS",
         old='        if feature.is_abstract:\n            attributes.append("abstract")', new='        if feature.is_abstract and False:\n            attributes.append("abstract")'),
    dict(id="c01-fcard-skipped", props=["C01", "C04"], file=TR + "uvl_reader.py", rule="C0",
         old="        self._check_feature_cardinality(feature, feature_node)\n", new=""),
    dict(id="c01-group-names-keep-quotes", props=["C01", "C04"], file=TR + "uvl_reader.py", rule="C0",
         old="            feature_name = feature_context.reference().getText().replace('\"', '')",
         new="            feature_name = feature_context.reference().getText()"),
    dict(id="c01-type-real-as-integer", props=["C01", "C04"], file=TR + "uvl_reader.py", rule="C0",
         old="                feature_type = FeatureType.REAL", new="                feature_type = FeatureType.INTEGER"),
    dict(id="c01-false-attr-dropped", props=["C01"], file=TR + "uvl_writer.py", rule="C01-VALUES",
         old="            if attribute.default_value is not None:\n                attribute_str +=", new="            if attribute.default_value:\n                attribute_str +="),
    dict(id="c01-no-parentheses", props=["C01"], file=TR + "uvl_writer.py", rule="C01-OPS",
         old='        return f"({text})" if node.is_op() and node.is_binary_op() else text', new='        return text'),
    dict(id="c01-filestream-ascii", props=["C01", "C12"], file=TR + "uvl_reader.py", rule="C",
         old="FileStream(absolute_path, encoding='utf-8')", new="FileStream(absolute_path)"),
    dict(id="c01-keywords-unquoted", props=["C01"], file=TR + "uvl_writer.py", rule="C01-QUOTE",
         old="        or name in UVL_KEYWORDS\n", new=""),
    dict(id="c01-silent-isinstance-table", props=["C01", "C04"], file=TR + "uvl_reader.py", expect="silent",
         old="""        operator = None
        if isinstance(ctc_node, UVLPythonParser.AddExpressionContext):
            operator = ASTOperation.ADD
        elif isinstance(ctc_node, UVLPythonParser.SubExpressionContext):
            operator = ASTOperation.SUB
        elif isinstance(ctc_node, UVLPythonParser.DivExpressionContext):
            operator = ASTOperation.DIV
        elif isinstance(ctc_node, UVLPythonParser.MulExpressionContext):
            operator = ASTOperation.MUL""",
         new="""        table = {UVLPythonParser.AddExpressionContext: ASTOperation.ADD,
                 UVLPythonParser.SubExpressionContext: ASTOperation.SUB,
                 UVLPythonParser.DivExpressionContext: ASTOperation.DIV,
                 UVLPythonParser.MulExpressionContext: ASTOperation.MUL}
        operator = next((op for cls_, op in table.items() if isinstance(ctc_node, cls_)), None)"""),
    # ---- C04 ------------------------------------------------------------------------------------
    dict(id="c04-lexer-listener-removed", props=["C04"], file=TR + "uvl_reader.py", rule="C04-ERRORS",
         old="        lexer.removeErrorListeners()\n        lexer.addErrorListener(error_listener)\n", new=""),
    dict(id="c04-errors-only-logged", props=["C04"], file=TR + "uvl_reader.py", rule="C04-ERRORS",
         old='            raise FlamaException("Parsing failed due to syntax errors.")', new='            logging.error("Parsing failed due to syntax errors.")'),
    dict(id="c04-optional-first-child-only", props=["C04"], file=TR + "uvl_reader.py", rule="C04-DENOTES",
         old="                for child in childs:\n                    feature.add_relation(Relation(feature, [child], 0, 1))",
         new="                for child in childs[:1]:\n                    feature.add_relation(Relation(feature, [child], 0, 1))"),
    dict(id="c04-avg-second-arg-lost", props=["C04"], file=TR + "uvl_reader.py", rule="C04-DENOTES",
         old="                node = Node(ASTOperation.AVG, Node(attribute_literal), Node(feature_literal))",
         new="                node = Node(ASTOperation.AVG, Node(attribute_literal))"),
    dict(id="c04-float-as-int", props=["C04"], file=TR + "uvl_reader.py", rule="C04-DENOTES",
         old="            value = float(value_context.FLOAT().getText())", new="            value = int(float(value_context.FLOAT().getText()))"),
    dict(id="c04-bool-always-true", props=["C04"], file=TR + "uvl_reader.py", rule="C04-DENOTES",
         old='            value = value_context.BOOLEAN().getText() == "true"', new='            value = bool(value_context.BOOLEAN().getText())'),
    dict(id="c04-binary-operands-swapped", props=["C04", "C01"], file=TR + "uvl_reader.py", rule="C0",
         old="        left_constraint = context.constraint(0)\n        right_constraint = context.constraint(1)",
         new="        left_constraint = context.constraint(1)\n        right_constraint = context.constraint(0)"),
    dict(id="c04-mul-div-swapped", props=["C04", "C01"], file=TR + "uvl_reader.py", rule="C0",
         old="        elif isinstance(ctc_node, UVLPythonParser.DivExpressionContext):\n            operator = ASTOperation.DIV",
         new="        elif isinstance(ctc_node, UVLPythonParser.DivExpressionContext):\n            operator = ASTOperation.MUL"),
    dict(id="c04-abstract-false-still-abstract", props=["C04"], file=TR + "uvl_reader.py", expect="silent",
         old='                if key == "abstract" and (value is None or value):', new='                if key == "abstract" and (value is None or value is True):'),
    dict(id="c04-stray-char-negative-only", props=["C04"], file=TR + "uvl_reader.py", rule="C04-ERRORS",
         old="        self.errors.append(error_msg)", new="        if 'token recognition' not in msg:\n            self.errors.append(error_msg)"),
    # ---- C06 ------------------------------------------------------------------------------------
    dict(id="c06-not-in-right", props=["C06", "C02"], file=TR + "afm_reader.py", rule="C0",
         old="            result.left = self.build_ast_node(expression.expression(), prefix)",
         new="            result.right = self.build_ast_node(expression.expression(), prefix)"),
    dict(id="c06-no-parentheses", props=["C06"], file=TR + "afm_writer.py", rule="C06-GROUPING",
         old='        return "(" + text + ")" if node.is_op() else text', new='        return text'),
    dict(id="c06-iff-word", props=["C06"], file=TR + "afm_writer.py", rule="C06-VOC",
         old="AFM_OPERATORS = {ASTOperation.EQUIVALENCE: 'IFF'}", new="AFM_OPERATORS = {}"),
    dict(id="c06-requires-as-excludes", props=["C06"], file=TR + "afm_reader.py", rule="C06-VOC",
         old='            "REQUIRES": ASTOperation.REQUIRES,', new='            "REQUIRES": ASTOperation.EXCLUDES,'),
    dict(id="c06-card-swapped", props=["C06"], file=TR + "afm_reader.py", rule="C06-KIND",
         old="            card_min = int(cardinality_node.INT()[0].getText())\n            card_max = int(cardinality_node.INT()[1].getText())",
         new="            card_min = int(cardinality_node.INT()[1].getText())\n            card_max = int(cardinality_node.INT()[0].getText())"),
    dict(id="c06-optional-as-mandatory", props=["C06"], file=TR + "afm_reader.py", rule="C06-KIND",
         old="                relation = Relation(parent_feature, [feature], 0, 1)", new="                relation = Relation(parent_feature, [feature], 1, 1)"),
    dict(id="c06-null-value-lost", props=["C06"], file=TR + "afm_reader.py", rule="C06-FIELDS",
         old="        attribute = Attribute(attribute_name, domain, default_value, null_value)", new="        attribute = Attribute(attribute_name, domain, default_value, default_value)"),
    dict(id="c06-range-terminals", props=["C06", "C02"], file=TR + "afm_reader.py", rule="C0",
         old="range_list.append(Range(int(domain_range.INT()[0].getText()),\n                                        int(domain_range.INT()[1].getText())))",
         new="range_list.append(Range(domain_range.INT()[0], domain_range.INT()[1]))"),
    dict(id="c06-binary-operands-swapped", props=["C06"], file=TR + "afm_reader.py", rule="C06-",
         old="            result.left = self.build_ast_node(expression.expression()[0], prefix)\n            result.right = self.build_ast_node(expression.expression()[1], prefix)",
         new="            result.left = self.build_ast_node(expression.expression()[1], prefix)\n            result.right = self.build_ast_node(expression.expression()[0], prefix)"),
    # ---- C09 ------------------------------------------------------------------------------------
    dict(id="c09-mandatory-presence", props=["C09"], file=TR + "featureide_reader.py", rule="C09-FIDE",
         old='child.attrib.get(FeatureIDEReader.ATTRIB_MANDATORY) == "true"', new='FeatureIDEReader.ATTRIB_MANDATORY in child.attrib'),
    dict(id="c09-disj-two-operands", props=["C09"], file=TR + "featureide_reader.py", rule="C09-FOLD",
         old="            operands = [self._parse_rule(operand).root for operand in rule]", new="            operands = [self._parse_rule(operand).root for operand in rule][:2]"),
    dict(id="c09-last-constraints-section", props=["C09"], file=TR + "featureide_reader.py", rule="C09-FIDE",
         old="        return FeatureModel(root=root, constraints=constraints_list)", new="        return FeatureModel(root=root, constraints=constraints)"),
    dict(id="c09-fama-minmax-swapped", props=["C09"], file=TR + "xml_reader.py", rule="C09-",
         old="                    relation.card_min = int(str(child.attrib.get('min')))\n                    relation.card_max = int(str(child.attrib.get('max')))\n                else:\n                    print(\"This XML contains non supported elements\", file=sys.stderr)\n        else:",
         new="                    relation.card_min = int(str(child.attrib.get('max')))\n                    relation.card_max = int(str(child.attrib.get('min')))\n                else:\n                    print(\"This XML contains non supported elements\", file=sys.stderr)\n        else:"),
    dict(id="c09-fama-excludes-as-requires", props=["C09"], file=TR + "xml_reader.py", rule="C09-FAMA",
         old="            operator_type = ASTOperation.EXCLUDES", new="            operator_type = ASTOperation.REQUIRES"),
    dict(id="c09-fama-parent-none", props=["C09", "C02"], file=TR + "xml_reader.py", rule="C0",
         old="        feature = Feature(name, [], parent=parent)", new="        feature = Feature(name, [], parent=None)"),
    dict(id="c09-glencoe-optional-ignored", props=["C09"], file=TR + "glencoe_reader.py", rule="C09-GLENCOE",
         old="                    card_min = 0 if optional else 1", new="                    card_min = 1"),
    dict(id="c09-glencoe-genor-max-n", props=["C09"], file=TR + "glencoe_reader.py", rule="C09-KEYFLOW",
         old='                    card_max = features_info[feature_id]["max"]', new='                    card_max = len(children)'),
    dict(id="c09-glencoe-no-else", props=["C09"], file=TR + "glencoe_reader.py", rule="C09-UNSUPPORTED",
         old='                else:\n                    raise FlamaException(f"Invalid feature type in Glencoe model: {feature_type}")\n', new=''),
    dict(id="c09-afm-optional-bracket-as-mandatory", props=["C09", "C06"], file=TR + "afm_reader.py", rule="C0",
         old="            if isinstance(child_node, AFMParser.Optional_specContext):\n                feature = Feature(child_node.WORD().getText(), [])\n                relation = Relation(parent_feature, [feature], 0, 1)",
         new="            if isinstance(child_node, AFMParser.Optional_specContext):\n                feature = Feature(child_node.WORD().getText(), [])\n                relation = Relation(parent_feature, [feature], 1, 1)"),
    # ---- C02 ------------------------------------------------------------------------------------
    dict(id="c02-add-relation-no-parent", props=["C02"], file=FM, rule="C02-",
         old="        for child in relation.children:\n            child.parent = self\n", new=""),
    dict(id="c02-fide-wrong-owner", props=["C02"], file=TR + "featureide_reader.py", rule="C02-PARENT",
         old="                    (_, direct_children) = self._read_features(child, feature)\n                    rel = Relation(\n                        parent=feature, children=direct_children, card_min=1, card_max=1\n                    )\n                    feature.add_relation(rel)",
         new="                    (_, direct_children) = self._read_features(child, feature)\n                    rel = Relation(\n                        parent=parent or feature, children=direct_children, card_min=1, card_max=1\n                    )\n                    feature.add_relation(rel)"),
    dict(id="c02-json-not-in-right", props=["C02"], file=TR + "json_reader.py", rule="C02-NODE",
         old="        node = Node(ASTOperation.NOT, left)", new="        node = Node(ASTOperation.NOT, None, left)"),
    dict(id="c02-glencoe-attach-to-parent", props=["C02"], file=TR + "glencoe_reader.py", rule="C02-",
         old="                    relation = Relation(feature, [child_feature], card_min, 1)\n                    feature.add_relation(relation)",
         new="                    relation = Relation(feature, [child_feature], card_min, 1)\n                    (parent or feature).add_relation(relation)"),
    dict(id="c02-uvl-literal-ctx-in-node", props=["C02", "C04"], file=TR + "uvl_reader.py", rule="C0",
         old="        literal = literal_context.reference()\n        return Node(literal.getText().replace('\"', ''))",
         new="        literal = literal_context.reference()\n        return Node(literal)"),
    dict(id="c02-afm-attribute-parent", props=["C02"], file=TR + "afm_reader.py", rule="C02-ATTR",
         old="        attribute.set_parent(attribute_feature)\n        attribute_feature.add_attribute(attribute)",
         new="        attribute_feature.attributes.append(attribute)"),
    dict(id="c02-xml-card-as-str", props=["C02", "C09"], file=TR + "xml_reader.py", rule="C0",
         old="                elif child.tag.casefold() == 'cardinality':\n                    relation.card_min = int(str(child.attrib.get('min')))\n                    relation.card_max = int(str(child.attrib.get('max')))\n                else:\n                    print(\"This XML contains non supported elements\", file=sys.stderr)\n\n        elif",
         new="                elif child.tag.casefold() == 'cardinality':\n                    relation.card_min = str(child.attrib.get('min'))\n                    relation.card_max = str(child.attrib.get('max'))\n                else:\n                    print(\"This XML contains non supported elements\", file=sys.stderr)\n\n        elif"),
    # ---- C10 ------------------------------------------------------------------------------------
    dict(id="c10-splot-m-o-swapped", props=["C10"], file=TR + "splot_writer.py", rule="C10-SPLOT-COVER",
         old="f':o {safename(child.name)} ({safename(child.name)})'", new="f':m {safename(child.name)} ({safename(child.name)})'"),
    dict(id="c10-splot-card-swapped", props=["C10"], file=TR + "splot_writer.py", rule="C10-SPLOT-COVER",
         old="f':g [{relation.card_min},{card_max}]'", new="f':g [{card_max},{relation.card_min}]'"),
    dict(id="c10-splot-negation-lost", props=["C10"], file=TR + "splot_writer.py", rule="C10-SPLOT-CTC",
         old="'~' + safename(t[1:]) if t.startswith('-')", new="safename(t[1:]) if t.startswith('-')"),
    dict(id="c10-splot-clause-and", props=["C10"], file=TR + "splot_writer.py", rule="C10-SPLOT-CTC",
         old="clause_str = ' or '.join(clause_list_str)", new="clause_str = ' and '.join(clause_list_str)"),
    dict(id="c10-splot-only-groups-of-root", props=["C10"], file=TR + "splot_writer.py", rule="C10-SPLOT-COVER",
         old="                lines.extend(add_features(child, n_tabs + 2))", new="                pass"),
    dict(id="c10-pl-optional-direction", props=["C10"], file=TR + "pl_writer.py", rule="C10-PL-COVER",
         old="    return f'{child} {PLWriter.LogicConnective.IMPLIES} {parent}'", new="    return f'{parent} {PLWriter.LogicConnective.IMPLIES} {child}'"),
    dict(id="c10-pl-or-implies-only", props=["C10"], file=TR + "pl_writer.py", rule="C10-PL-COVER",
         old="    return f'{parent} {PLWriter.LogicConnective.EQUIVALENCE} ({children})'", new="    return f'{parent} {PLWriter.LogicConnective.IMPLIES} ({children})'"),
    dict(id="c10-pl-mutex-old-formula", props=["C10"], file=TR + "pl_writer.py", rule="C10-PL-COVER",
         old="    return f'({PLWriter.LogicConnective.NOT} ({or_children})) ' \\",
         new="    return f'({parent} {PLWriter.LogicConnective.EQUIVALENCE} {PLWriter.LogicConnective.NOT} ({or_children})) ' \\"),
    dict(id="c10-pl-excludes-as-implies", props=["C10"], file=TR + "pl_writer.py", rule="C10-PL-CTC",
         old="        ASTOperation.EXCLUDES: (f'{PLWriter.LogicConnective.IMPLIES.value} '\n                                f'{PLWriter.LogicConnective.NOT.value}'),", new="        ASTOperation.EXCLUDES: PLWriter.LogicConnective.IMPLIES.value,"),
    dict(id="c10-pl-skips-grandchildren", props=["C10"], file=TR + "pl_writer.py", rule="C10-PL-COVER",
         old="            features.extend(relation.children)", new="            features.extend(relation.children if feature is feature_model.root else [])"),
    dict(id="c10-pl-enum-no-str", props=["C10"], file=TR + "pl_writer.py", rule="C10-PL",
         old="        def __str__(self) -> str:\n            return str(self.value)\n", new=""),
    # ---- C12 ------------------------------------------------------------------------------------
    dict(id="c12-writer-sorts-children", props=["C12"], file=TR + "glencoe_writer.py", rule="C12-PURE",
         old="    result: dict[str, Any] = {}\n    result[\"id\"]", new="    feature_model.ctcs.sort()\n    result: dict[str, Any] = {}\n    result[\"id\"]"),
    dict(id="c12-no-encoding", props=["C12"], file=TR + "clafer_writer.py", rule="C12-ENCODING",
         old="            with open(self.path, 'w', encoding='utf8') as file:", new="            with open(self.path, 'w') as file:"),
    dict(id="c12-return-plus-newline", props=["C12"], file=TR + "splot_writer.py", rule="C12-RETURN",
         old="        return splot_str", new="        return splot_str + '\\n'"),
    dict(id="c12-pl-set-iteration", props=["C12"], file=TR + "pl_writer.py", rule="C12-SETITER",
         old="    for child in sorted(children):\n        children_negatives = sorted(children - {child})\n        children_neg_str = [f\"{PLWriter.LogicConnective.NOT} \" + ch",
         new="    for child in children:\n        children_negatives = children - {child}\n        children_neg_str = [f\"{PLWriter.LogicConnective.NOT} \" + ch"),
    dict(id="c12-timestamp-header", props=["C12"], file=TR + "uvl_writer.py", rule="C12-NOSOURCES",
         old="        serialized_model = (\n            self.read_features(root, \"features\", 0)", new="        import time\n        serialized_model = (\n            f'// {time.time()}\\n' + self.read_features(root, \"features\", 0)"),
    dict(id="c12-uvl-caches-on-model", props=["C12"], file=TR + "uvl_writer.py", rule="C12-PURE",
         old="        tab_count = tab_count + 1\n        feature_type =", new="        tab_count = tab_count + 1\n        feature.relations.sort()\n        feature_type ="),
    dict(id="c12-json-sort-keys-silent", props=["C12", "C05"], file=TR + "json_writer.py", expect="silent",
         old="                json.dump(json_object, file, indent=4)\n        return json.dumps(json_object, indent=4)",
         new="                json.dump(json_object, file, indent=4, sort_keys=False)\n        return json.dumps(json_object, indent=4, sort_keys=False)"),
    dict(id="c12-clafer-set-of-attributes", props=["C12"], file=TR + "clafer_writer.py", rule="C12-SETITER",
         old="        for name, v_type in attributes.items():", new="        for name, v_type in set(attributes.items()):"),
    # ---- C11 ------------------------------------------------------------------------------------
    dict(id="c11-xor-untranslated", props=["C11"], file=TR + "clafer_writer.py", rule="C11-OPS",
         old="                    ASTOperation.XOR: 'xor',\n", new=""),
    dict(id="c11-alt-as-or", props=["C11"], file=TR + "clafer_writer.py", rule="C11-GROUPS",
         old="        group_type = 'xor'", new="        group_type = 'or'"),
    dict(id="c11-mux-missing", props=["C11"], file=TR + "clafer_writer.py", rule="C11-GROUPS",
         old="    elif feature.is_mutex_group():\n        group_type = 'mux'", new="    elif feature.is_mutex_group():\n        group_type = None"),
    dict(id="c11-optional-mark-for-nonmandatory", props=["C11"], file=TR + "clafer_writer.py", rule="C11-GROUPS",
         old="    if feature.is_optional():\n        result += ' ?'", new="    if feature.is_mandatory():\n        result += ' ?'"),
    dict(id="c11-card-minmax-swapped", props=["C11"], file=TR + "clafer_writer.py", rule="C11-GROUPS",
         old="            group_type = f'{rel.card_min}..{card_max}'", new="            group_type = f'{card_max}..{rel.card_min}'"),
    dict(id="c11-excludes-as-implies", props=["C11"], file=TR + "clafer_writer.py", rule="C11-OPS",
         old="ASTOperation.EXCLUDES: '=> not'}", new="ASTOperation.EXCLUDES: '=>'}"),
    dict(id="c11-and-as-or", props=["C11"], file=TR + "clafer_writer.py", rule="C11-OPS",
         old="ASTOperation.AND: '&&',", new="ASTOperation.AND: '||',"),
    dict(id="c11-attr-declared-raw", props=["C11"], file=TR + "clafer_writer.py", rule="C11-ONEENC",
         old="            result += f'\\t{safename(name)} -> {v_type}\\n'", new="            result += f'\\t{name} -> {v_type}\\n'"),
    dict(id="c11-int-before-bool", props=["C11"], file=TR + "clafer_writer.py", rule="C11-TYPES",
         old="    if isinstance(value, bool):\n        return ClaferAttributeType.BOOL.value\n    if isinstance(value, int):\n        return ClaferAttributeType.INT.value",
         new="    if isinstance(value, int):\n        return ClaferAttributeType.INT.value\n    if isinstance(value, bool):\n        return ClaferAttributeType.BOOL.value"),
    dict(id="c11-instance-wrong-root", props=["C11"], file=TR + "clafer_writer.py", rule="C11-",
         old="    result += f'\\n\\n{INSTANCE} : {safename(feature_model.root.name)}\\n'", new="    result += f'\\n\\n{INSTANCE} : {feature_model.root.name.lower()}\\n'"),
    # ---- behaviour-preserving refactors (must stay silent) ------------------------------------------------
    dict(id="c16-get-relations-recursive", props=["C16", "C17"], file=FM, rule="DEPTH-INDEPENDENT",
         old="""        pending = [iter(feature.relations)]
        while pending:
            relation = next(pending[-1], None)
            if relation is None:
                pending.pop()
                continue
            relations.append(relation)
            pending.append(iter([child_relation for child in relation.children
                                 for child_relation in child.relations]))
        return relations""",
         new="""        for relation in feature.relations:
            relations.append(relation)
            for _feature in relation.children:
                relations.extend(self.get_relations(_feature))
        return relations"""),
    dict(id="silent-core-features-recursive", props=["C14", "C19"], file=OPS + "fm_core_features.py", expect="silent",
         old="""    core_features = [feature_model.root]
    features = [feature_model.root]
    while features:
        feature = features.pop()
        for relation in feature.get_relations():
            # All children are forced: mandatory ([1..1] on one child) or a group [n..n] of n
            if relation.card_min >= len(relation.children):
                core_features.extend(relation.children)
                features.extend(relation.children)

    return core_features
""",
         new="""    def collect(feature: Feature, acc: list[Feature]) -> list[Feature]:
        acc.append(feature)
        for relation in feature.get_relations():
            if relation.card_min >= len(relation.children):
                for child in relation.children:
                    collect(child, acc)
        return acc

    return collect(feature_model.root, [])
"""),
    dict(id="silent-atomic-sets-iterative", props=["C15", "C19"], file=OPS + "fm_atomic_sets.py", expect="silent",
         old="""    compute_atomic_sets(atomic_sets, root, atomic_set)
    return atomic_sets


def compute_atomic_sets(atomic_sets: list[set[Feature]],
                        feature: Feature,
                        current_set: set[Feature]) -> None:
    for child in feature.get_children():
        if child.is_mandatory():
            current_set.add(child)
            compute_atomic_sets(atomic_sets, child, current_set)
        else:
            new_as = {child}
            atomic_sets.append(new_as)
            compute_atomic_sets(atomic_sets, child, new_as)
""",
         new="""    pending = [(root, atomic_set)]
    while pending:
        feature, current_set = pending.pop()
        for child in feature.get_children():
            if child.is_mandatory():
                current_set.add(child)
                pending.append((child, current_set))
            else:
                new_as = {child}
                atomic_sets.append(new_as)
                pending.append((child, new_as))
    return atomic_sets
"""),
    dict(id="silent-is-cardinal-arithmetic", props=["C03", "C05", "C10"], file=FM, expect="silent",
         old="""        return (
            self.is_group()
            and not self.is_alternative()
            and not self.is_or()
            and not self.is_mutex()
        )""",
         new="""        n = len(self.children)
        if n < 2:
            return False
        simple = (self.card_min, self.card_max) in [(1, 1), (0, 1), (1, n)]
        return not simple"""),
    dict(id="c16-vp-recursive", props=["C16"], file=OPS + "fm_variation_points.py", rule="C16-DEPTH-INDEPENDENT",
         old="""    vps: dict[Feature, list[Feature]] = {}
    features = [feature_model.root]
    while features:
        feature = features.pop()
        variants = []
        for relation in feature.get_relations():
            if not relation.is_mandatory():
                variants.extend(relation.children)
        if variants:
            vps[feature] = variants
        features.extend(feature.get_children())
    return vps""",
         new="""    vps: dict[Feature, list[Feature]] = {}

    def visit(feature: Feature) -> None:
        variants = [c for r in feature.get_relations() if not r.is_mandatory() for c in r.children]
        if variants:
            vps[feature] = variants
        for child in feature.get_children():
            visit(child)
    visit(feature_model.root)
    return vps"""),
    dict(id="silent-uvl-writer-join", props=["C01", "C12"], file=TR + "uvl_writer.py", expect="silent",
         old="""        result = ""
        constraints = self.model.ctcs
        if constraints:
            result = "constraints"
            for constraint in constraints:
                constraint_text = self.serialize_constraint(constraint)
                result = result + "\\n\\t" + constraint_text
        return result""",
         new="""        constraints = self.model.ctcs
        if not constraints:
            return ""
        return "\\n\\t".join(["constraints"] + [self.serialize_constraint(c) for c in constraints])"""),
    dict(id="silent-json-writer-deepcopy", props=["C05", "C12"], file=TR + "json_writer.py", expect="silent",
         old="        json_object = to_json(self.source_model)", new="        import copy\n        json_object = copy.deepcopy(to_json(self.source_model))"),
    dict(id="silent-metrics-logger", props=["C17", "C19"], file=OPS + "fm_metrics.py", expect="silent",
         old="        self.model = cast(FeatureModel, model)\n", new="        import logging\n        logging.getLogger(__name__).debug('metrics for %s', model)\n        self.model = cast(FeatureModel, model)\n"),
    dict(id="silent-get-features-generator", props=["C03", "C16", "C17"], file=FM, expect="silent",
         old="""        features: list["Feature"] = []
        if self.root is not None:
            features.append(self.root)
            for relation in self.get_relations():
                features.extend(relation.children)
        return features""",
         new="""        def walk():
            if self.root is not None:
                yield self.root
                for relation in self.get_relations():
                    yield from relation.children
        return list(walk())"""),
    dict(id="silent-leaf-features-filter-builtin", props=["C16", "C17"], file=OPS + "fm_leaf_features.py", expect="silent",
         old="    return [f for f in feature_model.get_features() if len(f.get_relations()) == 0]",
         new="    return list(filter(lambda f: not f.get_relations(), feature_model.get_features()))"),
    dict(id="silent-relation-mandatory-tuple", props=["C03", "C14", "C15"], file=FM, expect="silent",
         old="        return self.card_min == 1 and self.card_max == 1 and len(self.children) == 1",
         new="        return (self.card_min, self.card_max, len(self.children)) == (1, 1, 1)"),
    # ---- found by the systematic mutants (tools/automut.py): kept as permanent entries ------------------------------
    dict(id="am-c17-ratio-wrong-way-round", props=["C17"], file=OPS + "fm_metrics.py", rule="C17-",
         old="""                _abstract_compound_features, self._abstract_features.keys()
            ),""",
         new="""                self._abstract_features.keys(), _abstract_compound_features
            ),"""),
    dict(id="am-c17-metric-returns-none", props=["C17"], file=OPS + "fm_metrics.py", rule="C17-TOTAL",
         old="""            parent="Concrete features",
            level=2
        )
        return result""",
         new="""            parent="Concrete features",
            level=2
        )
        return None"""),
    dict(id="am-c06-brace-garbage", props=["C06"], file=TR + "afm_writer.py", rule="C06-",
         old='+ \' \'.join(features) + "}"', new='+ \' \'.join(features) + "}x"'),
    dict(id="am-c06-one-element-domain", props=["C06"], file=TR + "afm_writer.py", rule="C06-FIELDS",
         old="if len(domain.get_element_list()) > 0:", new="if len(domain.get_element_list()) > 1:"),
    dict(id="am-c05-abstract-text", props=["C05"], file=TR + "json_reader.py", rule="C05-TYPE",
         old="abstract.lower() == 'true'", new="abstract.lower() == 'truex'"),
    dict(id="am-c05-nothing-written", props=["C05"], file=TR + "json_writer.py", rule="C05-",
         old="                json.dump(json_object, file, indent=4)", new="                pass"),
    dict(id="am-c01-isinstance-swapped", props=["C01"], file=TR + "uvl_writer.py", rule="C01-VALUES",
         old="not isinstance(value[0], bool)", new="not isinstance(bool, value[0])"),
    dict(id="am-c20-hash-none", props=["C20"], file=FM, rule="C20-",
         old="""        return hash(
            (self.parent, frozenset(self.children), self.card_min, self.card_max)
        )""", new="        return None"),
    dict(id="am-c10-open-mode", props=["C10", "C12"], file=TR + "pl_writer.py", rule="C1",
         old="open(self.path, 'w', encoding='utf8')", new="open(self.path, 'wx', encoding='utf8')"),
    dict(id="am-c11-attribute-scope", props=["C11"], file=TR + "clafer_writer.py", rule="C11-ONEENC",
         old="    if feature.get_attributes():\n        result += f' : {ATTRIBUTED_FEATURE}'",
         new="    if not feature.get_attributes():\n        result += f' : {ATTRIBUTED_FEATURE}'"),
]
