"""Independent interpreters of the export formats (SXFM, propositional formulas, Clafer subset) and
the reference semantics of abstract feature models, for translation validation of the exports."""
from __future__ import annotations

import itertools
import re
from typing import Any, Callable, Optional

from .absint import AObj
from .logic import evaluate, names_of
from .roundtrip import features


class ExportError(Exception):
    pass


# ---- reference semantics of an abstract model -----------------------------------------------------
def model_names(fm: AObj) -> list[str]:
    return [f._f["name"] for f in features(fm)]


def model_valid(fm: AObj, sel: set[str], with_ctcs: bool = True) -> bool:
    root = fm._f["root"]
    if root._f["name"] not in sel:
        return False
    for f in features(fm):
        on = f._f["name"] in sel
        for r in f._f["relations"]:
            kids = [c._f["name"] for c in r._f["children"]]
            k = sum(1 for c in kids if c in sel)
            if not on:
                if k:
                    return False
                continue
            lo, hi = int(r._f["card_min"]), int(r._f["card_max"])
            hi = len(kids) if hi == -1 else hi
            if not lo <= k <= hi:
                return False
    if with_ctcs:
        env = {n: (n in sel) for n in model_names(fm)}
        for c in fm._f["ctcs"]:
            tree = c._f["_ast"]._f["root"]
            for n in names_of(tree):
                env.setdefault(n, False)
            if not evaluate(tree, env):
                return False
    return True


def all_selections(names: list[str]) -> Any:
    for bits in itertools.product([False, True], repeat=len(names)):
        yield {n for n, b in zip(names, bits) if b}


def configurations(names: list[str], valid: Callable[[set[str]], bool]) -> set[frozenset[str]]:
    return {frozenset(s) for s in all_selections(names) if valid(s)}


# ---- SXFM --------------------------------------------------------------------------------------------
_NAME = r'("[^"]*"|[^\s()]+)'


class SXFM:
    def __init__(self, text: str) -> None:
        # the envelope: SXFM is an XML document <feature_model name=...> holding <feature_tree> and <constraints>
        env = re.fullmatch(r"\s*(?:<\?xml[^>]*\?>\s*)?<feature_model\b[^>]*\bname=\"[^\"]*\"[^>]*>(.*)</feature_model>\s*", text, re.S)
        if not env:
            raise ExportError("SXFM: the document is not one <feature_model name=\"...\"> ... </feature_model> element")
        if env.group(1).count("<feature_tree>") != 1 or env.group(1).count("<constraints>") != 1:
            raise ExportError("SXFM: the model does not hold exactly one <feature_tree> and one <constraints> section")
        m = re.search(r"<feature_tree>\n(.*?)\n?</feature_tree>", text, re.S)
        c = re.search(r"<constraints>\n?(.*?)\n?</constraints>", text, re.S)
        if not m or c is None:
            raise ExportError("SXFM: missing <feature_tree> or <constraints> section")
        self.nodes: list[dict[str, Any]] = []
        stack: list[tuple[int, dict[str, Any]]] = []
        for line in m.group(1).split("\n"):
            if not line.strip():
                continue
            depth = len(line) - len(line.lstrip("\t"))
            body = line.strip()
            node: dict[str, Any]
            g = re.fullmatch(r":g \[(-?\d+|\*),\s*(-?\d+|\*)\]", body)
            f = re.fullmatch(rf":([rmo]?) ?{_NAME} \({_NAME}\)", body)
            if g:
                node = {"kind": "g", "min": g.group(1), "max": g.group(2), "children": []}
            elif f:
                node = {"kind": f.group(1) or "c", "name": f.group(2).strip('"'), "children": []}
            else:
                raise ExportError(f"SXFM: unreadable tree line {body!r}")
            while stack and stack[-1][0] >= depth:
                stack.pop()
            if stack:
                stack[-1][1]["children"].append(node)
            elif node["kind"] != "r":
                raise ExportError("SXFM: first tree line is not the root")
            stack.append((depth, node))
            self.nodes.append(node)
        self.root = self.nodes[0]
        self.clauses: list[list[tuple[bool, str]]] = []
        for line in c.group(1).split("\n"):
            if not line.strip():
                continue
            mm = re.fullmatch(r"\s*\S+:\s*(.*)", line)
            if not mm:
                raise ExportError(f"SXFM: unreadable constraint line {line!r}")
            lits = []
            for lit in re.split(r"\s+or\s+", mm.group(1).strip()):
                neg = lit.startswith("~")
                nm = lit[1:] if neg else lit
                if not re.fullmatch(_NAME, nm):
                    raise ExportError(f"SXFM: unreadable literal {lit!r}")
                lits.append((not neg, nm.strip('"')))
            self.clauses.append(lits)

    def names(self) -> list[str]:
        return [n["name"] for n in self.nodes if n["kind"] != "g"]

    def valid(self, sel: set[str]) -> bool:
        if self.root["name"] not in sel:
            return False

        def ok(node: dict[str, Any], parent_on: bool) -> bool:
            for ch in node["children"]:
                if ch["kind"] == "g":
                    kids = ch["children"]
                    k = sum(1 for x in kids if x["name"] in sel)
                    lo = 0 if ch["min"] == "*" else int(ch["min"])
                    hi = len(kids) if ch["max"] in ("*", "-1") else int(ch["max"])
                    if parent_on and not lo <= k <= hi:
                        return False
                    if not parent_on and k:
                        return False
                    for x in kids:
                        if not ok(x, x["name"] in sel):
                            return False
                else:
                    on = ch["name"] in sel
                    if ch["kind"] == "m" and on != parent_on:
                        return False
                    if ch["kind"] in ("o", "c") and on and not parent_on:
                        return False
                    if not ok(ch, on):
                        return False
            return True
        if not ok(self.root, True):
            return False
        for cl in self.clauses:
            if not any((nm in sel) == pos for pos, nm in cl):
                return False
        return True


# ---- propositional formulas (one per line) -------------------------------------------------------------
_PL_TOKEN = re.compile(r'\s*(<->|->|\(|\)|"[^"]*"|[^\s()]+)')
_PL_PREC = {"<->": 1, "->": 2, "XOR": 3, "or": 4, "and": 5}


class PLFormula:
    def __init__(self, text: str) -> None:
        self.text = text
        self.toks = [t for t in _PL_TOKEN.findall(text)]
        if "".join(self.toks).replace(" ", "") != text.replace(" ", "").replace("\t", ""):
            raise ExportError(f"PL: cannot tokenise {text!r}")
        self.pos = 0
        self.tree = self.parse(0)
        if self.pos != len(self.toks):
            raise ExportError(f"PL: trailing tokens in {text!r} at {self.toks[self.pos:][:3]}")

    def peek(self) -> Optional[str]:
        return self.toks[self.pos] if self.pos < len(self.toks) else None

    def parse(self, minprec: int) -> Any:
        left = self.unary()
        while True:
            op = self.peek()
            if op not in _PL_PREC or _PL_PREC[op] < minprec:
                return left
            self.pos += 1
            # -> is right associative, the others left associative
            right = self.parse(_PL_PREC[op] + (0 if op == "->" else 1))
            left = (op, left, right)

    def unary(self) -> Any:
        t = self.peek()
        if t is None:
            raise ExportError(f"PL: unexpected end of formula {self.text!r}")
        self.pos += 1
        if t == "not":
            return ("not", self.unary())
        if t == "(":
            e = self.parse(0)
            if self.peek() != ")":
                raise ExportError(f"PL: missing ')' in {self.text!r}")
            self.pos += 1
            return e
        if t in (")",) or t in _PL_PREC:
            raise ExportError(f"PL: unexpected {t!r} in {self.text!r}")
        return ("var", t.strip('"'))

    def names(self, t: Any = None) -> set[str]:
        t = self.tree if t is None else t
        if t[0] == "var":
            return {t[1]}
        return set().union(*[self.names(x) for x in t[1:]])

    def eval(self, sel: set[str], t: Any = None) -> bool:
        t = self.tree if t is None else t
        k = t[0]
        if k == "var":
            return t[1] in sel
        if k == "not":
            return not self.eval(sel, t[1])
        a, b = self.eval(sel, t[1]), self.eval(sel, t[2])
        return {"and": a and b, "or": a or b, "->": (not a) or b, "<->": a == b, "XOR": a != b}[k]


class PLDocument:
    def __init__(self, text: str) -> None:
        self.formulas = [PLFormula(line) for line in text.split("\n") if line.strip()]

    def names(self) -> set[str]:
        return set().union(*[f.names() for f in self.formulas]) if self.formulas else set()

    def valid(self, sel: set[str]) -> bool:
        return all(f.eval(sel) for f in self.formulas)


# ---- Clafer subset -----------------------------------------------------------------------------------
_CL_TOKEN = re.compile(r'\s*(<=>|=>|&&|\|\||!|\(|\)|"[^"]*"|[^\s()!&|<=>]+)')
_CL_PREC = {"<=>": 1, "=>": 2, "xor": 3, "||": 4, "&&": 5}
_CL_LINE = re.compile(r'^(?:(abstract)\s+)?(?:(xor|or|mux|\d+\.\.(?:\d+|\*))\s+)?("[^"]*"|[^\s:?\[\]]+)'
                      r'(?:\s*:\s*([A-Za-z_]\w*))?\s*(\?)?\s*$')


class ClaferDoc:
    """Interpreter of the Clafer subset the writer targets: an optional abstract clafer declaring
    attributes, one abstract root clafer with nested clafers (group keyword before the name, `?`
    after it, `[attr = value]` lines), top-level `[constraint]` lines and `Instance : Root`."""

    def __init__(self, text: str) -> None:
        self.declared_attrs: dict[str, str] = {}
        self.raw_used: set[str] = set()          # identifiers exactly as spelled in constraints
        self.raw_declared: set[str] = set()      # identifiers exactly as spelled in the hierarchy
        self.used_attrs: list[tuple[str, str]] = []
        self.constraints: list[Any] = []
        self.root: Optional[dict[str, Any]] = None
        self.instance_of: Optional[str] = None
        stack: list[tuple[int, dict[str, Any]]] = []
        in_attr_decl = False
        for raw in text.split("\n"):
            if not raw.strip():
                in_attr_decl = False
                continue
            depth = len(raw) - len(raw.lstrip("\t"))
            body = raw.strip()
            if depth == 0 and body.startswith("[") and body.endswith("]"):
                self.constraints.append(self._parse_expr(body[1:-1]))
                continue
            if depth == 0 and re.fullmatch(r"abstract\s+AttributedFeature", body):
                in_attr_decl = True
                continue
            if in_attr_decl and depth == 1:
                m = re.fullmatch(r'("[^"]*"|\S+)\s*->\s*(\w*)', body)
                if not m:
                    raise ExportError(f"Clafer: unreadable attribute declaration {body!r}")
                if not m.group(2):
                    raise ExportError(f"Clafer: attribute {m.group(1)} declared without a type")
                self.declared_attrs[m.group(1)] = m.group(2)
                continue
            if depth == 0 and re.fullmatch(r'\w+\s*:\s*("[^"]*"|\S+)', body) and self.root is not None:
                self.instance_of = body.split(":", 1)[1].strip().strip('"')
                continue
            if body.startswith("["):
                m = re.fullmatch(r'\[("[^"]*"|[^\s=\]]+)\s*=\s*(.*)\]', body)
                if not m or not stack:
                    raise ExportError(f"Clafer: unreadable attribute value line {body!r}")
                self.used_attrs.append((m.group(1), m.group(2)))
                stack[-1][1].setdefault("attr_lines", []).append(m.group(1))
                continue
            m = _CL_LINE.match(body)
            if not m:
                raise ExportError(f"Clafer: unreadable clafer line {body!r}")
            self.raw_declared.add(m.group(3))
            node = {"abstract": bool(m.group(1)), "group": m.group(2), "name": m.group(3).strip('"'),
                    "raw_name": m.group(3), "super": m.group(4), "optional": bool(m.group(5)), "children": []}
            while stack and stack[-1][0] >= depth:
                stack.pop()
            if not stack:
                if self.root is not None or not node["abstract"]:
                    raise ExportError(f"Clafer: unexpected top-level clafer {body!r}")
                self.root = node
            else:
                stack[-1][1]["children"].append(node)
            stack.append((depth, node))
        if self.root is None:
            raise ExportError("Clafer: no root clafer")
        if self.instance_of != self.root["name"]:
            raise ExportError(f"Clafer: instance of {self.instance_of!r}, root is {self.root['name']!r}")

    def out_of_scope_attributes(self) -> list[str]:
        """Clafers that give a value to an attribute they do not have: the attributes are declared in the abstract clafer
        `AttributedFeature`, so a clafer has them only if it is declared `: AttributedFeature`."""
        bad: list[str] = []

        def walk(n: dict[str, Any]) -> None:
            if n.get("attr_lines") and n.get("super") != "AttributedFeature":
                bad.append(f"{n['raw_name']} sets {n['attr_lines']} without inheriting AttributedFeature")
            for c in n["children"]:
                walk(c)
        if self.root is not None:
            walk(self.root)
        return bad

    # expressions
    def _parse_expr(self, text: str) -> Any:
        toks = _CL_TOKEN.findall(text)
        if "".join(toks).replace(" ", "") != text.replace(" ", ""):
            raise ExportError(f"Clafer: cannot tokenise constraint {text!r}")
        pos = [0]

        def peek() -> Optional[str]:
            return toks[pos[0]] if pos[0] < len(toks) else None

        def unary() -> Any:
            t = peek()
            if t is None:
                raise ExportError(f"Clafer: unexpected end of constraint {text!r}")
            pos[0] += 1
            if t in ("!", "not"):
                return ("not", unary())
            if t == "(":
                e = binary(0)
                if peek() != ")":
                    raise ExportError(f"Clafer: missing ')' in {text!r}")
                pos[0] += 1
                return e
            if t in _CL_PREC or t == ")":
                raise ExportError(f"Clafer: unexpected {t!r} in {text!r}")
            self.raw_used.add(t)
            return ("var", t.strip('"'))

        def binary(minprec: int) -> Any:
            left = unary()
            while True:
                op = peek()
                if op not in _CL_PREC or _CL_PREC[op] < minprec:
                    return left
                pos[0] += 1
                right = binary(_CL_PREC[op] + (0 if op == "=>" else 1))
                left = (op, left, right)
        e = binary(0)
        if pos[0] != len(toks):
            raise ExportError(f"Clafer: trailing tokens in constraint {text!r}: {toks[pos[0]:][:3]}")
        return e

    def _eval(self, t: Any, sel: set[str]) -> bool:
        k = t[0]
        if k == "var":
            return t[1] in sel
        if k == "not":
            return not self._eval(t[1], sel)
        a, b = self._eval(t[1], sel), self._eval(t[2], sel)
        return {"&&": a and b, "||": a or b, "=>": (not a) or b, "<=>": a == b, "xor": a != b}[k]

    def _vars(self, t: Any) -> set[str]:
        if t[0] == "var":
            return {t[1]}
        return set().union(*[self._vars(x) for x in t[1:]])

    def names(self) -> list[str]:
        out: list[str] = []

        def walk(n: dict[str, Any]) -> None:
            out.append(n["name"])
            for c in n["children"]:
                walk(c)
        walk(self.root)  # type: ignore[arg-type]
        return out

    def constraint_names(self) -> set[str]:
        return set().union(*[self._vars(c) for c in self.constraints]) if self.constraints else set()

    def valid(self, sel: set[str]) -> bool:
        assert self.root is not None
        if self.root["name"] not in sel:
            return False

        def ok(n: dict[str, Any], on: bool) -> bool:
            kids = n["children"]
            k = sum(1 for c in kids if c["name"] in sel)
            if not on and k:
                return False
            if on and n["abstract"] and n is not self.root:
                return False              # a nested abstract clafer is a type, not a part: it has no instance
            if n["group"] and on:
                g = n["group"]
                lo, hi = {"xor": (1, 1), "or": (1, len(kids)), "mux": (0, 1)}.get(g, (None, None))
                if lo is None:
                    a, b = g.split("..")
                    lo, hi = int(a), (len(kids) if b == "*" else int(b))
                if not lo <= k <= hi:
                    return False
            for c in kids:
                c_on = c["name"] in sel
                if not n["group"] and on and not c["optional"] and not c_on:
                    return False
                if not ok(c, c_on):
                    return False
            return True
        if not ok(self.root, True):
            return False
        return all(self._eval(c, sel) for c in self.constraints)
