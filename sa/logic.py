"""Reference semantics of constraint expression trees (truth tables) and abstract tree families."""
from __future__ import annotations

import itertools
from typing import Any, Iterable, Optional

from .absint import AObj, EnumVal

LOGICAL = ("REQUIRES", "EXCLUDES", "AND", "OR", "XOR", "IMPLIES", "NOT", "EQUIVALENCE")
BINARY_LOGICAL = ("REQUIRES", "EXCLUDES", "AND", "OR", "XOR", "IMPLIES", "EQUIVALENCE")

# Truth tables of the eight logical operators (A.2 of DESIGN; source: flamapy.core.models.ast
# simplify_formula docstrings and the statement of C18).
SEM = {
    "AND": lambda l, r: l and r,
    "OR": lambda l, r: l or r,
    "XOR": lambda l, r: l != r,
    "IMPLIES": lambda l, r: (not l) or r,
    "REQUIRES": lambda l, r: (not l) or r,
    "EXCLUDES": lambda l, r: not (l and r),
    "EQUIVALENCE": lambda l, r: l == r,
}


def opname(node: AObj) -> Optional[str]:
    d = node._f.get("data")
    return d.name if isinstance(d, EnumVal) else None


def names_of(node: Optional[AObj]) -> list[str]:
    if node is None:
        return []
    if opname(node) is None:
        return [str(node._f["data"])]
    return names_of(node._f.get("left")) + names_of(node._f.get("right"))


def evaluate(node: AObj, env: dict[str, bool]) -> bool:
    op = opname(node)
    if op is None:
        return env[str(node._f["data"])]
    if op == "NOT":
        child = node._f.get("left")
        if child is None:
            child = node._f.get("right")
        return not evaluate(child, env)
    return SEM[op](evaluate(node._f["left"], env), evaluate(node._f["right"], env))


def truth_table(node: AObj, names: list[str]) -> tuple[bool, ...]:
    return tuple(evaluate(node, dict(zip(names, vals)))
                 for vals in itertools.product([False, True], repeat=len(names)))


def show(node: Optional[AObj]) -> str:
    if node is None:
        return "_"
    op = opname(node)
    if op is None:
        return str(node._f["data"])
    if op == "NOT":
        return f"!{show(node._f.get('left') or node._f.get('right'))}"
    return f"({show(node._f.get('left'))} {op} {show(node._f.get('right'))})"


def freeze(node: Optional[AObj]) -> None:
    if node is None:
        return
    node._f["_frozen"] = True
    freeze(node._f.get("left"))
    freeze(node._f.get("right"))


class TreeFamily:
    """Abstract constraint trees: all shapes up to depth 1 over the names, and depth-2 trees whose
    operands range over shape representatives (term, other term, negated term, double negation,
    negated binary, each binary operator)."""

    def __init__(self, mb: Any) -> None:
        self.mb = mb

    def t(self, name: str) -> AObj:
        return self.mb.node(name)

    def un(self, child: AObj) -> AObj:
        return self.mb.node(self.mb.op("NOT"), child)

    def bi(self, op: str, l: AObj, r: AObj) -> AObj:
        return self.mb.node(self.mb.op(op), l, r)

    def operands(self, small: bool) -> list[Any]:
        """Factories (fresh nodes per use: trees must not share nodes)."""
        t, un, bi = self.t, self.un, self.bi
        base = [lambda: t("A"), lambda: t("B"), lambda: un(t("A")), lambda: un(t("C")),
                lambda: un(un(t("A"))), lambda: un(bi("AND", t("A"), t("B")))]
        if not small:
            base += [lambda: t("C"), lambda: un(t("B")), lambda: un(bi("OR", t("B"), t("C")))]
        ops = ("AND", "OR", "IMPLIES") if small else BINARY_LOGICAL
        for op in ops:
            base.append(lambda op=op: bi(op, t("A"), t("B")))
            if not small:
                base.append(lambda op=op: bi(op, t("B"), t("C")))
        return base

    def depth1(self) -> Iterable[AObj]:
        names = ("A", "B", "C")
        for n in names:
            yield self.t(n)
            yield self.un(self.t(n))
        for op in BINARY_LOGICAL:
            for a in names:
                for b in names:
                    yield self.bi(op, self.t(a), self.t(b))

    def depth2(self, small: bool) -> Iterable[AObj]:
        ops = self.operands(small)
        for f in ops:
            yield self.un(f())
        for op in BINARY_LOGICAL:
            for f in ops:
                for g in ops:
                    yield self.bi(op, f(), g())

    def large(self) -> list[AObj]:
        """Larger trees over six names: six-operand chains nested to either side, conjunctions of disjunctions, nesting
        depth five with alternating sides and negations, a simple form buried under double negations, twelve operands
        with repeated names - shapes on which a depth cap, an operand limit or a fast path for short constraints shows."""
        t, un, bi = self.t, self.un, self.bi
        ns = ["A", "B", "C", "D", "E", "F"]

        def left(op: str, xs: list[Any]) -> AObj:
            cur = xs[0]
            for x in xs[1:]:
                cur = bi(op, cur, x)
            return cur

        def right(op: str, xs: list[Any]) -> AObj:
            cur = xs[-1]
            for x in reversed(xs[:-1]):
                cur = bi(op, x, cur)
            return cur
        T = lambda: [t(n) for n in ns]  # noqa: E731
        out = [left("AND", T()), right("AND", T()), left("OR", T()), right("OR", T()),
               bi("IMPLIES", left("AND", T()[:5]), t("F")), bi("IMPLIES", t("A"), right("OR", T()[1:])),
               bi("IMPLIES", t("A"), right("AND", T()[1:])),
               left("AND", [bi("OR", un(t("A")), t("B")), bi("OR", un(t("B")), t("C")), bi("OR", un(t("C")), t("D")),
                            bi("OR", un(t("D")), t("E")), bi("OR", un(t("E")), un(t("F")))]),
               right("OR", [bi("AND", t("A"), t("B")), bi("AND", t("C"), un(t("D"))), bi("AND", un(t("E")), t("F"))]),
               un(left("OR", T())), un(right("AND", T())),
               bi("OR", un(un(un(t("A")))), un(un(t("B")))), bi("IMPLIES", un(un(t("A"))), un(un(un(t("B"))))),
               left("OR", [t(n) for n in ns + ns]), right("AND", [t(n) for n in ns + ns]),
               bi("REQUIRES", t("E"), t("F")), bi("EXCLUDES", t("F"), t("D"))]
        # disjunctions of conjunctions: 27 and 32 clauses in conjunctive normal form, over nine and ten names
        nine = "ABCDEFGHIJ"
        out.append(right("OR", [left("AND", [t(nine[3 * i + j]) for j in range(3)]) for i in range(3)]))
        out.append(left("OR", [bi("AND", t(nine[2 * i]), t(nine[2 * i + 1])) for i in range(5)]))
        deep = t("F")
        for i, op in enumerate(("AND", "OR", "IMPLIES", "AND", "OR")):
            other = un(t(ns[i])) if i % 2 else t(ns[i])
            deep = bi(op, other, deep) if i % 2 else bi(op, deep, other)
        out.append(deep)
        deep = un(t("A"))
        for i, op in enumerate(("IMPLIES", "OR", "AND", "IMPLIES", "OR")):
            deep = bi(op, t(ns[i + 1]), un(deep)) if i % 2 else bi(op, un(deep), t(ns[i + 1]))
        out.append(deep)
        return out

    def all(self, small: bool) -> list[AObj]:
        return list(self.depth1()) + list(self.depth2(small))
