"""Tiny multivariate integer polynomials (symbolic summaries of recursive calls, DESIGN ALG)."""
from __future__ import annotations

from typing import Any, Iterable


class Poly:
    __slots__ = ("t",)

    def __init__(self, terms: dict[tuple[tuple[str, int], ...], int] | None = None) -> None:
        self.t = {m: c for m, c in (terms or {}).items() if c != 0}

    @staticmethod
    def var(name: str) -> "Poly":
        return Poly({((name, 1),): 1})

    @staticmethod
    def const(c: int) -> "Poly":
        return Poly({(): c})

    @staticmethod
    def of(x: Any) -> "Poly":
        if isinstance(x, Poly):
            return x
        if isinstance(x, bool):
            return Poly.const(int(x))
        if isinstance(x, int):
            return Poly.const(x)
        raise TypeError(f"not polynomial: {x!r}")

    def __add__(self, o: Any) -> "Poly":
        o = Poly.of(o)
        t = dict(self.t)
        for m, c in o.t.items():
            t[m] = t.get(m, 0) + c
        return Poly(t)

    __radd__ = __add__

    def __neg__(self) -> "Poly":
        return Poly({m: -c for m, c in self.t.items()})

    def __sub__(self, o: Any) -> "Poly":
        return self + (-Poly.of(o))

    def __rsub__(self, o: Any) -> "Poly":
        return Poly.of(o) + (-self)

    def __mul__(self, o: Any) -> "Poly":
        o = Poly.of(o)
        t: dict[tuple[tuple[str, int], ...], int] = {}
        for m1, c1 in self.t.items():
            for m2, c2 in o.t.items():
                d = dict(m1)
                for v, e in m2:
                    d[v] = d.get(v, 0) + e
                m = tuple(sorted(d.items()))
                t[m] = t.get(m, 0) + c1 * c2
        return Poly(t)

    __rmul__ = __mul__

    def __eq__(self, o: Any) -> bool:  # type: ignore[override]
        try:
            return self.t == Poly.of(o).t
        except TypeError:
            return False

    def __hash__(self) -> int:
        return hash(tuple(sorted(self.t.items())))

    def __bool__(self) -> bool:
        raise TypeError("truth value of a symbolic count")

    def __repr__(self) -> str:
        if not self.t:
            return "0"
        parts = []
        for m, c in sorted(self.t.items()):
            mon = "*".join(v if e == 1 else f"{v}^{e}" for v, e in m)
            parts.append(f"{c}" if not mon else (mon if c == 1 else f"{c}*{mon}"))
        return " + ".join(parts)


def prod(xs: Iterable[Any]) -> Any:
    r: Any = 1
    for x in xs:
        r = r * x
    return r


def elementary(k: int, xs: list[Any]) -> Any:
    """e_k(xs): sum over k-subsets of the product."""
    import itertools
    tot: Any = Poly.const(0)
    for comb in itertools.combinations(xs, k):
        tot = tot + Poly.of(prod(comb))
    return tot
