"""Pairwise interaction family (DESIGN §3.5, round 8).

The CODEC closure decides every class of every dimension *one dimension at a time* plus a handful of combined models; a
defect that needs two aspects to co-occur (a name that must be quoted *on a member of a cardinality group*, an attribute
of some kind *on an abstract feature under an optional parent*, an operator *with its right operand negated and named by
a keyword*) falls between them.  This module builds a **pairwise covering family**: a fixed skeleton with one feature
in every structural position, and per model an assignment of a class of every other dimension (name shape, abstract
flag, feature type, feature cardinality, attribute value kind, role in a constraint, operator of that constraint) to
every position, chosen greedily so that *every pair of classes of two different dimensions* lies on one feature of at
least one model.  The construction is deterministic (no random source): ties are broken by a rotation over the model and
slot indices.

What is decided: every 2-way combination of the listed classes.  Not decided: 3-way and higher interactions (only those
that happen to occur in the family).
"""
from __future__ import annotations

from dataclasses import dataclass, field
from typing import Any, Callable, Optional

from .absint import AObj, EnumVal
from .model import ModelBuilder


@dataclass
class Fragment:
    """What a format carries (the property statement's fragment), as classes per dimension."""
    names: dict[str, str]                                  # name class -> a name of that class ('plain' must be there)
    ops: tuple[str, ...]                                   # binary logical operators
    abstract: bool = True
    types: dict[str, EnumVal] = field(default_factory=dict)   # non-default feature types
    fcards: tuple[tuple[int, int], ...] = ()
    values: dict[str, Any] = field(default_factory=dict)   # attribute value kinds
    negation: bool = True
    cardinal: bool = True                                  # [a..b] groups other than or / alternative
    mutex: bool = True                                     # [0..1] groups
    attr: Optional[Callable[[ModelBuilder, AObj, str, Any], AObj]] = None   # how an attribute of a value kind is attached
    filler: Callable[[str], str] = staticmethod(lambda s: s)   # maps the skeleton's own names into the format's alphabet
    roles: tuple[str, ...] = ("none", "left", "right", "neg-left", "under-neg-right", "inner", "twice")
    attr_names: dict[str, str] = field(default_factory=dict)   # attribute name classes (with `values`)
    numeric: bool = False                                  # comparisons and arithmetic over feature references (UVL)
    exclude: Callable[[dict[str, Any]], Optional[str]] = staticmethod(lambda a: None)   # combination outside the fragment


# structural positions: (slot, host, how the slot hangs under the host)
def skeleton(mb: ModelBuilder, fr: Fragment, F: Callable[[str, str], AObj]) -> tuple[AObj, dict[str, AObj]]:
    """Root with one feature in every structural position; F(slot_or_filler_name, kind) makes the feature."""
    s: dict[str, AObj] = {}
    root = s["root"] = F("root", "slot")
    s["mand"] = F("mand", "slot")
    s["opt"] = F("opt", "slot")
    s["deep"] = F("deep", "slot")
    mb.relation(root, [s["mand"]], 1, 1)
    mb.relation(root, [s["opt"]], 0, 1)
    mb.relation(s["opt"], [s["deep"]], 1, 1)
    s["or-host"] = F("or-host", "slot")
    s["or-member"] = F("or-member", "slot")
    s["member-parent"] = F("member-parent", "slot")
    s["sub"] = F("sub", "slot")
    mb.relation(root, [s["or-host"]], 1, 1)
    mb.relation(s["or-host"], [s["or-member"], s["member-parent"]], 1, 2)
    mb.relation(s["member-parent"], [s["sub"]], 0, 1)
    alt_host = F("HostAlt", "filler")
    s["alt-member"] = F("alt-member", "slot")
    mb.relation(root, [alt_host], 0, 1)
    mb.relation(alt_host, [F("AltFirst", "filler"), s["alt-member"]], 1, 1)
    if fr.cardinal:
        ch = F("HostCard", "filler")
        s["card-member"] = F("card-member", "slot")
        mb.relation(root, [ch], 0, 1)
        mb.relation(ch, [F("CardFirst", "filler"), s["card-member"], F("CardLast", "filler")], 2, 3)
    if fr.mutex:
        mh = F("HostMux", "filler")
        s["mux-member"] = F("mux-member", "slot")
        mb.relation(root, [mh], 1, 1)
        mb.relation(mh, [s["mux-member"], F("MuxLast", "filler")], 0, 1)
    return root, s


SLOTS = ("root", "mand", "opt", "deep", "or-host", "or-member", "member-parent", "sub", "alt-member", "card-member",
         "mux-member")


def _dims(fr: Fragment) -> dict[str, list[str]]:
    slots = [s for s in SLOTS if (s != "card-member" or fr.cardinal) and (s != "mux-member" or fr.mutex)]
    d: dict[str, list[str]] = {"pos": slots, "name": list(fr.names)}
    if fr.values:
        d["value"] = ["no-attribute"] + list(fr.values)
        if fr.attr_names:
            d["attr-name"] = list(fr.attr_names)
    roles = [r for r in fr.roles if fr.negation or "neg" not in r] + (["compared", "arithmetic-operand"] if fr.numeric else [])
    if fr.ops:
        d["role"] = roles
        d["op"] = list(fr.ops)
    if fr.types:
        d["type"] = ["default"] + list(fr.types)
    if fr.fcards:
        d["fcard"] = ["default"] + [f"{a}..{'*' if b == -1 else b}" for a, b in fr.fcards]
    if fr.abstract:
        d["abs"] = ["concrete", "abstract"]
    return d


def _ok(a: dict[str, str], fr: Fragment) -> bool:
    if a.get("pos") == "root" and (a.get("type", "default") != "default" or a.get("fcard", "default") != "default"):
        return False                                      # a typed / multiplied root is in no format's fragment
    return fr.exclude(a) is None


def assignments(fr: Fragment, cap: int = 80, seed: int = 0) -> tuple[list[dict[str, dict[str, str]]], int, int]:
    """Greedy pairwise covering design: a list of models, each {slot: {dim: class}}; (models, pairs, uncovered)."""
    dims = _dims(fr)
    order = [k for k in ("name", "value", "attr-name", "role", "op", "type", "fcard", "abs") if k in dims]
    names = list(dims)
    universe: set[tuple[tuple[str, str], tuple[str, str]]] = set()
    for i, x in enumerate(names):
        for y in names[i + 1:]:
            for vx in dims[x]:
                for vy in dims[y]:
                    a = {x: vx, y: vy}
                    if "role" in a and "op" in a and a["role"] == "none":
                        continue                          # a feature outside every constraint has no operator
                    if "value" in a and "attr-name" in a and a["value"] == "no-attribute":
                        continue
                    if _ok(a, fr):
                        universe.add(((x, vx), (y, vy)))
    uncovered = set(universe)
    models: list[dict[str, dict[str, str]]] = []

    def make(k: int, seeded: bool) -> tuple[dict[str, dict[str, str]], set[Any]]:
        model: dict[str, dict[str, str]] = {}
        used_names: set[str] = set()
        left = set(uncovered)
        rot = (k + 5 * seed) % len(dims["pos"])                        # (the slot served first gets first pick of the names)
        for i, slot in enumerate(dims["pos"][rot:] + dims["pos"][:rot]):
            a: dict[str, str] = {"pos": slot}
            if seeded:
                # seed the slot with one pair that is still uncovered and can live here: progress is guaranteed
                for (dx, vx), (dy, vy) in sorted(left, key=lambda pr: (-len(dims[pr[0][0]]) * len(dims[pr[1][0]]), pr)):
                    if (dx == "pos" and vx != slot) or (dy == "pos" and vy != slot):
                        continue
                    if any(d_ == "name" and v_ in used_names and v_ != "plain" for d_, v_ in ((dx, vx), (dy, vy))):
                        continue
                    trial = dict(a)
                    trial[dx], trial[dy] = vx, vy
                    if _ok(trial, fr):
                        a = trial
                        if "name" in (dx, dy):
                            used_names.add(a["name"])
                        break
            for dname in order:
                if dname in a:
                    continue
                cands = dims[dname]
                best, best_gain = None, -1
                off = ((k + 11 * seed) * 7 + i * 3 + len(dname) + seed) % len(cands)
                for v in cands[off:] + cands[:off]:
                    if dname == "name" and v in used_names and v != "plain":
                        continue
                    trial = dict(a)
                    trial[dname] = v
                    if not _ok(trial, fr):
                        continue
                    gain = sum(1 for (dx, vx) in a.items()
                               if (((dx, vx), (dname, v)) in left or ((dname, v), (dx, vx)) in left))
                    if gain > best_gain:
                        best, best_gain = v, gain
                if best is None:
                    best = cands[0]
                a[dname] = best
                if dname == "name":
                    used_names.add(best)
            model[slot] = a
            items = list(a.items())
            for p in range(len(items)):
                for q in range(len(items)):
                    left.discard((items[p], items[q]))
        return model, left

    k = 0
    while uncovered and k < cap:
        model, left = make(k, False)
        if len(uncovered) - len(left) < len(dims["pos"]):
            model2, left2 = make(k, True)
            if len(left2) < len(left):
                model, left = model2, left2
        if len(left) == len(uncovered):
            break                                         # what is left cannot be placed (excluded combinations)
        uncovered = left
        models.append(model)
        k += 1
    return models, len(universe), len(uncovered)


def build(mb: ModelBuilder, fr: Fragment, asg: dict[str, dict[str, str]], index: int) -> tuple[AObj, str]:
    """The abstract model of one assignment, and a compact description of it."""
    plain_n = [0]

    def name_of(slot: str) -> str:
        cls_ = asg[slot]["name"]
        nm = fr.names[cls_]
        if cls_ == "plain":
            plain_n[0] += 1
            return nm if plain_n[0] == 1 else f"{nm}{fr.filler('x' * (plain_n[0] - 1))}"
        return nm

    feats: dict[str, AObj] = {}

    def F(nm: str, kind_: str) -> AObj:
        if kind_ == "filler":
            return mb.feature(fr.filler(nm))
        a = asg[nm]
        ft = fr.types.get(a.get("type", "default")) if a.get("type", "default") != "default" else None
        fc = (1, 1)
        if a.get("fcard", "default") != "default":
            lo, hi = a["fcard"].split("..")
            fc = (int(lo), -1 if hi == "*" else int(hi))
        f = mb.feature(name_of(nm), is_abstract=a.get("abs") == "abstract", ftype=ft, card=fc)
        feats[nm] = f
        return f

    root, slots = skeleton(mb, fr, F)
    partner, third = mb.feature(fr.filler("Partner")), mb.feature(fr.filler("Third"))
    mb.relation(root, [partner], 0, 1)
    mb.relation(root, [third], 0, 1)
    for slot, f in slots.items():
        vk = asg[slot].get("value", "no-attribute")
        if vk != "no-attribute":
            if fr.attr is not None:
                fr.attr(mb, f, vk, fr.values[vk])
            else:
                an = fr.attr_names[asg[slot]["attr-name"]] if fr.attr_names else "attr"
                f._f["attributes"].append(mb.attribute(an, fr.values[vk], f))
    n, o = mb.node, mb.op
    ctcs = []
    for slot, f in slots.items():
        role = asg[slot].get("role", "none")
        if role == "none":
            continue
        op = asg[slot]["op"]
        X = lambda: n(f._f["name"])  # noqa: E731
        P = lambda: n(partner._f["name"])  # noqa: E731
        T = lambda: n(third._f["name"])  # noqa: E731
        cn = f"c{len(ctcs)}"
        if role == "left":
            ctcs.append(mb.constraint(cn, n(o(op), X(), P())))
        elif role == "right":
            ctcs.append(mb.constraint(cn, n(o(op), P(), X())))
        elif role == "neg-left":
            ctcs.append(mb.constraint(cn, n(o(op), n(o("NOT"), X()), P())))
        elif role == "under-neg-right":
            ctcs.append(mb.constraint(cn, n(o("NOT"), n(o(op), P(), X()))))
        elif role == "inner":
            ctcs.append(mb.constraint(cn, n(o(fr.ops[0]), n(o(op), X(), P()), T())))
        elif role == "compared":
            cmp_ = ("EQUALS", "LOWER", "GREATER", "LOWER_EQUALS", "GREATER_EQUALS", "NOT_EQUALS")[len(ctcs) % 6]
            ctcs.append(mb.constraint(cn, n(o(cmp_), X(), n(3)) if len(ctcs) % 2 else n(o(cmp_), P(), X())))
        elif role == "arithmetic-operand":
            ar_ = ("ADD", "SUB", "MUL", "DIV")[len(ctcs) % 4]
            ctcs.append(mb.constraint(cn, n(o("GREATER"), n(o(ar_), P(), X()) if len(ctcs) % 2 else n(o(ar_), X(), n(2)), n(1))))
        elif role == "twice":
            ctcs.append(mb.constraint(cn, n(o(op), X(), P())))
            ctcs.append(mb.constraint(cn + "b", n(o(op), T(), X())))
    desc = "; ".join(f"{s}=" + ",".join(v for k_, v in a.items() if k_ != "pos" and v not in ("default", "none", "no-attribute",
                                                                                            "concrete", "plain"))
                     for s, a in asg.items())
    return mb.model(root, ctcs), f"pairwise model {index}: {desc}"


_JOB: dict[str, Any] = {}


def _work(i: int) -> Any:
    """One model of the family, in a forked worker: the obligations it produces and the codec's side tables."""
    from .absint import Interp
    j = _JOB
    cd, ctx = j["cd"], j["cd"].ctx
    n0, c0, s0 = len(ctx.obligations), Interp.TOP_CALLS, Interp.TOTAL_STEPS
    cd.unowned, cd.owned_seen, cd.n = {}, set(), 0
    try:
        m, what = build(j["mb"], j["fr"], j["models"][i], i)
        cd.report(j["rule"], f"pairwise:{i:02d}", cd.roundtrip(m), what, j["owns"])
    except Exception as exc:  # noqa: BLE001 - carried to the parent, which raises it as the analysis error it is
        from .core import AnalysisError
        return ("error", exc.rule if isinstance(exc, AnalysisError) else "ABSINT",
                exc.reason if isinstance(exc, AnalysisError) else f"{type(exc).__name__}: {exc}",
                getattr(exc, "where", ""))
    from .model import DISCREPANCIES
    return ("ok", ctx.obligations[n0:], dict(cd.unowned), set(cd.owned_seen), cd.n,
            Interp.TOP_CALLS - c0, Interp.TOTAL_STEPS - s0, list(DISCREPANCIES))


def sweep(cd: Any, mb: ModelBuilder, fr: Fragment, owns: tuple[str, ...], rule: str = "PAIRS",
          cap: int = 80, floor: int = 8) -> dict[str, int]:
    """Round-trip every model of the covering family through the codec; returns the coverage figures. The models are
    independent of each other: they are evaluated by forked worker processes (as many as there are cores, at most 8)
    and their obligations are merged in the order of the family, so the outcome does not depend on the scheduling."""
    import os
    from .absint import Interp
    from .core import AnalysisError
    from .model import DISCREPANCIES
    models, total, left = assignments(fr, cap)
    if getattr(cd.ctx, "tier", "quick") == "thorough":
        # two more covering families under other rotations: the same pairs in other company, i.e. more of the three-way
        # combinations (still not all of them)
        for seed in (1, 2):
            models += assignments(fr, cap, seed)[0]
    if len(models) < floor:
        raise AnalysisError(rule, f"pairwise family has {len(models)} models, fewer than the floor {floor}")
    jobs = min(8, os.cpu_count() or 1, len(models))
    if os.environ.get("VERIF_JOBS"):
        jobs = max(1, int(os.environ["VERIF_JOBS"]))
    _JOB.update(cd=cd, mb=mb, fr=fr, models=models, rule=rule, owns=owns)
    saved = (dict(cd.unowned), set(cd.owned_seen), cd.n)
    if jobs > 1:
        import multiprocessing as mp
        with mp.get_context("fork").Pool(jobs) as pool:
            results = pool.map(_work, range(len(models)), chunksize=1)
    else:
        results = []
        for i in range(len(models)):
            n0 = len(cd.ctx.obligations)
            r = _work(i)
            if r[0] == "ok":
                del cd.ctx.obligations[n0:]
            results.append(r)
    cd.unowned, cd.owned_seen, cd.n = saved
    for r in results:
        if r[0] == "error":
            raise AnalysisError(r[1], r[2], r[3]) if r[3] else AnalysisError(r[1], r[2])
        _, obls, unowned, owned_seen, n, calls, steps, disc = r
        cd.ctx.obligations.extend(obls)
        for c, t in unowned.items():
            cd.unowned.setdefault(c, t)
        cd.owned_seen |= owned_seen
        cd.n += n
        if jobs > 1:
            Interp.TOP_CALLS += calls
            Interp.TOTAL_STEPS += steps
            for d_ in disc:
                if d_ not in DISCREPANCIES:
                    DISCREPANCIES.append(d_)
    return {"models": len(models), "pairs": total, "pairs-not-covered": left}
