"""Per-property claim texts for MANIFEST.json (single source)."""
NOT_BUILT_REASON = ("check not built yet in this round (design in DESIGN.md §5); nothing is claimed "
                    "for this property until its static check exists")

_NOTE = ("Trusted base: CPython ast of /venv/bin/python 3.12, the checker code in /verif/sa, and the "
         "source files of the installed dependencies it reads (digests in evidence). Assumes Python "
         "semantics of the constructs it models (95 conformance cases against CPython in tools/evalconf.py; generators, "
         "class statements, descriptor / special-method protocols included); an evaluation that outgrows 6 GB or 3000 s "
         "ends as analysis-broken (exit 2); "
         "decides only the clauses named in the level text. Every abstract input is built through the model "
         "classes' own constructors / add_relation evaluated from source and read back (<prop>-MODEL).")

_PAIR = ('Every two-way combination of classes of different dimensions on one feature (structural position, name shape, decoration, attribute kind and name, role in a constraint, operator) is decided by a pairwise covering family; one writer / reader object used again after the model or the file changed, and after a failed call, gives what a fresh object gives. ')

CHECKS = {
 "C03": {
  "text": ("Decides, for all inputs, the structural clauses: the six relation-kind predicates partition the "
           "well-formed cardinality domain and equal their defining regions (complete by order-type "
           "abstraction: they only compare card_min/card_max/len(children)); every feature-level predicate and "
           "filtered listing is formula-equal to the class it names over all parent contexts; FeatureType "
           "predicates partition the enum; get_relations/get_features list each element exactly once in pre-order "
           "(inductive step when recursive, whole-function comparison on the abstract tree family otherwise); "
           "lookup by name is exact; every listing equals the base listing filtered by the definition of its class "
           "on an abstract model with an element of every class; every query re-asked after an in-place edit of "
           "the tree answers for the edited tree. Not decided: well-formedness of reader output (C02), "
           "termination on cyclic inputs."),
  "design_ref": "DESIGN.md §5 C03", "note": _NOTE,
  "technique": "static analysis: predicate ASTs as formulas decided over a finite order-type abstraction; inductive-step check of recursive listings; structural filter normal forms"},
 "C20": {
  "text": ("Decides the equality/hash contract on the source of __eq__/__hash__/__lt__ of Feature, Relation, "
           "Constraint, FeatureModel: (signatures) hash-key fields are a subset of equality fields with "
           "coarser-or-equal normalisers, conjuncts symmetric and isinstance-guarded, the fields the property "
           "names are compared, collections order-free; (witness formulas) the method bodies, read as formulas "
           "over abstract objects with sorting interpreted by the classes' own __lt__, hold on witness pairs "
           "realising every representation difference of equal objects (identity, permutations of children / "
           "relations / constraints, constraint names and letter case) and fail on each single-point edit the "
           "property lists; sort keys invariant under equality. Nothing of C20 is left to runtime except hash "
           "collisions, which cannot violate it."),
  "design_ref": "DESIGN.md §5 C20", "note": _NOTE,
  "technique": "static analysis: field/normaliser signature extraction from __eq__/__hash__ ASTs + formula evaluation of the bodies on abstract witness pairs (sort interpreted via source __lt__)"},
 "C13": {
  "text": ("Decides the inductive step of the recursive count for all trees of bounded arity: the function body, "
           "with each recursive call replaced by a symbolic count c_i (induction hypothesis), must yield exactly the "
           "polynomial prod_r sum_{k=min..max} e_k(c_1..c_n) for every well-formed relation cardinality with n<=4 "
           "and pairs/triples of representative relations; leaf case 1; the constraints are never consulted (upper "
           "bound). Hence estimate = exact tree count by structural induction. Not decided: arities beyond the box; "
           "numeric agreement with an enumerator."),
  "design_ref": "DESIGN.md §5 C13", "note": _NOTE,
  "technique": "static analysis: symbolic inductive-step evaluation of the function AST (recursive calls summarised by polynomial variables) + polynomial identity"},
 "C14": {
  "text": ("Hoare-style step check of the worklist closure, decided over the finite cardinality abstraction: init "
           "(result=worklist=[root]), loop body as transfer function (pops one feature, adds to result and worklist "
           "exactly the children of its relations with min>=n, each once), exit (returns the result list). By induction "
           "over iterations on a tree: root always included, each feature once, sound with constraints, exact "
           "without. Plus: the operation class returns the helper's value for the model of the current execution."),
  "design_ref": "DESIGN.md §5 C14", "note": _NOTE,
  "technique": "static analysis: loop split + transfer-function evaluation of the loop body AST on abstract states over the order-type cardinality domain"},
 "C15": {
  "text": ("Inductive step of the recursive walk decided over the cardinality abstraction: entry registers exactly "
           "{root}; at every abstract feature each child enters exactly one registered set, the walk continues exactly "
           "once per child with that set, a child is merged into the parent's set only if min>=n (child<=>parent), "
           "mandatory children are always merged, no empty set. By structural induction: partition, co-selection "
           "sound, never finer than mandatory chains. Not decided: co-selection induced by constraints (not required)."),
  "design_ref": "DESIGN.md §5 C15", "note": _NOTE,
  "technique": "static analysis: inductive-step evaluation of the recursive function AST with recording stubs for recursive calls over abstract parent contexts"},
 "C16": {
  "text": ("Decides the shape of the six tree helpers: each is evaluated as a formula on an abstract tree family "
           "realising every distinguishing situation (root-only, edge, chain, deepest leaf in the middle, several "
           "relations, ratio needing rounding) against its definition, with no raise on the root-only model; ancestors "
           "loop branch-free + chains 0..4 in order; variation points by a Hoare-style step check over all "
           "well-formed cardinalities; operation classes return the helper's value; on a chain of 6 and of 12 features "
           "each helper reaches the same nesting of calls (no function on its path recurses once per tree level, so "
           "a deep well-formed model cannot end in RecursionError); trees with sibling names differing only in case "
           "or edge blanks, a tree built incrementally, and trees edited in place after a first analysis. Not "
           "decided: aggregate operations beyond the abstract family; corpus agreement."),
  "design_ref": "DESIGN.md §5 C16", "note": _NOTE,
  "technique": "static analysis: formula evaluation of helper ASTs on abstract trees; loop-step check for variation points; totality (no reachable raise) on the root-only model"},
 "C18": {
  "text": ("Decides C18 over a complete finite family of abstract expression trees (all trees to depth 1 over three "
           "names, depth-2 trees over operand-shape representatives; the predicates observe nothing finer): "
           "requires/excludes reports are truth-table-equivalent to l->r / not(l and r) for the pair the library "
           "extracts; the seven documented forms are reported; kind predicates equal the operator-list definitions "
           "(lists read from flamapy.core source); simple/complex consistent; every complex constraint exactly one of "
           "pseudo/strict; no query raises or stores into the (frozen) constraint; reported features = names occurring; "
           "the conjunction of split parts is equivalent (evaluating the dependency's simplify/propagate/to_cnf "
           "from source). Not decided: split equivalence for deeper trees."),
  "design_ref": "DESIGN.md §5 C18", "note": _NOTE,
  "technique": "static analysis: predicate ASTs (incl. dependency source) decided as formulas over a complete finite family of abstract expression-tree shapes; truth-table oracle; frozen-input effect check"},
 "C19": {
  "text": ("For every operation class discovered by interface: (PURE) execute and everything it reaches (helpers, model "
           "methods, the dependency's Metrics.execute read from source) is evaluated as a formula on an abstract model "
           "realising every relation kind and constraint class whose objects/containers are frozen - any store is a "
           "finding; (STATE) two executions on one object leave exactly the result a fresh object computes for the "
           "second model, repeated execution is idempotent; (ONLYMODEL) the result is the same under both extreme iteration "
           "orders of Python sets, i.e. does not depend on PYTHONHASHSEED; (GENATTR) with the random source replaced by recording "
           "stubs, generation adds exactly one attribute (name, parent, value from the domain) to each targeted feature "
           "lacking it, nothing else changes, randint/uniform get (min,max) in order and match the bound types, missing "
           "domain/name are FlamaException. Not decided: distribution/seeds; effects on paths the abstract models do "
           "not take."),
  "design_ref": "DESIGN.md §5 C19", "note": _NOTE,
  "technique": "static analysis: effect/typestate analysis by evaluating operation ASTs over frozen abstract models (store = finding), state-independence by double evaluation, recording stubs for the random source"},
 "C17": {
  "text": ("Evaluates the whole report pipeline (FMMetrics, its metric methods discovered through the evaluated "
           "decorator, the dependency's Metrics.execute/get_ratio/construct_result from source) as one formula over "
           "abstract models covering root-only, edge, bushy, every relation kind/constraint class, and a mandatory "
           "child beside a group. Decided: no metric raises; each name once; size=len(result); ratio = size / size of "
           "the listing it is a share of, in [0,1]; all defining identities; each metric equals its definition computed "
           "on the abstract tree; duplicates agree with the stand-alone operations; filter by name. Not decided: "
           "models outside the family (the metrics are map/filter/aggregate compositions over listings decided by C03)."),
  "design_ref": "DESIGN.md §5 C17", "note": _NOTE,
  "technique": "static analysis: formula evaluation of the metrics pipeline ASTs (incl. decorator discovery and dependency source) over abstract models; identities and definitions as oracles"},
 "C05": {
  "text": ("CODEC closure by composing writer and reader source: for each class of each dimension JSON carries (relation "
           "order types over the well-formed cardinality domain, abstract flag with exact type, name shapes by the "
           "character classes the encoder observes, attribute value kinds, the eight logical operators at every "
           "position, n-ary chains, constraint names) JSONWriter.transform is evaluated from source into its document, "
           "JSONReader.transform / parse_json are evaluated from source on it, and the abstract models are compared "
           "field by field; a further cycle must reproduce model and text; returned value = text written (UTF-8); "
           "parse_json agrees with transform; n-ary documents keep all operands. " + _PAIR + "Not decided: three-way and higher "
           "interactions between dimensions."),
  "design_ref": "DESIGN.md §5 C05", "note": _NOTE,
  "technique": "static analysis: writer/reader agreement (CODEC) by evaluating both transformation ASTs over finite abstractions of every carried dimension; virtual file system; json library applied to the evaluated document"},
 "C08": {
  "text": ("CODEC closure for Glencoe JSON by composing GlencoeWriter.transform and GlencoeReader.transform from "
           "source: per class of every dimension of the fragment (single mandatory/optional children; one alternative/"
           "or/mutex/[a,b] group over the well-formed cardinality domain, alone and with mandatory singles; name shapes "
           "= join keys between features / tree ids / FeatureTerm operands; eight logical operators at every position; "
           "constraint names; n-ary terms) the model read back equals the one written (relations as multisets, "
           "constraints up to REQUIRES=IMPLIES); cycles are fixpoints; returned = written (UTF-8); output well-formed. " + _PAIR +
           "Not decided: documents not produced by the writer (C09); three-way and higher interactions."),
  "design_ref": "DESIGN.md §5 C08", "note": _NOTE,
  "technique": "static analysis: writer/reader agreement (CODEC) by evaluating both transformation ASTs over finite abstractions of every carried dimension (join-key agreement, kind closure over the cardinality domain, operator vocabulary)"},
 "C07": {
  "text": ("CODEC closure for FeatureIDE XML by composing FeatureIDEWriter.transform and FeatureIDEReader.transform from "
           "source over XML element stand-ins (stdlib serialises/parses the evaluated tree): per class of every "
           "dimension of the fragment (parents with only mandatory/optional children; single or-/alternative group "
           "incl. the root; abstract flags; name shapes; each constraint operator at every position; single-literal "
           "constraint; no constraints) the model read back equals the one written, constraints up to logical "
           "equivalence by truth table; cycles are fixpoints; returned bytes = written bytes; output well-formed. " + _PAIR +
           "Not decided: documents not produced by the writer (C09); three-way and higher interactions."),
  "design_ref": "DESIGN.md §5 C07", "note": _NOTE,
  "technique": "static analysis: writer/reader agreement (CODEC) by evaluating both transformation ASTs over finite abstractions of every carried dimension; XML element stand-ins; truth-table equivalence of constraints"},
 "C01": {
  "text": ("CODEC closure for UVL by composing UVLWriter.transform and UVLReader.transform from source (the dependency's "
           "generated recogniser, part of the environment like json, turns the text the writer's source produces into the "
           "parse tree the reader's source consumes): per class of every dimension UVL carries - relation order types "
           "over the well-formed cardinality domain incl. '*', several relations per parent, nesting, the four feature "
           "types, feature cardinalities, abstract flag, attribute value kinds incl. lists and nested maps, name shapes "
           "(space, punctuation, non-ASCII, keywords, leading digit/underscore, operator words), every logical, "
           "comparison, arithmetic and two-argument aggregate operator at every position incl. nestings that need "
           "parentheses - the model read back equals the one written (constraints up to logical equivalence by truth "
           "table / identical trees); further cycles are fixpoints with byte-identical text; returned = written; UTF-8 on "
           "both sides. " + _PAIR + "Not decided: three-way and higher interactions between dimensions."),
  "design_ref": "DESIGN.md §5 C01", "note": _NOTE + " The generated UVL lexer/parser of the uvl package is trusted as the grammar.",
  "technique": "static analysis: writer/reader agreement (CODEC) by evaluating both transformation ASTs over finite abstractions of every carried dimension; generated recogniser used as the grammar table between them"},
 "C04": {
  "text": ("UVLReader.transform is evaluated from source on documents emitted by an independent reference emitter "
           "(written against the UVL language definition) from a reference abstract model using every construct the "
           "property names, under all 32 combinations of surface choices (quote every identifier, redundant "
           "parentheses, several children under one group keyword, line comments, namespace/include/imports "
           "headers); the model read must equal the reference model (constraints by truth table / identical trees) "
           "and be well-formed. Documents made invalid by construction (8 kinds incl. stray characters) must make "
           "transform raise. Every labelled alternative of the grammar's group/constraint/expression/equation/"
           "aggregate rules (read from the generated parser's source) is dispatched by the reader. Not decided: "
           "conformance of the generated recogniser to the language definition."),
  "design_ref": "DESIGN.md §5 C04", "note": _NOTE + " The generated UVL lexer/parser of the uvl package is trusted as the grammar.",
  "technique": "static analysis: reader AST evaluated over recogniser parse trees of reference documents (all surface-choice combinations) and invalid documents; grammar-alternative exhaustiveness from the generated parser source"},
 "C06": {
  "text": ("CODEC closure for AFM by composing AFMWriter.transform and AFMReader.transform (plus the dependency's get_tree "
           "from source) with the generated AFM recogniser as grammar between them: per class of every dimension of the "
           "fragment (mandatory/optional children, [a,b] groups over the well-formed cardinality domain, several "
           "relations per parent, integer-range and enumerated attribute domains with default and null, each of NOT AND "
           "OR IMPLIES IFF REQUIRES EXCLUDES at every position incl. nestings needing parentheses up to depth 3) the "
           "model read back equals the one written (constraints by truth table, ranges as integers); cycles are "
           "fixpoints with identical text; returned = written (UTF-8); reader output well-formed (unary operand first). " + _PAIR +
           "Not decided: names outside the AFM WORD token; deeper random trees; three-way and higher interactions."),
  "design_ref": "DESIGN.md §5 C06", "note": _NOTE + " The generated AFM lexer/parser of afmparser is trusted as the grammar.",
  "technique": "static analysis: writer/reader agreement (CODEC) by evaluating both transformation ASTs over finite abstractions of every carried dimension; generated recogniser as grammar table; truth-table equivalence"},
 "C09": {
  "text": ("The four readers' transform() are evaluated from source on documents written by independent reference emitters "
           "(FeatureIDE XML, FaMa XML, Glencoe JSON, AFM text) from a reference abstract model, using each format's "
           "syntactic freedom (optional attributes present/absent with either value, attribute order, graphics/"
           "description elements, cardinality element position, ids distinct from names, whitespace, parentheses). "
           "Decided per document: the abstract model read equals the denoted model (constraints by truth table) and is "
           "well-formed; n-ary rules keep all operands; missing constraints section = no constraints; cardinalities as "
           "written; unrepresentable constructs (unknown rule/term/group type, relational AFM constraint, no feature) "
           "reach a raise of FlamaException. Not decided: the 1299 shipped files against Betty statistics (runtime "
           "corpus)."),
  "design_ref": "DESIGN.md §5 C09", "note": _NOTE,
  "technique": "static analysis: reader ASTs evaluated over reference documents of four formats (all syntactic-freedom combinations); model comparison with truth-table equivalence; must-raise checks for unsupported constructs"},
 "C02": {
  "text": ("Each of the six readers' transform() is evaluated from source on documents of two origins (written by this "
           "library's writers, themselves evaluated from source, from abstract models realising every relation kind and "
           "operator; and written by independent reference emitters) and the abstract model it builds is inspected object "
           "by object: one parentless root; relations point back to their owner and are non-empty; each child's parent is "
           "the owner of the one relation it is in; integer cardinalities; attributes point back; constraints are Node trees "
           "with unary operand in .left and both binary operands, terminals converted (no parse-tree object in the model); "
           "Constraint.get_features returns exactly the names written (logical constraints). All 24 Relation(...) "
           "construction sites of the readers are exercised (coverage measured against the sites found syntactically); "
           "add_relation/add_attribute back-pointers decided on abstract objects. Not decided: non-emptiness of "
           "relations for arbitrary accepted documents."),
  "design_ref": "DESIGN.md §5 C02", "note": _NOTE,
  "technique": "static analysis: reader ASTs evaluated to abstract object graphs that are inspected for ownership/shape invariants; construction-site coverage measured against the syntax tree"},
 "C10": {
  "text": ("Translation validation by composing source evaluation with independent interpreters: SPLOTWriter.transform and "
           "PLWriter.transform (and the dependency's CNF code they reach) are evaluated from source on abstract Boolean "
           "models covering every relation order type of the well-formed cardinality domain (n<=3) both under the root and "
           "under an optional parent, several relations per parent, nesting, and constraints over each of the eight logical "
           "operators at three positions; the emitted text is read by an interpreter of the target format written in the "
           "checker (SXFM markers and or-clauses; propositional formulas under the usual precedences) and the satisfying "
           "selections over all 2^n feature selections must equal the model's own; no feature may be missing. Not decided: "
           "models larger than the abstract family; lexical rules of the propositional target for unusual names."),
  "design_ref": "DESIGN.md §5 C10", "note": _NOTE + " The two target-format interpreters in sa/exports.py are part of the trusted base.",
  "technique": "static analysis + translation validation: writer ASTs evaluated on abstract models, emitted text decided by independent target-format interpreters over all selections"},
 "C12": {
  "text": ("For every writer discovered by interface, transform() and everything it reaches is evaluated on frozen abstract "
           "models: (PURE) any store into the model is a finding, snapshot unchanged; (RETURN) returned value = content "
           "written; (ENCODING) every text-mode open() and every ANTLR FileStream on write and read-back paths names UTF-8 "
           "(defaults read from the dependency's source); (DETERMINISM) the evaluator imposes both extreme iteration orders "
           "on every set - differing output means dependence on PYTHONHASHSEED; calls of clock/random/environment/locale/"
           "default-encoding sources reachable from transform() are findings; repeated calls identical. Not decided: "
           "process-state channels other than the listed ones (CPython dict order, float repr, json defaults assumed "
           "process-independent)."),
  "design_ref": "DESIGN.md §5 C12", "note": _NOTE,
  "technique": "static analysis: effect analysis over frozen abstract models, set-iteration-order sensitivity by dual evaluation, who-may-call check for nondeterministic sources, encoding arguments of every stream"},
 "C11": {
  "text": ("Translation validation of the Clafer export: ClaferWriter.transform is evaluated from source on abstract models "
           "of the Clafer fragment (children individually mandatory/optional, or one xor/or/mux/a..b group over the "
           "well-formed cardinality domain, under a mandatory and an optional parent, root groups; bool/int/float/str "
           "attributes; constraints over each of the eight logical operators at three positions); the text is read by an "
           "interpreter of the emitted Clafer subset written in the checker and its instances over all 2^n selections must "
           "equal the model's configurations; every name used in a constraint or attribute line is declared with the same "
           "identifier; attribute types declared as the value kinds imply. Not decided: models larger than the family; "
           "Clafer constructs outside the emitted subset."),
  "design_ref": "DESIGN.md §5 C11", "note": _NOTE + " The Clafer-subset interpreter in sa/exports.py is part of the trusted base.",
  "technique": "static analysis + translation validation: writer AST evaluated on abstract models, emitted text decided by an independent Clafer-subset interpreter over all selections; declaration/use identifier agreement"},
}
