"""Per-property claim texts for MANIFEST.json (single source)."""
NOT_BUILT_REASON = ("check not built yet in this round (design in DESIGN.md §5); nothing is claimed "
                    "for this property until its static check exists")

_NOTE = ("Trusted base: CPython ast of /venv/bin/python 3.12, the checker code in /verif/sa, and the "
         "source files of the installed dependencies it reads (digests in evidence). Assumes Python "
         "semantics of the constructs it models; decides only the clauses named in the level text.")

CHECKS = {
 "C03": {
  "text": ("Decides, for all inputs, the structural clauses: the six relation-kind predicates partition the "
           "well-formed cardinality domain and equal their defining regions (complete by order-type "
           "abstraction: they only compare card_min/card_max/len(children)); every feature-level predicate and "
           "filtered listing is formula-equal to the class it names over all parent contexts; FeatureType "
           "predicates partition the enum; get_relations/get_features satisfy the inductive step of "
           "'each element exactly once'; lookup by name is exact. Not decided: well-formedness of reader "
           "output (C02), termination on cyclic inputs."),
  "design_ref": "DESIGN.md §5 C03", "note": _NOTE,
  "technique": "static analysis: predicate ASTs as formulas decided over a finite order-type abstraction; inductive-step check of recursive listings; structural filter normal forms"},
 "C20": {
  "text": ("Decides the equality/hash contract on the source of __eq__/__hash__/__lt__ of Feature, Relation, "
           "Constraint, FeatureModel: (signatures) hash-key fields are a subset of equality fields with "
           "coarser-or-equal normalisers, conjuncts symmetric and isinstance-guarded, the fields the property "
           "names are compared, collections order-free; (witness formulas) the method bodies, read as formulas "
           "over abstract objects with sorting interpreted by the classes' own __lt__, hold on witness pairs "
           "realising every representation difference of equal objects (identity, permutations of children / "
           "relations / constraints, constraint names and letter case) and fail on each single-point edit the "
           "property lists; sort keys invariant under equality. Nothing of C20 is left to runtime except hash "
           "collisions, which cannot violate it."),
  "design_ref": "DESIGN.md §5 C20", "note": _NOTE,
  "technique": "static analysis: field/normaliser signature extraction from __eq__/__hash__ ASTs + formula evaluation of the bodies on abstract witness pairs (sort interpreted via source __lt__)"},
}
