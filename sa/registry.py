"""Per-property claim texts for MANIFEST.json (single source)."""
NOT_BUILT_REASON = ("check not built yet in this round (design in DESIGN.md §5); nothing is claimed "
                    "for this property until its static check exists")

_NOTE = ("Trusted base: CPython ast of /venv/bin/python 3.12, the checker code in /verif/sa, and the "
         "source files of the installed dependencies it reads (digests in evidence). Assumes Python "
         "semantics of the constructs it models; decides only the clauses named in the level text.")

CHECKS = {
 "C03": {
  "text": ("Decides, for all inputs, the structural clauses: the six relation-kind predicates partition the "
           "well-formed cardinality domain and equal their defining regions (complete by order-type "
           "abstraction: they only compare card_min/card_max/len(children)); every feature-level predicate and "
           "filtered listing is formula-equal to the class it names over all parent contexts; FeatureType "
           "predicates partition the enum; get_relations/get_features satisfy the inductive step of "
           "'each element exactly once'; lookup by name is exact. Not decided: well-formedness of reader "
           "output (C02), termination on cyclic inputs."),
  "design_ref": "DESIGN.md §5 C03", "note": _NOTE,
  "technique": "static analysis: predicate ASTs as formulas decided over a finite order-type abstraction; inductive-step check of recursive listings; structural filter normal forms"},
}
