"""Finite-abstraction evaluation of predicates extracted from the source (DESIGN §1.5, §3.2, §3.4).

A predicate of the package (e.g. `Relation.is_or`, `Feature.is_mandatory`, the guard of a writer
branch, `Constraint.is_requires_constraint`) observes its inputs only through a small set of
observations: comparisons of card_min / card_max / len(children) with each other and with literal
constants, membership of a feature in a relation, presence of a parent, the operator and shape of
an expression-tree node.  The joint value space of those observations is finite.  This module
  (1) takes the *AST of the predicate as the formula*, inlining package-internal calls through
      the program model,
  (2) enforces the fragment: pure expressions and loop-free/if-return bodies, abstract objects
      that expose only the whitelisted observations, cardinalities as ordinal-only values
      (`OrdInt`: any arithmetic on them leaves the fragment -> AnalysisError), and
  (3) decides the formula on one representative per point of the finite observation space
      (a truth table of the formula, not a run of the program: no module of the package is
      imported, no repository function object is ever called).
"""
from __future__ import annotations

import ast
import operator
import sys
from typing import Any, Callable, Optional

from .core import AnalysisError, loc, src
from .pm import ClassInfo, FuncInfo, ProgramModel, Unit


_MISSING: Any = object()

class AbsRaise(Exception):
    """The evaluated formula reaches a `raise` (or an operation that raises) on this point."""

    def __init__(self, what: str, where: str = "") -> None:
        super().__init__(what)
        self.what = what
        self.where = where


class AbsMutation(Exception):
    """The evaluated code stores into an object that the caller marked as owned by the input."""

    def __init__(self, what: str, where: str = "") -> None:
        super().__init__(what)
        self.what = what
        self.where = where


class _Return(Exception):
    def __init__(self, value: Any) -> None:
        self.value = value


class _Break(Exception):
    pass


class _Continue(Exception):
    pass


class _GenAbandon(BaseException):
    """Raised at the suspension point of a generator that nobody will resume: its thread just ends (no clean-up code of
    the analysed program runs - the consumer is gone and another thread owns the evaluator by then)."""


class AGen:
    """A generator object of the analysed program. The body of a generator function runs in a thread of its own that
    alternates strictly with its consumer: `next()` hands control to the body until its next `yield`, so a generator is
    as lazy as in Python - what it yields is computed when it is asked for, it can be suspended with work half done,
    resumed later, sent values, thrown into and closed, and it is one-shot."""

    def __init__(self, interp: Any, body: Callable[[Any], Any], label: str = "") -> None:
        import threading
        self.interp, self.body, self.label = interp, body, label
        self.to_gen, self.to_con = threading.Semaphore(0), threading.Semaphore(0)
        self.msg: tuple[Any, ...] = ("next", None)
        self.out: tuple[Any, ...] = ("return", None)
        self.started = self.done = self.running = self.abandoned = False
        self.own_depth = 0                 # calls the body has open while it is suspended
        self.base_depth = 0
        self.thread: Any = None

    def __iter__(self) -> "AGen":
        return self

    def __next__(self) -> Any:
        return self.send(None)

    def __del__(self) -> None:
        if self.started and not self.done:
            self.abandoned = True
            self.to_gen.release()

    # --- consumer side ------------------------------------------------------------------------------------
    def _switch(self, msg: tuple[Any, ...]) -> Any:
        import threading
        if self.running:
            raise AbsRaise("ValueError: generator already executing")
        it = Interp.ACTIVE if Interp.ACTIVE is not None else self.interp
        self.interp = it                       # the body goes on in the evaluator that resumes it
        self.msg = msg
        self.base_depth = it.depth
        it.depth = self.base_depth + self.own_depth
        self.running = True
        if not self.started:
            self.started = True
            self.thread = threading.Thread(target=self._run, daemon=True, name=f"agen:{self.label}")
            self.thread.start()
        else:
            self.to_gen.release()
        self.to_con.acquire()
        self.running = False
        it.depth = self.base_depth
        kind, val = self.out
        if kind == "yield":
            return val
        self.done = True
        if kind == "return":
            raise StopIteration(val)
        raise val

    def send(self, value: Any) -> Any:
        if self.done:
            raise StopIteration
        if not self.started and value is not None:
            raise AbsRaise("TypeError: can't send non-None value to a just-started generator")
        return self._switch(("next", value))

    def throw(self, exc: BaseException) -> Any:
        if self.done:
            raise exc
        if not self.started:
            self.done = True
            raise exc
        return self._switch(("throw", exc))

    def close(self) -> None:
        if self.done or not self.started:
            self.done = True
            return
        try:
            self._switch(("throw", _GenClose()))
        except (StopIteration, _GenClose):
            self.done = True
            return
        raise AbsRaise("RuntimeError: generator ignored GeneratorExit")

    # --- body side ------------------------------------------------------------------------------------------
    def _run(self) -> None:
        it = self.interp
        try:
            self.out = ("return", self.body(self))
        except _GenAbandon:
            return
        except BaseException as exc:  # noqa: BLE001 - whatever the body raises is the consumer's to see
            self.out = ("raise", exc)
        self.own_depth = 0
        it.depth = self.base_depth
        self.to_con.release()

    def suspend(self, value: Any) -> Any:
        """Called by the evaluator at a `yield`: hand `value` to the consumer, wait to be resumed."""
        it = self.interp
        self.out = ("yield", value)
        self.own_depth = it.depth - self.base_depth
        self.to_con.release()
        self.to_gen.acquire()
        if self.abandoned:
            raise _GenAbandon()
        kind, val = self.msg
        if kind == "throw":
            raise val
        return val


class _GenClose(Exception):
    """GeneratorExit delivered by close()."""


class _GenCM:
    """What contextlib.contextmanager makes of a generator function's generator."""

    def __init__(self, gen: AGen) -> None:
        self.gen = gen


ARITH_ON_ORDINALS: set[str] = set()     # ordinals that took part in arithmetic (reported in evidence)


class OrdInt:
    """A cardinality-like integer that may only be compared (order-type abstraction)."""

    __slots__ = ("v", "tag", "log")

    def __init__(self, v: int, tag: str, log: Optional[set] = None) -> None:
        self.v = v
        self.tag = tag
        self.log = log

    def _o(self, other: Any) -> int:
        if isinstance(other, OrdInt):
            return other.v
        if isinstance(other, bool) or not isinstance(other, int):
            raise AnalysisError("CARD", f"ordinal {self.tag} compared with non-integer {other!r}")
        if self.log is not None:
            self.log.add(other)
        return other

    def __eq__(self, o: Any) -> bool:  # type: ignore[override]
        if o is None or isinstance(o, str):
            return False
        return self.v == self._o(o)

    def __ne__(self, o: Any) -> bool:  # type: ignore[override]
        return not self.__eq__(o)

    def __lt__(self, o: Any) -> bool:
        return self.v < self._o(o)

    def __le__(self, o: Any) -> bool:
        return self.v <= self._o(o)

    def __gt__(self, o: Any) -> bool:
        return self.v > self._o(o)

    def __ge__(self, o: Any) -> bool:
        return self.v >= self._o(o)

    def __hash__(self) -> int:
        return hash(self.v)

    def __repr__(self) -> str:
        return f"<{self.tag}={self.v}>"

    def __index__(self) -> int:
        ARITH_ON_ORDINALS.add(self.tag)
        return self.v


class EnumVal:
    __slots__ = ("cls", "name", "value")

    def __init__(self, cls: str, name: str, value: Any) -> None:
        self.cls, self.name, self.value = cls, name, value

    def __eq__(self, o: Any) -> bool:  # type: ignore[override]
        return isinstance(o, EnumVal) and o.cls == self.cls and o.name == self.name

    def __ne__(self, o: Any) -> bool:  # type: ignore[override]
        return not self.__eq__(o)

    def __hash__(self) -> int:
        return hash((self.cls, self.name))

    def __repr__(self) -> str:
        return f"{self.cls}.{self.name}"


class AObj:
    """Abstract object of a model class: only the fields given are observable."""

    def __init__(self, cls: str, **fields: Any) -> None:
        self.__dict__["_cls"] = cls
        self.__dict__["_f"] = dict(fields)
        self.__dict__["_reads"] = set()

    def __repr__(self) -> str:
        nm = self._f.get("name") or self._f.get("data")
        return f"<{self._cls} {nm!r}>" if nm is not None else f"<{self._cls}>"


class Native:
    """Marker base: python objects standing for external library values (XML elements, parse-tree
    contexts). The evaluator uses their python protocol (attributes, call, iteration, index, len)."""


NATIVE_MODULES = ("antlr4", "uvl", "afmparser")


def is_native(v: Any) -> bool:
    if isinstance(v, Native):
        return True
    mod = getattr(type(v), "__module__", "") or ""
    return mod.split(".")[0] in NATIVE_MODULES


class AObjProxy:
    """Python-side view of an abstract object handed to a library (e.g. an error listener):
    method calls are evaluated from the analysed source."""

    def __init__(self, it: "Interp", obj: "AObj") -> None:
        self.__dict__["_it"] = it
        self.__dict__["_obj"] = obj

    def __getattr__(self, name: str) -> Any:
        it, obj = self.__dict__["_it"], self.__dict__["_obj"]
        if name in obj._f:
            return obj._f[name]
        m = it.pm.method(it.pm.cls(obj._cls), name) if it.pm.has_cls(obj._cls) else None
        if m is None:
            return lambda *a, **k: None        # inherited library behaviour: no-op
        return lambda *a, **k: it.call(m, [obj] + list(a), k)


class ClassRef:
    def __eq__(self, o: Any) -> bool:  # type: ignore[override]
        return isinstance(o, ClassRef) and o.ci is self.ci

    def __hash__(self) -> int:
        return hash(self.ci.qual)

    def __init__(self, ci: ClassInfo) -> None:
        self.ci = ci


class FuncRef:
    def __init__(self, fi: FuncInfo, attrs: Optional[dict[str, Any]] = None, raw: bool = False) -> None:
        self.fi = fi
        self.attrs: dict[str, Any] = attrs if attrs is not None else {}
        self.raw = raw           # the function body itself, below its decorators


class AProperty:
    """property(fget, fset) created at run time and stored on a class."""
    def __init__(self, fget: Any = None, fset: Any = None, doc: Any = None) -> None:
        self.fget, self.fset, self.doc = fget, fset, doc


class AClassMethod:
    def __init__(self, func: Any) -> None:
        self.func = func


class AStaticMethod:
    def __init__(self, func: Any) -> None:
        self.func = func


class Dispatcher:
    """functools.singledispatch / singledispatchmethod object of the function `base`."""
    def __init__(self, base: FuncInfo, method: bool) -> None:
        self.base, self.method = base, method


class BoundMethod:
    def __init__(self, obj: Any, fi: FuncInfo, attrs: Optional[dict[str, Any]] = None) -> None:
        self.obj, self.fi = obj, fi
        self.attrs: dict[str, Any] = attrs if attrs is not None else {}


class ModuleRef:
    def __init__(self, name: str) -> None:
        self.name = name


class SuperProxy:
    """super() inside a method: attribute lookup continues after the current class in the MRO."""

    def __init__(self, obj: Any, fi: FuncInfo) -> None:
        self.obj, self.fi = obj, fi


class Lambda:
    def __init__(self, node: ast.Lambda, env: dict, fi: Optional[FuncInfo], defaults: Optional[dict] = None) -> None:
        self.node, self.env, self.fi = node, env, fi
        self.defaults = defaults or {}        # evaluated when the lambda expression is evaluated


class LocalFunc:
    """A function defined inside a function: evaluated in the defining scope's environment."""

    def __init__(self, node: ast.FunctionDef, env: dict, fi: Optional[FuncInfo], defaults: Optional[dict] = None,
                 cached: bool = False) -> None:
        self.node, self.env, self.fi = node, env, fi
        self.defaults = defaults or {}        # evaluated when the def statement runs
        self.cached = cached                  # decorated with functools.lru_cache / cache
        self.memo: list[tuple[Any, Any, Any]] = []
        self.attrs: dict[str, Any] = {}       # function attributes set later (f.__doc__ = ..., setattr(f, ...))


class BoundWrapper:
    """A wrapper closure (what a decorator returned for a method) bound to an instance."""
    def __init__(self, obj: Any, func: "LocalFunc") -> None:
        self.obj, self.func = obj, func


_CMP: dict[type, Callable[[Any, Any], bool]] = {
    ast.Eq: operator.eq, ast.NotEq: operator.ne, ast.Lt: operator.lt, ast.LtE: operator.le,
    ast.Gt: operator.gt, ast.GtE: operator.ge,
}

_BUILTIN_TYPES = {"int": int, "float": float, "str": str, "bool": bool, "list": list,
                  "tuple": tuple, "dict": dict, "set": set}


GLOBAL_STATE: dict[str, dict[Any, Any]] = {"modconst": {}, "lru": {}, "defaults": {}, "class_attrs": {}}


def reset_global_state() -> None:
    """Forget module-level values and memoisation caches (a 'fresh interpreter process')."""
    GLOBAL_STATE["modconst"].clear()
    GLOBAL_STATE["lru"].clear()
    GLOBAL_STATE["defaults"].clear()
    GLOBAL_STATE["class_attrs"].clear()


_CACHE_DECORATORS = ("lru_cache", "cache", "functools.lru_cache", "functools.cache")


class Interp:
    """Evaluator of the formula fragment over abstract objects."""

    TOP_CALLS = 0          # top-level evaluations in this process (reported in evidence)
    TOTAL_STEPS = 0
    ACTIVE: Any = None     # the evaluator whose top-level call is in progress
    LAST: Any = None       # the evaluator created last (used when a stand-in is called outside any top-level call)

    def __init__(self, pm: ProgramModel, max_depth: int = 14,
                 native: Optional[dict[str, Callable[..., Any]]] = None) -> None:
        self.pm = pm
        Interp.LAST = self
        self.max_depth = max_depth
        self.depth = 0
        self.steps = 0
        self.deepest = 0            # deepest nesting of calls of analysed functions seen so far
        self.native = dict(native or {})  # qualname -> python callable overriding a callee
        self._default_natives()
        # module-level values live as long as the process: shared by all evaluators (reset_global_state)
        self._modconst: dict[tuple[str, str], Any] = GLOBAL_STATE["modconst"]
        self.called: set[str] = set()
        self.sites: set[tuple[str, int, str]] = set()     # executed construction sites
        self.set_order = "asc"       # iteration order imposed on sets: 'asc' | 'desc' (see C12-DET)
        self.set_iterations = 0

    def _default_natives(self) -> None:
        """Standard-library callables the analysed code uses, as pure functions."""
        import itertools as _it
        import statistics as _st
        real = self
        # what these stand-ins return (partial objects, attrgetters, context managers ...) can be kept in process-wide state
        # (a module constant, a class attribute, a decorated function) and used by a later evaluator instance: they work on
        # whichever evaluator is running when they are called, not on the one that created them
        self = _ACTIVE  # type: ignore[assignment]

        def prod(xs: Any, start: Any = 1) -> Any:
            r = start
            for x in self.iterate(xs):
                r = r * x
            return r

        def reduce(f: Any, xs: Any, *init: Any) -> Any:
            xs = list(self.iterate(xs))
            if init:
                acc = init[0]
            elif xs:
                acc = xs.pop(0)
            else:
                raise AbsRaise("TypeError: reduce() of empty iterable with no initial value")
            for x in xs:
                acc = self._apply2(f, acc, x)
            return acc

        def groupby(xs: Any, key: Any = None) -> Any:
            out: list[Any] = []
            for x in self.iterate(xs):
                k = x if key is None else self._apply(key, x)
                if out and self._eq(out[-1][0], k):
                    out[-1][1].append(x)
                else:
                    out.append((k, [x]))
            return iter([(k, iter(g)) for k, g in out])

        def mean(xs: Any) -> Any:
            xs = list(self.iterate(xs))
            if not xs:
                raise AbsRaise("StatisticsError: mean requires at least one data point")
            return _st.mean(xs)

        def median(xs: Any) -> Any:
            xs = list(self.iterate(xs))
            if not xs:
                raise AbsRaise("StatisticsError: no median for empty data")
            return _st.median(xs)
        def re_sub(pattern: Any, repl: Any, string: Any, count: int = 0, flags: int = 0) -> Any:
            import re as _re
            if not isinstance(string, str) or not isinstance(repl, str):
                raise AbsRaise("TypeError: expected string or bytes-like object")
            return _re.sub(pattern, repl, string, count=count, flags=flags)
        def deepcopy(v: Any, memo: Any = None) -> Any:
            seen: dict[int, Any] = {}

            def cp(x: Any) -> Any:
                if isinstance(x, AObj):
                    if id(x) in seen:
                        return seen[id(x)]
                    y = AObj(x._cls)
                    seen[id(x)] = y
                    for k, val in x._f.items():
                        if k != "_frozen":
                            y._f[k] = cp(val)
                    return y
                if isinstance(x, list):
                    return [cp(i) for i in x]
                if isinstance(x, tuple):
                    return tuple(cp(i) for i in x)
                if isinstance(x, dict):
                    return {cp(k): cp(i) for k, i in x.items()}
                if isinstance(x, (set, frozenset)):
                    return type(x)(cp(i) for i in x)
                return x
            return cp(v)

        def shallow(v: Any) -> Any:
            if isinstance(v, AObj):
                y = AObj(v._cls)
                for k, val in v._f.items():
                    if k != "_frozen":
                        y._f[k] = val
                return y
            if isinstance(v, list):
                return list(v)
            if isinstance(v, dict):
                return dict(v)
            if isinstance(v, set):
                return set(v)
            return v

        class _Logger(Native):
            def __getattr__(self, name: str) -> Any:
                return lambda *a, **k: None

        def attrgetter(*names: str) -> Any:
            def get(o: Any) -> Any:
                vals = []
                for nm in names:
                    cur = o
                    for part in nm.split("."):
                        cur = self.getattr(cur, part, ast.Constant(value=None), None)
                    vals.append(cur)
                return vals[0] if len(vals) == 1 else tuple(vals)
            get._raw = True  # type: ignore[attr-defined]
            return get

        def itemgetter(*keys: Any) -> Any:
            def item(o: Any, k: Any) -> Any:
                try:
                    return o[self.canon_key(o, k)] if isinstance(o, dict) else o[k]
                except (KeyError, IndexError, TypeError) as exc:
                    raise AbsRaise(f"{type(exc).__name__}: {exc}") from exc

            def get(o: Any) -> Any:
                return item(o, keys[0]) if len(keys) == 1 else tuple(item(o, k) for k in keys)
            get._raw = True  # type: ignore[attr-defined]
            return get
        import collections as _c
        import re as _re2

        def counter(xs: Any = (), **kw: Any) -> Any:
            items = list(xs.items()) if isinstance(xs, dict) else list(self.iterate(xs))
            if any(self._has_abs(x) for x in items):
                raise AnalysisError("ABSINT", "Counter over abstract objects outside fragment")
            return _c.Counter(xs if isinstance(xs, dict) else items, **kw)

        def defaultdict(factory: Any = None, *a: Any, **kw: Any) -> Any:
            if isinstance(factory, tuple) and factory and factory[0] == "builtin" and factory[1] in _BUILTIN_TYPES:
                fac: Any = _BUILTIN_TYPES[factory[1]]
            elif factory is None:
                fac = None
            else:
                fac = self.pyfunc(factory)
            return _c.defaultdict(fac, *a, **kw)

        def number_ctor(mod: str, cls: str) -> Any:
            def make(*a: Any) -> Any:
                import importlib
                if any(isinstance(x, (AObj, OrdInt)) for x in a):
                    raise AbsRaise(f"TypeError: conversion of an object to {cls}")
                try:
                    return getattr(importlib.import_module(mod), cls)(*a)
                except (ValueError, TypeError, ArithmeticError) as exc:
                    raise AbsRaise(f"{type(exc).__name__}: {exc}") from exc
            return make

        def raw(fn: Any) -> Any:
            """A callable of the evaluator itself: receives abstract values as they are (no proxies)."""
            fn._raw = True
            return fn

        def methodcaller(name: str, *margs: Any, **mkw: Any) -> Any:
            node = ast.Attribute(value=ast.Name(id="obj", ctx=ast.Load()), attr=name, ctx=ast.Load())
            return raw(lambda o: self.apply_value(self.getattr(o, name, node, None), list(margs), dict(mkw),
                                                  ast.Constant(value=None), "", None))

        def partial(f: Any, *a: Any, **k: Any) -> Any:
            return raw(lambda *b, **k2: self.apply_value(f, list(a) + list(b), {**k, **k2}, ast.Constant(value=None), "", None))

        def re_call(fname: str) -> Any:
            def run(*a: Any, **k: Any) -> Any:
                a2 = [self.pyfunc(x) if isinstance(x, (Lambda, FuncRef, BoundMethod, LocalFunc)) or
                      (isinstance(x, tuple) and x and x[0] == "pymethod") else x for x in a]
                if any(isinstance(x, (AObj, OrdInt)) for x in a2):
                    raise AbsRaise("TypeError: expected string or bytes-like object")
                try:
                    return getattr(_re2, fname)(*a2, **k)
                except TypeError as exc:
                    raise AbsRaise(f"TypeError: {exc}") from exc
            return run
        def mapping_proxy(m: Any) -> Any:
            import types as _types
            if not isinstance(m, dict) or any(self._has_abs(k_) for k_ in m):
                raise AnalysisError("ABSINT", "MappingProxyType over a mapping keyed by abstract objects outside fragment")
            return _types.MappingProxyType(m)              # a read-only *view*: later changes of m show through

        def chain_map(*maps: Any) -> Any:
            if any(not (isinstance(m, dict) or type(m).__name__ == "mappingproxy") or any(self._has_abs(k_) for k_ in m) for m in maps):
                raise AnalysisError("ABSINT", "ChainMap over mappings keyed by abstract objects outside fragment")
            return _c.ChainMap(*maps)

        d = {
            "copy.deepcopy": deepcopy,
            "copy.copy": shallow,
            "operator.attrgetter": attrgetter,
            **{f"operator.{nm}": (lambda x, y, _op=op, _ip=ip: self.binop(_op, x, y, ast.Constant(value=None), inplace=_ip))
               for nm, op, ip in (("add", ast.Add(), False), ("iadd", ast.Add(), True), ("sub", ast.Sub(), False),
                                  ("mul", ast.Mult(), False), ("imul", ast.Mult(), True), ("or_", ast.BitOr(), False),
                                  ("ior", ast.BitOr(), True), ("and_", ast.BitAnd(), False), ("iand", ast.BitAnd(), True),
                                  ("concat", ast.Add(), False), ("iconcat", ast.Add(), True),
                                  ("truediv", ast.Div(), False), ("floordiv", ast.FloorDiv(), False),
                                  ("mod", ast.Mod(), False), ("xor", ast.BitXor(), False))},
            **{f"operator.{nm}": (lambda x, y, _op=op: self.compare(_op, x, y, ast.Constant(value=None)))
               for nm, op in (("eq", ast.Eq()), ("ne", ast.NotEq()), ("lt", ast.Lt()), ("le", ast.LtE()),
                              ("gt", ast.Gt()), ("ge", ast.GtE()), ("is_", ast.Is()), ("is_not", ast.IsNot()),
                              )},
            "operator.contains": lambda x, y: self.compare(ast.In(), y, x, ast.Constant(value=None)),
            "operator.not_": lambda x: not self.truth(x),
            "operator.truth": lambda x: self.truth(x),
            "operator.itemgetter": itemgetter,
            "logging.getLogger": lambda *a, **k: _Logger(),
            "logging.warn": lambda *a, **k: None,
            "logging.exception": lambda *a, **k: None,
            "logging.critical": lambda *a, **k: None,
            "warnings.warn": lambda *a, **k: None,
            "collections.OrderedDict": lambda *a, **k: _c.OrderedDict(*a, **k),
            "collections.Counter": counter,
            "collections.defaultdict": defaultdict,
            "collections.deque": lambda xs=(), maxlen=None: ADeque(self.iterate(xs)) if maxlen is None else
            (_ for _ in ()).throw(AnalysisError("ABSINT", "deque(maxlen=...) outside fragment")),
            **{f"re.{fn}": re_call(fn) for fn in ("sub", "subn", "escape", "compile", "match", "fullmatch", "search",
                                                   "findall", "finditer", "split")},
            **{f"re.{c}": getattr(_re2, c) for c in ("IGNORECASE", "I", "MULTILINE", "M", "DOTALL", "S", "VERBOSE", "X",
                                                     "ASCII", "A", "UNICODE", "U")},
            "operator.methodcaller": methodcaller,
            "sys.getrecursionlimit": lambda: 1000,
            "contextlib.suppress": lambda *excs: _Suppress({(e.ci.name if isinstance(e, ClassRef) else
                                                             (e[1] if isinstance(e, tuple) else getattr(e, "name", str(e)).split(".")[-1]))
                                                            for e in excs}),
            "contextlib.nullcontext": lambda v=None: _Suppress(set()) if v is None else
            (_ for _ in ()).throw(AnalysisError("ABSINT", "nullcontext(value) outside fragment")),
            "io.StringIO": lambda *a: __import__("io").StringIO(*a),
            "io.BytesIO": lambda *a: __import__("io").BytesIO(*a),
            "decimal.Decimal": number_ctor("decimal", "Decimal"),
            "fractions.Fraction": number_ctor("fractions", "Fraction"),
            "math.prod": prod,
            "itertools.combinations": lambda xs, k: iter(list(_it.combinations(list(self.iterate(xs)), k))),
            "itertools.product": lambda *xs, repeat=1: iter(list(_it.product(*[list(self.iterate(x)) for x in xs], repeat=repeat))),
            "itertools.chain": lambda *xs: _it.chain(*[self.iterate(x) for x in xs]),     # lazy: an operand may be endless
            "itertools.count": lambda start=0, step=1: _it.count(start, step),
            "itertools.cycle": lambda xs: _it.cycle(list(self.iterate(xs))),
            "functools.reduce": reduce,
            "itertools.groupby": groupby,
            "itertools.permutations": lambda xs, k=None: iter(list(_it.permutations(list(self.iterate(xs)), k))),
            "itertools.accumulate": lambda xs, func=None, *, initial=None: _acc(         # lazy: the source may be endless
                self, xs if initial is None else _it.chain([initial], self.iterate(xs)), func),
            "itertools.islice": lambda xs, *a: _it.islice(iter(self.iterate(xs)), *a),
            "itertools.zip_longest": lambda *xs, fillvalue=None: iter(list(_it.zip_longest(*[list(self.iterate(x)) for x in xs], fillvalue=fillvalue))),
            "itertools.repeat": lambda x, k=None: iter([x] * k) if k is not None else _it.repeat(x),
            "itertools.starmap": lambda f, xs: iter([self.apply_value(f, list(self.iterate(a)), {}, ast.Constant(value=None), "", None) for a in self.iterate(xs)]),
            "itertools.takewhile": lambda f, xs: _it.takewhile(lambda x: self.truth(self._apply(f, x)), iter(self.iterate(xs))),
            "itertools.dropwhile": lambda f, xs: iter(list(_it.dropwhile(lambda x: self.truth(self._apply(f, x)), list(self.iterate(xs))))),
            "itertools.filterfalse": lambda f, xs: iter([x for x in self.iterate(xs) if not self.truth(self._apply(f, x) if f is not None else x)]),
            "itertools.chain.from_iterable": lambda xs: _it.chain.from_iterable(map(self.iterate, self.iterate(xs))),
            "functools.partial": partial,
            "dataclasses.asdict": lambda o: self._dc_asdict(o),
            "dataclasses.astuple": lambda o: tuple(self._dc_asdict(o).values()),
            "dataclasses.replace": lambda o, **ch: self._dc_replace(o, ch),
            "dataclasses.is_dataclass": lambda o: isinstance(o, AObj) and o._f.get("_record") is not None or
            (isinstance(o, ClassRef) and (self.pm.record_kind(o.ci) or ("",))[0] == "dataclass"),
            "contextlib.contextmanager": lambda f: raw(lambda *a, **k: self._as_cm(self.apply_value(f, list(a), dict(k), ast.Constant(value=None), "", None))),
            "itertools.compress": lambda data, sel: iter([d_ for d_, s_ in zip(self.iterate(data), self.iterate(sel)) if self.truth(s_)]),
            "itertools.pairwise": lambda xs: iter(list(_it.pairwise(list(self.iterate(xs))))),
            "itertools.batched": lambda xs, k: iter([tuple(b_) for b_ in _batched(list(self.iterate(xs)), k)]),
            "itertools.tee": lambda xs, k=2: tuple(iter(list(c_)) for c_ in [list(self.iterate(xs))] * k),
            "types.MethodType": lambda f, obj: self._bind_callable(f, obj),
            "types.MappingProxyType": mapping_proxy,
            # weak containers: entries live as long as their keys / values do - within one evaluation every object the
            # analysed code can still reach is alive, so they behave as their strong counterparts
            "weakref.WeakKeyDictionary": lambda *a, **k: dict(*a, **k),
            "weakref.WeakValueDictionary": lambda *a, **k: dict(*a, **k),
            "weakref.WeakSet": lambda xs=(): set(self.dedupe(self.iterate(xs))),
            "weakref.ref": lambda o, cb=None: raw(lambda: o),
            "types.SimpleNamespace": lambda **k: AObj("SimpleNamespace", **k),
            "collections.ChainMap": chain_map,
            "sys.intern": lambda x: x,
            "abc.update_abstractmethods": lambda c: c,
            "functools.update_wrapper": lambda w, f, *a, **k: self._copy_wrapper_attrs(w, f),
            "functools.wraps": lambda f, *a, **k: raw(lambda w: self._copy_wrapper_attrs(w, f)),
            "statistics.mean": mean,
            "statistics.median": median,
            "logging.warning": lambda *a, **k: None,
            "logging.error": lambda *a, **k: None,
            "logging.info": lambda *a, **k: None,
            "logging.debug": lambda *a, **k: None,
        }
        for k, v in d.items():
            real.native.setdefault(k, v)

    # -- entry -------------------------------------------------------------------------------
    def call(self, fi: FuncInfo, args: list[Any], kwargs: Optional[dict[str, Any]] = None,
             skip_native: bool = False, raw: bool = False) -> Any:
        if self.depth == 0 and Interp.ACTIVE is not self:
            prev = Interp.ACTIVE
            Interp.ACTIVE = self
            try:
                return self.call(fi, args, kwargs, skip_native, raw)
            finally:
                Interp.ACTIVE = prev
        kwargs = kwargs or {}
        if getattr(fi, "dyn_value", None) is not None:
            dv = fi.dyn_value           # type: ignore[attr-defined]
            if isinstance(dv, AClassMethod) and args and not isinstance(args[0], ClassRef):
                args = [ClassRef(fi.cls)] + list(args[1:]) if fi.cls is not None else args
            dv = dv.func if isinstance(dv, (AStaticMethod, AClassMethod)) else dv
            if isinstance(dv, tuple) and len(dv) == 2 and dv[0] == "descriptor":
                # a descriptor / callable object stored in the class body: what `obj.name` gives, called with the rest
                if not args:
                    raise AbsRaise(f"TypeError: {fi.name}() missing the object it is called on")
                bound = self.getattr(args[0], fi.name, fi.node, None)
                return self.apply_value(bound, list(args[1:]), kwargs, fi.node, loc(fi.unit.path, fi.node), None)
            return self.apply_value(dv, list(args), kwargs, fi.node, loc(fi.unit.path, fi.node), None)
        if fi.qual in self.native and not skip_native:
            return self.native[fi.qual](*args, **kwargs)
        if not raw and fi.node.decorator_list:
            w = self.wrapper_of(fi)
            if isinstance(w, Dispatcher):
                return self.dispatch(w, args, kwargs)
            if w is not None:
                return self.apply_value(w, args, kwargs, fi.node, loc(fi.unit.path, fi.node), fi)
        self.called.add(fi.qual)
        memo_key = None
        if fi.node.decorator_list and any(ast.unparse(d).split("(")[0] in _CACHE_DECORATORS
                                          for d in fi.node.decorator_list):
            # functools caches are process-global and keyed by the arguments' own __hash__/__eq__
            try:
                memo_key = (fi.qual, self.hash_key(tuple(args)), tuple(sorted((k, self.hash_key(v)) for k, v in kwargs.items())))
            except AbsRaise:
                memo_key = None
            if memo_key is not None and memo_key in GLOBAL_STATE["lru"]:
                return GLOBAL_STATE["lru"][memo_key]
        if memo_key is not None:
            res = self._call_body(fi, args, kwargs)
            GLOBAL_STATE["lru"][memo_key] = res
            return res
        return self._call_body(fi, args, kwargs)

    def _call_body(self, fi: FuncInfo, args: list[Any], kwargs: dict[str, Any]) -> Any:
        if self.depth == 0:
            Interp.TOTAL_STEPS += self.steps
            self.steps = 0
            Interp.TOP_CALLS += 1
        self.depth += 1
        if self.depth > self.deepest:
            self.deepest = self.depth
        if self.depth > self.max_depth:
            self.depth -= 1
            raise AnalysisError("ABSINT", f"inlining bound {self.max_depth} exceeded at {fi.qual}")
        try:
            self.ensure_module_init(fi.unit)
            env = self._bind(fi, args, kwargs)
            if self._is_generator(fi.node):
                return self._make_gen(fi.node.body, env, fi, fi.qual)
            try:
                self.exec_block(fi.node.body, env, fi)
            except _Return as r:
                return r.value
            return None
        finally:
            self.depth -= 1

    @staticmethod
    def _exc_kind(exc: AbsRaise) -> str:
        import re as _re
        mk = _re.match(r"[A-Za-z_][A-Za-z0-9_.]*", exc.what.strip())
        return (mk.group(0) if mk else "Exception").split(".")[-1]

    def _exc_type(self, exc: AbsRaise) -> Any:
        k = self._exc_kind(exc)
        return ClassRef(self.pm.cls(k)) if self.pm.has_cls(k) else ("exc", k)

    def _gencm_enter(self, cm: "_GenCM", exits: list[Any], where: str) -> Any:
        """__enter__ / __exit__ of what contextlib.contextmanager makes of a generator."""
        gen = cm.gen
        try:
            val = next(gen)
        except StopIteration:
            raise AbsRaise("RuntimeError: generator didn't yield", where) from None

        def leave(exc: Optional[AbsRaise]) -> bool:
            if exc is None:
                try:
                    next(gen)
                except StopIteration:
                    return False
                raise AbsRaise("RuntimeError: generator didn't stop", where)
            try:
                gen.throw(exc)
            except StopIteration:
                return True                    # the generator caught it and finished: suppressed
            except AbsRaise as again:
                if again is exc:
                    return False               # re-raised as it was: the with statement lets it through
                raise
            raise AbsRaise("RuntimeError: generator didn't stop after throw()", where)
        exits.append(leave)
        return val

    def _dc_asdict(self, o: Any) -> Any:
        if isinstance(o, AObj) and o._f.get("_record") is not None:
            return {k: self._dc_asdict(o._f[k]) for k in o._f["_record"][2]}
        if isinstance(o, (list, tuple)) and not hasattr(o, "_fields"):
            return type(o)(self._dc_asdict(x) for x in o)
        if isinstance(o, dict):
            return {k: self._dc_asdict(x) for k, x in o.items()}
        if isinstance(o, AObj):
            raise AbsRaise("TypeError: asdict() should be called on dataclass instances")
        return o

    def _dc_replace(self, o: Any, changes: dict[str, Any]) -> Any:
        if not (isinstance(o, AObj) and o._f.get("_record") is not None and self.pm.has_cls(o._cls)):
            raise AbsRaise("TypeError: replace() should be called on dataclass instances")
        ci = self.pm.cls(o._cls)
        rk = self.pm.record_kind(ci)
        init_names = [n for n, d in self.pm.record_fields(ci)
                      if not (isinstance(d, ast.Call) and ast.unparse(d.func) in ("field", "dataclasses.field") and
                              any(k.arg == "init" and isinstance(k.value, ast.Constant) and k.value.value is False for k in d.keywords))]
        kw = {n: o._f[n] for n in init_names}
        for k in changes:
            if k not in init_names:
                raise AbsRaise(f"TypeError: {o._cls}.__init__() got an unexpected keyword argument {k!r}")
        kw.update(changes)
        return self.make_record(ci, rk, AObj(ci.name, _complete=True), [], kw, "")  # type: ignore[arg-type]

    def _fmt_wrap(self, x: Any) -> Any:
        """A value as %-formatting / str.format see it: objects of the analysed code answer with their own __str__ / __repr__."""
        if isinstance(x, (AObj, EnumVal)) or (isinstance(x, tuple) and hasattr(x, "_fields") and self.pm.has_cls(type(x).__name__)):
            return _FmtView(self, x)
        return x

    def _as_cm(self, gen: Any) -> "_GenCM":
        if not isinstance(gen, AGen):
            raise AbsRaise("TypeError: the function given to contextmanager is not a generator function")
        return _GenCM(gen)

    def _copy_wrapper_attrs(self, w: Any, f: Any) -> Any:
        """functools.wraps / update_wrapper: name, qualname, doc and the attribute dictionary of f appear on w."""
        if isinstance(w, (LocalFunc, FuncRef, BoundMethod)):
            node_ = ast.Constant(value=None)
            for a_ in ("__name__", "__qualname__", "__doc__", "__module__"):
                try:
                    w.attrs[a_] = self.getattr(f, a_, node_, None)
                except (AbsRaise, AnalysisError):
                    pass
            if isinstance(f, (LocalFunc, FuncRef, BoundMethod)):
                for k_, v_ in f.attrs.items():
                    w.attrs.setdefault(k_, v_)
            w.attrs["__wrapped__"] = f
        return w

    def _make_gen(self, body: list[ast.stmt], env: dict[str, Any], fi: Optional[FuncInfo], label: str,
                  after: Optional[Callable[[], None]] = None) -> AGen:
        """Calling a generator function binds its arguments and returns the generator; the body runs when it is advanced."""
        def run(gen: AGen) -> Any:
            env["__gen__"] = gen
            me = gen.interp                      # the evaluator that advances the generator
            me.depth += 1
            if me.depth > me.deepest:
                me.deepest = me.depth
            try:
                if me.depth > me.max_depth:
                    raise AnalysisError("ABSINT", f"inlining bound {me.max_depth} exceeded at generator {label}")
                try:
                    me.exec_block(body, env, fi)
                except _Return as r:
                    return r.value
                return None
            finally:
                gen.interp.depth -= 1
                if after is not None:
                    after()
        return AGen(self, run, label)

    def _default(self, fi: FuncInfo, name: str, d: ast.expr) -> Any:
        """Default values are evaluated once (at definition time) and shared by every call: a mutable
        default that is mutated later is visible to all objects that received it."""
        if isinstance(d, ast.Constant):
            return d.value
        key = (fi.qual, name)
        store = GLOBAL_STATE["defaults"]
        if key not in store:
            store[key] = self.eval(d, {}, fi)
        return store[key]

    def eval_call_class(self, ci: ClassInfo, args: Optional[list[Any]] = None) -> Any:
        """Construct an abstract instance by evaluating the class's __init__ from source."""
        if self.depth == 0 and Interp.ACTIVE is not self:
            prev = Interp.ACTIVE
            Interp.ACTIVE = self
            try:
                return self.eval_call_class(ci, args)
            finally:
                Interp.ACTIVE = prev
        return self.apply_value(ClassRef(ci), list(args or []), {}, ast.Constant(value=None), "", None)

    def call_local(self, f: "LocalFunc", args: list[Any], kwargs: dict[str, Any]) -> Any:
        if f.cached:
            key = (self.hash_key(tuple(args)), tuple(sorted((k, self.hash_key(v)) for k, v in kwargs.items())))
            for k0, a0, r0 in f.memo:
                if k0 == key and all(self._eq(x, y) for x, y in zip(a0, args)):
                    return r0
            f.cached = False
            try:
                res = self.call_local(f, args, kwargs)
            finally:
                f.cached = True
            f.memo.append((key, list(args), res))
            return res
        a = f.node.args
        e2 = dict(f.env)                      # enclosing scope (shared mutable objects stay shared)
        e2[f.node.name] = f
        e2.update(self._bind_local(a, f.node.name, f.defaults, args, kwargs))
        self.depth += 1
        if self.depth > self.deepest:
            self.deepest = self.depth
        if self.depth > self.max_depth:
            self.depth -= 1
            raise AnalysisError("ABSINT", f"inlining bound {self.max_depth} exceeded at local {f.node.name}")
        outer_names = [nm for st_ in ast.walk(f.node) if isinstance(st_, ast.Nonlocal) for nm in st_.names]

        def publish() -> None:
            for nm in outer_names:           # `nonlocal x`: the enclosing scope sees the assignment
                if nm in e2:
                    f.env[nm] = e2[nm]
        if self._is_generator(f.node):
            self.depth -= 1
            return self._make_gen(f.node.body, e2, f.fi, f.node.name, after=publish)
        try:
            try:
                self.exec_block(f.node.body, e2, f.fi)
            except _Return as r:
                return r.value
            return None
        finally:
            publish()
            self.depth -= 1

    def _def_defaults(self, a: ast.arguments, env: dict[str, Any], fi: Optional[FuncInfo]) -> dict[str, Any]:
        names = [x.arg for x in a.posonlyargs + a.args]
        out: dict[str, Any] = {}
        for nm, d in zip(names[len(names) - len(a.defaults):] if a.defaults else [], a.defaults):
            out[nm] = self.eval(d, env, fi)
        for kw, d in zip(a.kwonlyargs, a.kw_defaults):
            if d is not None:
                out[kw.arg] = self.eval(d, env, fi)
        return out

    def _bind_local(self, a: ast.arguments, label: str, defaults: dict[str, Any], args: list[Any],
                    kwargs: dict[str, Any]) -> dict[str, Any]:
        """Python's argument binding for a nested function or lambda (TypeError as Python raises it)."""
        names = [x.arg for x in a.posonlyargs + a.args]
        kwonly = [x.arg for x in a.kwonlyargs]
        env: dict[str, Any] = {}
        if len(args) > len(names) and a.vararg is None:
            raise AbsRaise(f"TypeError: {label}() takes {len(names)} positional arguments but {len(args)} were given")
        for nm, v in zip(names, args):
            env[nm] = v
        if a.vararg is not None:
            env[a.vararg.arg] = tuple(args[len(names):])
        extra: dict[str, Any] = {}
        for k, v in kwargs.items():
            if k in env and k in names:
                raise AbsRaise(f"TypeError: {label}() got multiple values for argument {k!r}")
            if k in names or k in kwonly:
                env[k] = v
            elif a.kwarg is not None:
                extra[k] = v
            else:
                raise AbsRaise(f"TypeError: {label}() got an unexpected keyword argument {k!r}")
        if a.kwarg is not None:
            env[a.kwarg.arg] = extra
        for nm in names + kwonly:
            if nm not in env:
                if nm in defaults:
                    env[nm] = defaults[nm]
                else:
                    raise AbsRaise(f"TypeError: {label}() missing required argument {nm!r}")
        return env

    def _bind(self, fi: FuncInfo, args: list[Any], kwargs: dict[str, Any]) -> dict[str, Any]:
        a = fi.node.args
        names = [x.arg for x in a.posonlyargs + a.args]
        env: dict[str, Any] = {}
        if len(args) > len(names):
            if a.vararg is None:
                raise AnalysisError("ABSINT", f"too many arguments for {fi.qual}")
            env[a.vararg.arg] = tuple(args[len(names):])
        elif a.vararg is not None:
            env[a.vararg.arg] = ()
        for n, v in zip(names, args):
            env[n] = v
        defaults = a.defaults
        dnames = names[len(names) - len(defaults):] if defaults else []
        for n, d in zip(dnames, defaults):
            if n not in env and n not in kwargs:
                env[n] = self._default(fi, n, d)
        known = set(names) | {x.arg for x in a.kwonlyargs}
        extra: dict[str, Any] = {}
        for k, v in kwargs.items():
            if k in known:
                env[k] = v
            elif a.kwarg is not None:
                extra[k] = v
            else:
                raise AbsRaise(f"TypeError unexpected keyword argument {k!r} for {fi.qual}")
        if a.kwarg is not None:
            env[a.kwarg.arg] = extra
        for kw, d in zip(a.kwonlyargs, a.kw_defaults):
            if kw.arg not in env and d is not None:
                env[kw.arg] = self._default(fi, kw.arg, d)
        for n in names:
            if n not in env:
                raise AbsRaise(f"TypeError: {fi.name}() missing 1 required positional argument: '{n}'", loc(fi.unit.path, fi.node))
        return env

    # -- statements ---------------------------------------------------------------------------
    def exec_block(self, stmts: list[ast.stmt], env: dict[str, Any], fi: Optional[FuncInfo]) -> None:
        for st in stmts:
            self.exec_stmt(st, env, fi)

    def exec_stmt(self, st: ast.stmt, env: dict[str, Any], fi: Optional[FuncInfo]) -> None:
        self.steps += 1
        if self.steps > 2_000_000:
            raise AnalysisError("ABSINT", "step bound exceeded")
        if isinstance(st, ast.Return):
            raise _Return(self.eval(st.value, env, fi) if st.value is not None else None)
        if isinstance(st, ast.If):
            if self.truth(self.eval(st.test, env, fi)):
                self.exec_block(st.body, env, fi)
            else:
                self.exec_block(st.orelse, env, fi)
            return
        if isinstance(st, ast.Assign):
            v = self.eval(st.value, env, fi)
            for t in st.targets:
                self.assign(t, v, env, fi)
            return
        if isinstance(st, ast.AnnAssign):
            if st.value is not None:
                self.assign(st.target, self.eval(st.value, env, fi), env, fi)
            return
        if isinstance(st, ast.AugAssign):
            cur = self.eval(_load(st.target), env, fi)
            v = self.binop(st.op, cur, self.eval(st.value, env, fi), st, inplace=True)
            self.assign(st.target, v, env, fi)
            return
        if isinstance(st, ast.Expr):
            if isinstance(st.value, ast.Constant):
                return  # docstring
            self.eval(st.value, env, fi)
            return
        if isinstance(st, (ast.Pass, ast.Nonlocal)):
            return
        if isinstance(st, ast.Global):
            raise AnalysisError("ABSINT", "global statement outside fragment", loc(fi.unit.path, st) if fi else "")
        if isinstance(st, ast.Delete):
            for t_ in st.targets:
                if isinstance(t_, ast.Name):
                    env.pop(t_.id, None)
                elif isinstance(t_, ast.Subscript):
                    obj_ = self.eval(t_.value, env, fi)
                    if getattr(obj_, "_frozen", False):
                        raise AbsMutation(f"del on an input container ({src(t_)})", loc(fi.unit.path, st) if fi else "")
                    idx_ = self.eval(t_.slice, env, fi) if not isinstance(t_.slice, ast.Slice) else slice(
                        self.eval(t_.slice.lower, env, fi) if t_.slice.lower else None,
                        self.eval(t_.slice.upper, env, fi) if t_.slice.upper else None,
                        self.eval(t_.slice.step, env, fi) if t_.slice.step else None)
                    try:
                        del obj_[self.canon_key(obj_, idx_) if isinstance(obj_, dict) else idx_]
                    except (KeyError, IndexError) as exc:
                        raise AbsRaise(f"{type(exc).__name__} at {src(t_)}", loc(fi.unit.path, st) if fi else "") from exc
                else:
                    raise AnalysisError("ABSINT", f"del target outside fragment: {src(t_)}", loc(fi.unit.path, st) if fi else "")
            return
        if isinstance(st, ast.Raise):
            what = src(st.exc) if st.exc is not None else "re-raise"
            if isinstance(st.exc, ast.Name) and st.exc.id in env:
                held = env[st.exc.id]
                if isinstance(held, AExc):
                    what = held.text                  # `err = SomeError(...)` ... `raise err`
                elif isinstance(held, AbsRaise):
                    what = held.what                  # `except X as e: ... raise e`
                elif isinstance(held, tuple) and len(held) == 2 and held[0] == "exc":
                    what = held[1]
                elif isinstance(held, ClassRef):
                    what = held.ci.name
            raise AbsRaise(what, loc(fi.unit.path, st) if fi else "")
        if isinstance(st, ast.For):
            it = self.iterate(self.eval(st.iter, env, fi))
            broke = False
            n_iter = 0
            for x in it:
                n_iter += 1
                if n_iter > 200_000:
                    raise AnalysisError("ABSINT", "for-loop bound exceeded")
                self.assign(st.target, x, env, fi)
                try:
                    self.exec_block(st.body, env, fi)
                except _Break:
                    broke = True
                    break
                except _Continue:
                    continue
            if not broke:
                self.exec_block(st.orelse, env, fi)
            return
        if isinstance(st, ast.While):
            n = 0
            while self.truth(self.eval(st.test, env, fi)):
                n += 1
                if n > 10_000:
                    raise AnalysisError("ABSINT", "while bound exceeded")
                try:
                    self.exec_block(st.body, env, fi)
                except _Break:
                    break
                except _Continue:
                    continue
            return
        if isinstance(st, ast.With):
            swallow: set[str] = set()
            exits: list[Callable[[Optional[AbsRaise]], bool]] = []
            wh = loc(fi.unit.path, st) if fi else ""

            def unwind(pending: Optional[AbsRaise]) -> Optional[AbsRaise]:
                for ex in reversed(exits):           # innermost first; an exit may swallow or replace the exception
                    try:
                        if ex(pending):
                            pending = None
                    except AbsRaise as e2:
                        pending = e2
                return pending
            try:
                for item in st.items:
                    v = self.eval(item.context_expr, env, fi)
                    if isinstance(v, _Suppress):
                        swallow |= v.kinds
                        v = None
                    elif isinstance(v, _GenCM):
                        v = self._gencm_enter(v, exits, wh)
                    elif isinstance(v, AObj):
                        en_, ex_ = self.special(v, "__enter__"), self.special(v, "__exit__")
                        if en_ is None or ex_ is None:
                            raise AbsRaise(f"TypeError: '{v._cls}' object does not support the context manager protocol", wh)
                        mgr = v
                        v = self.apply_value(en_, [mgr], {}, st, wh, fi)
                        exits.append(lambda exc, _m=mgr, _x=ex_: self.truth(self.apply_value(
                            _x, [_m] + ([None, None, None] if exc is None else [self._exc_type(exc), exc, None]), {}, st, wh, fi)))
                    if item.optional_vars is not None:
                        self.assign(item.optional_vars, v, env, fi)
            except AbsRaise as exc:
                left = unwind(exc)                   # a later item failed to enter: the earlier ones are exited
                if left is not None:
                    raise left
                return
            try:
                self.exec_block(st.body, env, fi)
            except AbsRaise as exc:
                left = unwind(exc)
                if left is None:
                    return
                if not (({self._exc_kind(left)} | _EXC_PARENTS.get(self._exc_kind(left), {"Exception"})) & swallow):
                    if left is exc:
                        raise
                    raise left
                return
            except (_Return, _Break, _Continue):
                left = unwind(None)
                if left is not None:
                    raise left
                raise
            left = unwind(None)
            if left is not None:
                raise left
            return
        if isinstance(st, ast.Try):
            try:
                self.exec_block(st.body, env, fi)
            except AbsRaise as exc:
                if not st.handlers:
                    raise
                import re as _re
                mk = _re.match(r"[A-Za-z_][A-Za-z0-9_.]*", exc.what.strip())
                kind_ = (mk.group(0) if mk else "Exception").split(".")[-1]
                kinds = {kind_} | _EXC_PARENTS.get(kind_, {"Exception"})
                for h in st.handlers:
                    tname = ast.unparse(h.type) if h.type is not None else "BaseException"
                    names = set(_re.findall(r"[A-Za-z_][A-Za-z0-9_]*", tname))
                    if names & {"Exception", "BaseException"} or names & kinds:
                        if h.name:
                            env[h.name] = exc
                        try:
                            self.exec_block(h.body, env, fi)
                        except AbsRaise as inner:
                            if inner.what == "re-raise" or (h.name and inner.what == h.name):
                                raise exc from None
                            raise
                        break
                else:
                    raise
            else:
                self.exec_block(st.orelse, env, fi)
            finally:
                self.exec_block(st.finalbody, env, fi)      # also on return/break/continue/unhandled raise
            return
        if isinstance(st, ast.Match):
            subject = self.eval(st.subject, env, fi)
            for case in st.cases:
                binds: dict[str, Any] = {}
                if self._match(case.pattern, subject, binds, env, fi):
                    env.update(binds)
                    if case.guard is not None and not self.truth(self.eval(case.guard, env, fi)):
                        continue
                    self.exec_block(case.body, env, fi)
                    return
            return
        if isinstance(st, ast.FunctionDef):
            lf = LocalFunc(st, env, fi, self._def_defaults(st.args, env, fi), False)
            cur_f: Any = lf
            for d_ in reversed(st.decorator_list):
                dn = ast.unparse(d_).split("(")[0]
                if dn in _CACHE_DECORATORS and cur_f is lf:
                    lf.cached = True
                    continue
                if dn in ("staticmethod", "classmethod", "property"):
                    cur_f = self.builtin(dn, [cur_f], {}, d_, loc(fi.unit.path, st) if fi else "")
                    continue
                dec_v = self.eval(d_, env, fi)
                cur_f = self.apply_value(dec_v, [cur_f], {}, d_, loc(fi.unit.path, st) if fi else "", fi)
            env[st.name] = cur_f
            return
        if isinstance(st, ast.Import):
            for a in st.names:
                env[a.asname or a.name.split(".")[0]] = ModuleRef(a.name if a.asname else a.name.split(".")[0])
            return
        if isinstance(st, ast.ImportFrom):
            for a in st.names:
                tgt = f"{st.module}.{a.name}"
                if tgt in self.pm.functions:
                    env[a.asname or a.name] = FuncRef(self.pm.functions[tgt])
                elif tgt in self.pm.classes:
                    env[a.asname or a.name] = ClassRef(self.pm.classes[tgt])
                elif a.name in self.pm.class_by_name and not st.module.startswith(("typing", "collections")):
                    env[a.asname or a.name] = ClassRef(self.pm.cls(a.name))
                else:
                    env[a.asname or a.name] = ModuleRef(tgt)
            return
        if isinstance(st, (ast.Global, ast.Nonlocal, ast.Assert, ast.Delete)):
            if isinstance(st, ast.Assert):
                if not self.truth(self.eval(st.test, env, fi)):
                    raise AbsRaise("AssertionError", loc(fi.unit.path, st) if fi else "")
                return
            if isinstance(st, ast.Delete):
                raise AnalysisError("ABSINT", "del statement outside fragment", loc(fi.unit.path, st) if fi else "")
            return
        if isinstance(st, ast.Break):
            raise _Break()
        if isinstance(st, ast.Continue):
            raise _Continue()
        raise AnalysisError("ABSINT", f"statement outside the formula fragment: {type(st).__name__}",
                            loc(fi.unit.path, st) if fi else "")

    def assign(self, t: ast.expr, v: Any, env: dict[str, Any], fi: Optional[FuncInfo]) -> None:
        if isinstance(t, ast.Name):
            env[t.id] = v
        elif isinstance(t, (ast.Tuple, ast.List)):
            vals = list(self.iterate(v))
            stars = [i for i, e in enumerate(t.elts) if isinstance(e, ast.Starred)]
            if stars:
                i = stars[0]
                tail = len(t.elts) - i - 1
                if len(vals) < len(t.elts) - 1:
                    raise AbsRaise(f"ValueError: not enough values to unpack ({src(t)})")
                for e, x in zip(t.elts[:i], vals[:i]):
                    self.assign(e, x, env, fi)
                self.assign(t.elts[i].value, list(vals[i:len(vals) - tail]), env, fi)  # type: ignore[attr-defined]
                for e, x in zip(t.elts[i + 1:], vals[len(vals) - tail:] if tail else []):
                    self.assign(e, x, env, fi)
                return
            if len(vals) != len(t.elts):
                raise AbsRaise(f"ValueError: wrong number of values to unpack ({src(t)})")
            for e, x in zip(t.elts, vals):
                self.assign(e, x, env, fi)
        elif isinstance(t, ast.Attribute):
            obj = self.eval(t.value, env, fi)
            if isinstance(obj, AObj):
                if obj._f.get("_frozen"):
                    raise AbsMutation(f"store into {obj._cls}.{t.attr} ({src(t)})",
                                      loc(fi.unit.path, t) if fi else "")
                self.setattr_obj(obj, t.attr, v, loc(fi.unit.path, t) if fi else "")
            elif is_native(obj):
                setattr(obj, t.attr, v)
            elif isinstance(obj, (LocalFunc, FuncRef, BoundMethod)):
                obj.attrs[t.attr] = v
            elif isinstance(obj, ClassRef):
                self.set_class_attr(obj.ci, t.attr, v)
            elif isinstance(obj, EnumVal):
                GLOBAL_STATE["modconst"].setdefault(("enumattrs", obj.cls, obj.name), {})[t.attr] = v
            elif obj is None or isinstance(obj, (bool, int, float, str, tuple, list, dict, set, frozenset)):
                raise AbsRaise(f"AttributeError: '{type(obj).__name__}' object has no attribute '{t.attr}' (store {src(t)})",
                               loc(fi.unit.path, t) if fi else "")
            else:
                raise AnalysisError("ABSINT", f"attribute store outside fragment: {src(t)}")
        elif isinstance(t, ast.Subscript):
            obj = self.eval(t.value, env, fi)
            if isinstance(t.slice, ast.Slice):
                idx = slice(self.eval(t.slice.lower, env, fi) if t.slice.lower else None,
                            self.eval(t.slice.upper, env, fi) if t.slice.upper else None,
                            self.eval(t.slice.step, env, fi) if t.slice.step else None)
                v = list(self.iterate(v))
            else:
                idx = self.eval(t.slice, env, fi)
            if isinstance(obj, (dict, list)):
                if getattr(obj, "_frozen", False):
                    raise AbsMutation(f"subscript store into an input container ({src(t)})",
                                      loc(fi.unit.path, t) if fi else "")
                if isinstance(obj, dict):
                    idx = self.canon_key(obj, idx)
                obj[idx] = v
            elif type(obj).__name__ == "mappingproxy" or isinstance(obj, (tuple, str, frozenset)):
                raise AbsRaise(f"TypeError: '{type(obj).__name__}' object does not support item assignment",
                               loc(fi.unit.path, t) if fi else "")
            else:
                raise AnalysisError("ABSINT", f"subscript store outside fragment: {src(t)}")
        else:
            raise AnalysisError("ABSINT", f"assignment target outside fragment: {src(t)}")

    # -- expressions --------------------------------------------------------------------------
    def truth(self, v: Any) -> bool:
        if type(v).__name__ == "Poly":
            raise AnalysisError("ALG", "a symbolic count is used as a truth value")
        if isinstance(v, OrdInt):
            raise AnalysisError("CARD", f"ordinal {v.tag} used as truth value")
        if self._flag_class(v) is not None:
            return v.value != 0
        if isinstance(v, (AObj, EnumVal)):
            b_ = self.special(v, "__bool__")
            if b_ is not None and not (isinstance(b_, FuncRef) and b_.fi.unit.env):
                r_ = self.apply_value(b_, [v], {}, ast.Constant(value=None), "", None)
                if not isinstance(r_, bool):
                    raise AbsRaise(f"TypeError: __bool__ should return bool, returned {type(r_).__name__}")
                return r_
            l_ = self.special(v, "__len__")
            if l_ is not None and not (isinstance(l_, FuncRef) and l_.fi.unit.env):
                return self.apply_value(l_, [v], {}, ast.Constant(value=None), "", None) != 0
            return True
        if isinstance(v, (BoundMethod, FuncRef, ClassRef)):
            return True
        return bool(v)

    def iterate(self, v: Any) -> Any:
        if is_native(v):
            return list(iter(v))  # type: ignore[call-overload]
        if isinstance(v, (set, frozenset)):
            # a set has no defined iteration order (str hashes vary with PYTHONHASHSEED): the
            # evaluator imposes one, and a determinism check compares both extremes
            self.set_iterations += 1
            try:
                seq = sorted(v, key=lambda x: (type(x).__name__, repr(x) if not isinstance(x, AObj) else self.to_str(x)))
            except AnalysisError:
                seq = sorted(v, key=lambda x: id(x))
            return seq if self.set_order == "asc" else list(reversed(seq))
        if isinstance(v, (list, tuple, set, frozenset, dict, str, range)) or hasattr(v, "__next__") or \
                (type(v).__name__ in ("mappingproxy", "ChainMap") and type(v).__module__ in ("builtins", "collections")):
            return v
        if isinstance(v, type({}.keys())) or isinstance(v, type({}.values())) \
                or isinstance(v, type({}.items())):
            return v
        if isinstance(v, ClassRef) and self.pm.is_enum(v.ci):
            if self.pm.is_flag(v.ci):      # (3.11+) only the single flags are iterated, not the named combinations nor zero
                return [m for k, m in self.enum_table(v.ci).items() if m.name == k and isinstance(m.value, int) and m.value
                        and m.value & (m.value - 1) == 0]
            return [m for k, m in self.enum_table(v.ci).items() if m.name == k]      # aliases are not iterated
        if isinstance(v, AObj):
            it_m = self.special(v, "__iter__")
            if it_m is not None:
                r_ = self.apply_value(it_m, [v], {}, ast.Constant(value=None), "", None)
                if isinstance(r_, AObj):
                    if self.special(r_, "__next__") is None:
                        raise AbsRaise(f"TypeError: iter() returned non-iterator of type '{r_._cls}'")
                    return AObjIter(self, r_)
                return self.iterate(r_)
            gi = self.special(v, "__getitem__")
            if gi is not None:
                return _getitem_iter(self, v, gi)
        if isinstance(v, AObj) and self.pm.has_cls(v._cls) and not self.pm.cls(v._cls).unit.env and v._f.get("_complete", True):
            raise AbsRaise(f"TypeError: '{v._cls}' object is not iterable")      # no __iter__ / __getitem__ on its class
        if v is None or isinstance(v, (bool, int, float)) or isinstance(v, EnumVal):
            raise AbsRaise(f"TypeError: '{type(v).__name__ if not isinstance(v, EnumVal) else v.cls}' object is not iterable")
        raise AnalysisError("ABSINT", f"iteration over non-iterable abstract value {v!r}")

    def eval(self, n: ast.expr, env: dict[str, Any], fi: Optional[FuncInfo]) -> Any:  # noqa: C901
        self.steps += 1
        if isinstance(n, ast.Constant):
            return n.value
        if isinstance(n, ast.Name):
            return self.lookup(n.id, env, fi, n)
        if isinstance(n, ast.BoolOp):
            if isinstance(n.op, ast.And):
                v: Any = True
                for e in n.values:
                    v = self.eval(e, env, fi)
                    if not self.truth(v):
                        return v
                return v
            v = False
            for e in n.values:
                v = self.eval(e, env, fi)
                if self.truth(v):
                    return v
            return v
        if isinstance(n, ast.UnaryOp):
            v = self.eval(n.operand, env, fi)
            if isinstance(n.op, ast.Not):
                return not self.truth(v)
            if isinstance(n.op, ast.USub) and isinstance(v, (int, float)) and not isinstance(v, bool):
                return -v
            if isinstance(n.op, ast.UAdd) and isinstance(v, (int, float)) and not isinstance(v, bool):
                return v
            if isinstance(n.op, ast.Invert) and isinstance(v, int) and not isinstance(v, bool):
                return ~v
            if isinstance(n.op, ast.Invert) and self._flag_class(v) is not None:
                fc_ = self._flag_class(v)
                mask_ = 0
                for k_, m_ in self.enum_table(fc_).items():
                    if isinstance(m_.value, int):
                        mask_ |= m_.value
                return self.flag_member(fc_, mask_ & ~v.value)
            raise AnalysisError("ABSINT", f"unary operator outside fragment: {src(n)}")
        if isinstance(n, ast.Compare):
            left = self.eval(n.left, env, fi)
            for op, rn in zip(n.ops, n.comparators):
                right = self.eval(rn, env, fi)
                if not self.compare(op, left, right, n):
                    return False
                left = right
            return True
        if isinstance(n, ast.IfExp):
            return self.eval(n.body if self.truth(self.eval(n.test, env, fi)) else n.orelse, env, fi)
        if isinstance(n, ast.Attribute):
            return self.getattr(self.eval(n.value, env, fi), n.attr, n, fi)
        if isinstance(n, ast.Call):
            return self.eval_call(n, env, fi)
        if isinstance(n, (ast.List, ast.Tuple, ast.Set)):
            vals = []
            for e in n.elts:
                if isinstance(e, ast.Starred):
                    vals.extend(self.iterate(self.eval(e.value, env, fi)))
                else:
                    vals.append(self.eval(e, env, fi))
            if isinstance(n, ast.List):
                return vals
            if isinstance(n, ast.Tuple):
                return tuple(vals)
            return set(self.dedupe(vals))
        if isinstance(n, ast.Dict):
            d = {}
            for k, v2 in zip(n.keys, n.values):
                if k is None:
                    d.update(self.eval(v2, env, fi))
                else:
                    kk = self.eval(k, env, fi)
                    d[self.canon_key(d, kk)] = self.eval(v2, env, fi)
            return d
        if isinstance(n, (ast.ListComp, ast.SetComp, ast.GeneratorExp)):
            if isinstance(n, ast.GeneratorExp):
                # lazy and one-shot, like the generator it stands for (its source may be endless). As in Python, the first
                # iterable is evaluated now, in the enclosing scope; everything else is evaluated when the generator is
                # advanced, and the free names then have the values the enclosing scope gives them *at that time* (a
                # generator expression kept and consumed after its loop variable moved on sees the last value)
                ge = self._comp_env(env)
                own = {x.id for g_ in n.generators for x in ast.walk(g_.target) if isinstance(x, ast.Name)}
                first = self.eval(n.generators[0].iter, env, fi)

                def refresh(outer: dict[str, Any] = env, ge: dict[str, Any] = ge, own: set[str] = own) -> None:
                    for k_, v_ in outer.items():
                        if k_ not in own and k_ != "__comp_outer__":
                            ge[k_] = v_
                return (self.eval(n.elt, e, fi) for e in self._comp_iter(n.generators, 0, ge, fi, first, refresh))
            out: list[Any] = [self.eval(n.elt, e, fi) for e in self._comp_iter(n.generators, 0, self._comp_env(env), fi)]
            return set(self.dedupe(out)) if isinstance(n, ast.SetComp) else out
        if isinstance(n, ast.DictComp):
            dd: dict[Any, Any] = {}

            def put(e: dict[str, Any]) -> None:
                kk = self.eval(n.key, e, fi)
                dd[self.canon_key(dd, kk)] = self.eval(n.value, e, fi)
            self._comp(n.generators, 0, self._comp_env(env), fi, put)
            return dd
        if isinstance(n, ast.Subscript):
            obj = self.eval(n.value, env, fi)
            if isinstance(n.slice, ast.Slice):
                lo = self.eval(n.slice.lower, env, fi) if n.slice.lower else None
                hi = self.eval(n.slice.upper, env, fi) if n.slice.upper else None
                stp = self.eval(n.slice.step, env, fi) if n.slice.step else None
                if isinstance(obj, AObj):
                    gi_ = self.special(obj, "__getitem__")
                    if gi_ is None:
                        raise AbsRaise(f"TypeError: '{obj._cls}' object is not subscriptable", loc(fi.unit.path, n) if fi else "")
                    return self.apply_value(gi_, [obj, slice(lo, hi, stp)], {}, n, loc(fi.unit.path, n) if fi else "", fi)
                try:
                    return obj[lo:hi:stp]
                except TypeError as exc:
                    raise AbsRaise(f"TypeError at {src(n)}", loc(fi.unit.path, n) if fi else "") from exc
            if isinstance(obj, tuple) and len(obj) == 2 and obj[0] == "builtin":
                return obj           # list["X"] -> list
            idx = self.eval(n.slice, env, fi)
            if isinstance(obj, AObj):
                gi_ = self.special(obj, "__getitem__")
                if gi_ is None:
                    raise AbsRaise(f"TypeError: '{obj._cls}' object is not subscriptable", loc(fi.unit.path, n) if fi else "")
                return self.apply_value(gi_, [obj, idx], {}, n, loc(fi.unit.path, n) if fi else "", fi)
            if isinstance(obj, ClassRef):
                if self.pm.is_enum(obj.ci):
                    tab_ = self.enum_table(obj.ci)
                    if idx not in tab_:
                        raise AbsRaise(f"KeyError: {idx!r}", loc(fi.unit.path, n) if fi else "")
                    return tab_[idx]
                return obj           # Generic[T] subscription of a class
            if isinstance(obj, dict):
                idx = self.canon_key(obj, idx)
            try:
                return obj[idx]
            except (IndexError, KeyError, TypeError) as exc:
                raise AbsRaise(f"{type(exc).__name__} at {src(n)}",
                               loc(fi.unit.path, n) if fi else "") from exc
        if isinstance(n, ast.BinOp):
            return self.binop(n.op, self.eval(n.left, env, fi), self.eval(n.right, env, fi), n)
        if isinstance(n, ast.JoinedStr):
            parts = []
            for v2 in n.values:
                if isinstance(v2, ast.Constant):
                    parts.append(str(v2.value))
                elif isinstance(v2, ast.FormattedValue):
                    val = self.eval(v2.value, env, fi)
                    if v2.conversion == ord("r"):
                        val = self.builtin("repr", [val], {}, v2, "")
                    elif v2.conversion == ord("a"):
                        val = ascii(self.builtin("repr", [val], {}, v2, ""))[1:-1]
                    elif v2.conversion == ord("s"):
                        val = self.to_str(val)
                    spec = self.eval(v2.format_spec, env, fi) if v2.format_spec is not None else ""
                    if spec:
                        if isinstance(val, (AObj, OrdInt)):
                            raise AnalysisError("ABSINT", f"format spec on an abstract value: {src(v2)}",
                                                loc(fi.unit.path, n) if fi else "")
                        try:
                            parts.append(format(val, spec))
                        except (ValueError, TypeError) as exc:
                            raise AbsRaise(f"{type(exc).__name__}: {exc}", loc(fi.unit.path, n) if fi else "") from exc
                    else:
                        parts.append(self.to_str(val))
            return "".join(parts)
        if isinstance(n, ast.Lambda):
            return Lambda(n, env, fi, self._def_defaults(n.args, env, fi))
        if isinstance(n, ast.Yield):
            gen_ = env.get("__gen__")
            if gen_ is None:
                raise AnalysisError("ABSINT", "yield outside a generator function", loc(fi.unit.path, n) if fi else "")
            return gen_.suspend(self.eval(n.value, env, fi) if n.value is not None else None)
        if isinstance(n, ast.YieldFrom):
            gen_ = env.get("__gen__")
            if gen_ is None:
                raise AnalysisError("ABSINT", "yield from outside a generator function", loc(fi.unit.path, n) if fi else "")
            src_it = iter(self.iterate(self.eval(n.value, env, fi)))
            sent: Any = None
            thrown: Optional[BaseException] = None
            while True:
                try:                               # delegation: values sent / exceptions thrown reach the sub-generator
                    if thrown is not None and isinstance(src_it, AGen):
                        exc_, thrown = thrown, None
                        item = src_it.throw(exc_)
                    elif thrown is not None:
                        raise thrown
                    elif sent is not None and isinstance(src_it, AGen):
                        item = src_it.send(sent)
                    else:
                        item = next(src_it)
                except StopIteration as stop:
                    return stop.value          # the value of `yield from` is what the sub-generator returned
                try:
                    sent = gen_.suspend(item)
                except _GenAbandon:
                    raise
                except BaseException as exc:  # noqa: BLE001
                    thrown, sent = exc, None
        if isinstance(n, ast.NamedExpr):
            v = self.eval(n.value, env, fi)
            env[n.target.id] = v
            outer = env.get("__comp_outer__")
            while outer is not None:            # inside a comprehension: the name belongs to the enclosing scope
                outer[n.target.id] = v
                outer = outer.get("__comp_outer__")
            return v
        raise AnalysisError("ABSINT", f"expression outside the formula fragment: {type(n).__name__} "
                                      f"{src(n)[:80]}", loc(fi.unit.path, n) if fi else "")

    def _comp_env(self, env: dict[str, Any]) -> dict[str, Any]:
        e = dict(env)
        e["__comp_outer__"] = env
        return e

    def _comp_iter(self, gens: list[ast.comprehension], i: int, env: dict[str, Any], fi: Optional[FuncInfo],
                   first: Any = _MISSING, refresh: Optional[Callable[[], None]] = None) -> Any:
        if i == len(gens):
            yield env
            return
        g = gens[i]
        n_ = 0
        for x in self.iterate(first if (i == 0 and first is not _MISSING) else self.eval(g.iter, env, fi)):
            n_ += 1
            if n_ > 200_000:
                raise AnalysisError("ABSINT", "comprehension bound exceeded (endless source consumed whole?)")
            if refresh is not None:
                refresh()                 # a generator expression resumed later: free names as they are now
            self.assign(g.target, x, env, fi)
            if all(self.truth(self.eval(c, env, fi)) for c in g.ifs):
                yield from self._comp_iter(gens, i + 1, env, fi, first, refresh)

    def _comp(self, gens: list[ast.comprehension], i: int, env: dict[str, Any],
              fi: Optional[FuncInfo], emit: Callable[[dict[str, Any]], None]) -> None:
        if i == len(gens):
            emit(env)
            return
        g = gens[i]
        for x in self.iterate(self.eval(g.iter, env, fi)):
            self.assign(g.target, x, env, fi)
            if all(self.truth(self.eval(c, env, fi)) for c in g.ifs):
                self._comp(gens, i + 1, env, fi, emit)

    def to_str(self, v: Any) -> str:
        if isinstance(v, tuple) and hasattr(v, "_fields") and self.pm.has_cls(type(v).__name__):
            sm = self.class_lookup(self.pm.cls(type(v).__name__), "__str__")
            if sm is not None and sm[0] == "method":
                return self.call(sm[1], [v])
        if isinstance(v, OrdInt):
            return f"{{{v.tag}}}"
        if isinstance(v, EnumVal):
            if self.pm.has_cls(v.cls):
                ci = self.pm.cls(v.cls)
                m = self.pm.method(ci, "__str__")
                if m is not None:
                    return self.call(m, [v])
                if "str" in self.pm.base_names(ci) or "StrEnum" in self.pm.base_names(ci):
                    return str(v.value)
            return f"{v.cls}.{v.name}"
        if isinstance(v, AObj):
            m = self.special(v, "__str__") or self.special(v, "__repr__")
            if m is not None:
                return self.apply_value(m, [v], {}, ast.Constant(value=None), "", None)
            raise AnalysisError("ABSINT", f"str() of abstract {v._cls} without __str__")
        return str(v)

    def _flag_class(self, v: Any) -> Optional[ClassInfo]:
        if isinstance(v, EnumVal) and self.pm.has_cls(v.cls) and self.pm.is_flag(self.pm.cls(v.cls)) and \
                isinstance(v.value, int) and not isinstance(v.value, bool):
            return self.pm.cls(v.cls)
        return None

    def flag_member(self, ci: ClassInfo, value: int) -> EnumVal:
        """The member of an enum.Flag class with this value: a declared one (single flag or named combination), else the
        pseudo-member Python builds, named after the single flags it is made of (in definition order)."""
        table = self.enum_table(ci)
        for k, m in table.items():
            if m.name == k and m.value == value:
                return m
        singles = [m for k, m in table.items() if m.name == k and isinstance(m.value, int) and m.value and
                   m.value & (m.value - 1) == 0]
        mask = 0
        for m in singles:
            mask |= m.value
        if value & ~mask:
            raise AbsRaise(f"ValueError: {value!r} is not a valid {ci.name}")
        return EnumVal(ci.name, "|".join(m.name for m in singles if m.value & value) or "0", value)

    def binop(self, op: ast.operator, a: Any, b: Any, n: ast.AST, inplace: bool = False) -> Any:
        fa, fb = self._flag_class(a), self._flag_class(b)
        if fa is not None and fb is not None and fa is fb and isinstance(op, (ast.BitOr, ast.BitAnd, ast.BitXor)):
            v_ = a.value | b.value if isinstance(op, ast.BitOr) else a.value & b.value if isinstance(op, ast.BitAnd) else a.value ^ b.value
            return self.flag_member(fa, v_)
        if inplace and isinstance(a, (list, set, dict)):
            # augmented assignment on a mutable container updates the object itself: every alias sees it
            if getattr(a, "_frozen", False):
                raise AbsMutation(f"in-place {type(op).__name__} on an input container ({src(n)})",
                                  "")
            if isinstance(a, list) and isinstance(op, ast.Add):
                a.extend(self.iterate(b))
                return a
            if isinstance(a, list) and isinstance(op, ast.Mult):
                a[:] = list(a) * b
                return a
            if isinstance(a, set) and isinstance(b, (set, frozenset)) and \
                    isinstance(op, (ast.BitOr, ast.BitAnd, ast.Sub, ast.BitXor)) and \
                    (any(self._has_abs(x) for x in a) or any(self._has_abs(x) for x in b)):
                res2 = self.binop(op, set(a), b, n)
                a.clear()
                a.update(res2)
                return a
            if isinstance(a, set) and isinstance(b, (set, frozenset)):
                if isinstance(op, ast.BitOr):
                    a |= b
                    return a
                if isinstance(op, ast.BitAnd):
                    a &= b
                    return a
                if isinstance(op, ast.Sub):
                    a -= b
                    return a
                if isinstance(op, ast.BitXor):
                    a ^= b
                    return a
            if isinstance(a, dict) and isinstance(op, ast.BitOr) and isinstance(b, dict):
                a.update(b)
                return a
        if isinstance(a, (set, frozenset)) and isinstance(b, (set, frozenset)) and \
                isinstance(op, (ast.BitOr, ast.BitAnd, ast.Sub, ast.BitXor)) and \
                (any(self._has_abs(x) for x in a) or any(self._has_abs(x) for x in b)):
            mem = lambda x, xs: any(self._eq(x, y) for y in xs)  # noqa: E731
            if isinstance(op, ast.BitOr):
                res = self.dedupe(list(a) + list(b))
            elif isinstance(op, ast.BitAnd):
                so, other = (b, a) if len(b) > len(a) else (a, b)     # CPython walks the smaller (or right) operand
                res = [x for x in other if mem(x, so)]
            elif isinstance(op, ast.Sub):
                res = [x for x in a if not mem(x, b)]
            else:
                res = [x for x in a if not mem(x, b)] + [y for y in b if not mem(y, a)]
            return type(a)(res)
        if isinstance(a, OrdInt) or isinstance(b, OrdInt):
            # outside the comparison-only fragment: still decided on every point of the box, but the
            # order-type completeness argument does not cover it (recorded, reported in evidence)
            for x in (a, b):
                if isinstance(x, OrdInt):
                    ARITH_ON_ORDINALS.add(x.tag)
            a = a.v if isinstance(a, OrdInt) else a
            b = b.v if isinstance(b, OrdInt) else b
        try:
            if isinstance(op, ast.Add):
                return a + b
            if isinstance(op, ast.Sub):
                return a - b
            if isinstance(op, ast.Mult):
                return a * b
            if isinstance(op, ast.Mod):
                if isinstance(a, str):
                    b = tuple(self._fmt_wrap(x) for x in b) if isinstance(b, tuple) and not hasattr(b, "_fields") else \
                        ({k: self._fmt_wrap(x) for k, x in b.items()} if isinstance(b, dict) else self._fmt_wrap(b))
                return a % b
            if isinstance(op, ast.FloorDiv):
                return a // b
            if isinstance(op, ast.Div):
                return a / b
            if isinstance(op, ast.Pow):
                if type(b).__name__ == "Poly":
                    raise AnalysisError("ALG", f"symbolic exponent: {src(n)}")
                if type(a).__name__ == "Poly":
                    r: Any = 1
                    for _ in range(int(b)):
                        r = r * a
                    return r
                return a ** b
            if isinstance(op, ast.BitOr):
                return a | b
            if isinstance(op, ast.BitAnd):
                return a & b
            if isinstance(op, ast.BitXor):
                return a ^ b
            if isinstance(op, ast.LShift):
                return a << b
            if isinstance(op, ast.RShift):
                return a >> b
        except (TypeError, ZeroDivisionError) as exc:
            raise AbsRaise(f"{type(exc).__name__} at {src(n)}") from exc
        raise AnalysisError("ABSINT", f"binary operator outside fragment: {src(n)}")

    def compare(self, op: ast.cmpop, a: Any, b: Any, n: ast.AST) -> bool:
        if isinstance(op, (ast.Is, ast.IsNot)):
            if isinstance(a, EnumVal) and isinstance(b, EnumVal):
                same = a == b                      # enum members are singletons
            elif isinstance(a, ClassRef) and isinstance(b, ClassRef):
                same = a.ci is b.ci
            else:
                same = a is b or (a is None and b is None)
            return same if isinstance(op, ast.Is) else not same
        if isinstance(op, (ast.In, ast.NotIn)):
            if isinstance(b, str):
                if not isinstance(a, str):
                    raise AbsRaise(f"TypeError at {src(n)}")
                r = a in b
            elif self._flag_class(b) is not None:
                if self._flag_class(a) is not self._flag_class(b):
                    raise AbsRaise(f"TypeError: unsupported operand type(s) for 'in': {type(a).__name__!r} and {b.cls!r} at {src(n)}")
                r = (a.value & b.value) == a.value
            elif isinstance(b, AObj) and self.special(b, "__contains__") is not None:
                r = self.truth(self.apply_value(self.special(b, "__contains__"), [b, a], {}, n, "", None))
            else:
                r = any(a is x or self._eq(a, x) for x in self.iterate(b))
            return r if isinstance(op, ast.In) else not r
        if isinstance(op, (ast.Eq, ast.NotEq)):
            r = self._eq(a, b)
            return r if isinstance(op, ast.Eq) else not r
        f = _CMP[type(op)]
        if isinstance(a, (AObj, EnumVal)) or isinstance(b, (AObj, EnumVal)):
            return self._order(op, a, b, n)
        if isinstance(a, OrdInt) or isinstance(b, OrdInt):
            if isinstance(b, OrdInt) and not isinstance(a, OrdInt):
                # const OP ord  ==  ord OP' const
                flip = {ast.Lt: operator.gt, ast.LtE: operator.ge, ast.Gt: operator.lt,
                        ast.GtE: operator.le}[type(op)]
                return flip(b, a)
            return f(a, b)
        try:
            return f(a, b)
        except TypeError as exc:
            raise AbsRaise(f"TypeError at {src(n)}") from exc

    _RICH = {ast.Lt: ("__lt__", "__gt__", "<"), ast.LtE: ("__le__", "__ge__", "<="), ast.Gt: ("__gt__", "__lt__", ">"),
             ast.GtE: ("__ge__", "__le__", ">=")}

    def _order(self, op: ast.cmpop, a: Any, b: Any, n: ast.AST) -> bool:
        """a < b and friends when an object of the analysed code takes part: its own method, the reflected method of the
        other operand, what functools.total_ordering or dataclass(order=True) derive."""
        name, refl, sym = self._RICH[type(op)]
        for x, y, nm in ((a, b, name), (b, a, refl)):
            if isinstance(x, (AObj, EnumVal)):
                r = self._rich(x, y, nm)
                if r is not NotImplemented:
                    return self.truth(r)
        ta = a._cls if isinstance(a, AObj) else (a.cls if isinstance(a, EnumVal) else type(a).__name__)
        tb = b._cls if isinstance(b, AObj) else (b.cls if isinstance(b, EnumVal) else type(b).__name__)
        raise AbsRaise(f"TypeError: '{sym}' not supported between instances of '{ta}' and '{tb}' at {src(n)}")

    def _rich(self, x: Any, y: Any, nm: str) -> Any:
        m = self.special(x, nm)
        if m is not None and not (isinstance(m, FuncRef) and m.fi.unit.env):
            r = self.apply_value(m, [x, y], {}, ast.Constant(value=None), "", None)
            if not (isinstance(r, tuple) and r == ("builtin", "NotImplemented")):
                return r
            return NotImplemented
        ci = self.pm.cls(x._cls) if isinstance(x, AObj) and self.pm.has_cls(x._cls) else None
        if ci is not None and any(ast.unparse(d).split("(")[0].split(".")[-1] == "total_ordering"
                                  for c in self.pm.mro(ci) for d in c.node.decorator_list):
            lt = self.special(x, "__lt__")
            if lt is None or (isinstance(lt, FuncRef) and lt.fi.unit.env) or nm == "__lt__":
                if nm != "__lt__" and any(self.special(x, o_) is not None for o_ in ("__le__", "__gt__", "__ge__")):
                    raise AnalysisError("ABSINT", f"total_ordering of {ci.name} rooted in a method other than __lt__: outside fragment")
                return NotImplemented
            less = self.apply_value(lt, [x, y], {}, ast.Constant(value=None), "", None)
            if isinstance(less, tuple) and less == ("builtin", "NotImplemented"):
                return NotImplemented
            less = self.truth(less)
            if nm == "__le__":
                return less or self._eq(x, y)
            if nm == "__gt__":
                return not less and not self._eq(x, y)
            return not less
        rec = x._f.get("_record") if isinstance(x, AObj) else None
        if rec is not None and rec[1].get("order") and isinstance(y, AObj) and y._cls == x._cls:
            ka, kb = [x._f[k] for k in rec[0]], [y._f[k] for k in rec[0]]
            lt_ = self._lt(ka, kb)
            eq_ = self._eq(ka, kb)
            return {"__lt__": lt_, "__le__": lt_ or eq_, "__gt__": not lt_ and not eq_, "__ge__": not lt_}[nm]
        return NotImplemented

    def _eq(self, a: Any, b: Any) -> bool:
        if isinstance(a, ClassRef) or isinstance(b, ClassRef):
            na = a.ci.name if isinstance(a, ClassRef) else getattr(a, "__name__", None)
            nb = b.ci.name if isinstance(b, ClassRef) else getattr(b, "__name__", None)
            return na is not None and na == nb
        if isinstance(a, OrdInt):
            return a == b
        if isinstance(b, OrdInt):
            return b == a
        if isinstance(a, EnumVal) != isinstance(b, EnumVal):
            e_, o_ = (a, b) if isinstance(a, EnumVal) else (b, a)
            if isinstance(o_, (str, int, float)) and self.pm.has_cls(e_.cls) and \
                    self.pm.base_names(self.pm.cls(e_.cls)) & {"str", "int", "StrEnum", "IntEnum", "IntFlag"}:
                return e_.value == o_            # a member of a str / int mixed-in enumeration is that value too
            if isinstance(o_, AObj):
                pass
            else:
                return False
        if isinstance(a, AObj) and isinstance(b, AObj):
            if a is b:
                return True
            if self.pm.has_cls(a._cls):
                m = self.special(a, "__eq__")
                if m is not None and not (isinstance(m, FuncRef) and m.fi.unit.env):
                    r_ = self.apply_value(m, [a, b], {}, ast.Constant(value=None), "", None)
                    if isinstance(r_, tuple) and r_ == ("builtin", "NotImplemented"):
                        m2 = self.special(b, "__eq__")
                        if m2 is not None and not (isinstance(m2, FuncRef) and m2.fi.unit.env):
                            r_ = self.apply_value(m2, [b, a], {}, ast.Constant(value=None), "", None)
                        if isinstance(r_, tuple) and r_ == ("builtin", "NotImplemented"):
                            return False
                    return self.truth(r_)
            ra, rb = a._f.get("_record"), b._f.get("_record")
            if ra is not None and rb is not None and a._cls == b._cls and ra[1].get("eq", True):
                return all(self._eq(a._f[n], b._f[n]) for n in ra[0])
            return False
        if isinstance(a, AObj) or isinstance(b, AObj):
            # the object's own __eq__ decides (it is also asked about values of other types)
            o, other = (a, b) if isinstance(a, AObj) else (b, a)
            if self.pm.has_cls(o._cls) and not isinstance(other, (AObjProxy,)) and not is_native(other):
                m = self.special(o, "__eq__")
                if m is not None and not (isinstance(m, FuncRef) and m.fi.unit.env):
                    r_ = self.apply_value(m, [o, other], {}, ast.Constant(value=None), "", None)
                    return False if (isinstance(r_, tuple) and r_ == ("builtin", "NotImplemented")) else self.truth(r_)
            return False
        if isinstance(a, (list, tuple)) and isinstance(b, (list, tuple)) and type(a) is type(b):
            return len(a) == len(b) and all(self._eq(x, y) for x, y in zip(a, b))
        if isinstance(a, (set, frozenset)) and isinstance(b, (set, frozenset)) and \
                (any(self._has_abs(x) for x in a) or any(self._has_abs(x) for x in b)):
            return len(a) == len(b) and all(any(self._eq(x, y) for y in b) for x in a)
        if isinstance(a, dict) and isinstance(b, dict) and \
                (any(self._has_abs(x) for x in a) or any(self._has_abs(x) for x in a.values())
                 or any(self._has_abs(x) for x in b) or any(self._has_abs(x) for x in b.values())):
            if len(a) != len(b):
                return False
            for k, v in a.items():
                k2 = self.canon_key(b, k)
                if k2 not in b or not self._eq(v, b[k2]):
                    return False
            return True
        return a == b

    # -- names, attributes, calls ---------------------------------------------------------------
    def lookup(self, name: str, env: dict[str, Any], fi: Optional[FuncInfo], n: ast.AST) -> Any:
        if name in env:
            return env[name]
        if fi is not None:
            u = fi.unit
            v = self.module_name(u, name)
            if v is not _MISSING:
                return v
        if name in ("True", "False", "None"):
            return {"True": True, "False": False, "None": None}[name]
        if name == "__name__" and fi is not None:
            return fi.unit.mod
        if name == "__file__" and fi is not None:
            return fi.unit.path
        if name in _BUILTINS or name in _BUILTIN_TYPES:
            return ("builtin", name)
        if name in _BUILTIN_EXCEPTIONS:
            return ("exc", name)
        if fi is not None and name in self._locals(fi):
            raise AbsRaise(f"UnboundLocalError: {name}", loc(fi.unit.path, n))
        raise AnalysisError("ABSINT", f"unbound name {name}", loc(fi.unit.path, n) if fi else "")

    def _is_generator(self, node: ast.AST) -> bool:
        cache = self.__dict__.setdefault("_gen_cache", {})
        k = id(node)
        if k not in cache:
            from .pm import walk_no_nested
            cache[k] = any(isinstance(x, (ast.Yield, ast.YieldFrom)) for x in walk_no_nested(node))
        return cache[k]

    def _locals(self, fi: FuncInfo) -> set[str]:
        key = id(fi.node)
        cache = self.__dict__.setdefault("_loc_cache", {})
        if key not in cache:
            names = set()
            for x in ast.walk(fi.node):
                if isinstance(x, ast.Name) and isinstance(x.ctx, ast.Store):
                    names.add(x.id)
            cache[key] = names
        return cache[key]

    def ensure_module_init(self, u: Unit) -> None:
        """Statements at module level other than definitions and plain assignments (calls that register something, loops
        that fill a table, conditionals) run once, in order, when the module is first used."""
        key = ("modinit", u.mod)
        store = GLOBAL_STATE["class_attrs"]
        if key in store:
            return
        store[key] = True
        if u.env:
            return
        extra = [s_ for s_ in u.tree.body
                 if isinstance(s_, (ast.For, ast.While, ast.If, ast.With, ast.Try, ast.AugAssign, ast.Delete, ast.Match, ast.ClassDef))
                 or (isinstance(s_, ast.Expr) and not isinstance(s_.value, ast.Constant))]
        if not extra:
            return
        fake = FuncInfo(f"{u.mod}.<module>", "<module>", ast.FunctionDef(name="<module>"), u)  # type: ignore
        env: dict[str, Any] = {}
        for s_ in extra:
            if isinstance(s_, ast.ClassDef):
                # the class statement runs now: hooks that register the class somewhere (__init_subclass__, class
                # decorators, __set_name__) take effect at import time, in source order, whether or not the class is used
                q_ = f"{u.mod}.{s_.name}"
                if q_ in self.pm.classes:
                    self.ensure_built(self.pm.classes[q_])
                continue
            self.exec_stmt(s_, env, fake)
        for k_, v_ in env.items():
            if not k_.startswith("__"):
                self._modconst[(u.mod, k_)] = v_

    def module_name(self, u: Unit, name: str) -> Any:
        self.ensure_module_init(u)
        key = (u.mod, name)
        if key in self._modconst:
            return self._modconst[key]
        q = f"{u.mod}.{name}"
        if q in self.pm.functions:
            return FuncRef(self.pm.functions[q])
        if q in self.pm.classes:
            return ClassRef(self.pm.classes[q])
        val = self.pm.module_assign(u, name)
        if val is not None:
            fake = FuncInfo(f"{u.mod}.<module>", "<module>", ast.FunctionDef(name="<module>"), u)  # type: ignore
            v = self.eval(val, {}, fake)
            self._modconst[key] = v
            return v
        if name in u.imports:
            tgt = u.imports[name]
            nm = tgt.rsplit(".", 1)[-1]
            if tgt in self.pm.units and not self.pm.units[tgt].env:
                return ModuleRef(tgt)              # a module of the package imported as a name (`from pkg import mod [as m]`)
            if tgt in self.pm.functions:
                return FuncRef(self.pm.functions[tgt])
            if tgt in self.pm.classes:
                return ClassRef(self.pm.classes[tgt])
            modq = tgt.rsplit(".", 1)[0]
            if modq in self.pm.units:
                return self.module_name(self.pm.units[modq], nm)
            # re-export through a package __init__
            if nm in self.pm.class_by_name:
                return ClassRef(self.pm.cls(nm))
            cands = [f for f in self.pm.func_by_name.get(nm, []) if f.cls is None]
            if len(cands) == 1:
                return FuncRef(cands[0])
            for uu in self.pm.units.values():
                if self.pm.module_assign(uu, nm) is not None and (uu.env or True) \
                        and uu.mod.endswith(modq.split(".")[-1]):
                    return self.module_name(uu, nm)
            # module-level constants re-exported (e.g. LOGICAL_OPERATORS from flamapy.core.models.ast)
            for uu in self.pm.units.values():
                if uu.env and self.pm.module_assign(uu, nm) is not None:
                    return self.module_name(uu, nm)
            root_ = tgt.split(".")[0]
            if root_ in _PURE_MODULES and tgt.count(".") == 1:
                import importlib
                try:
                    val_ = getattr(importlib.import_module(root_), nm)
                except (ImportError, AttributeError):
                    val_ = _MISSING
                if isinstance(val_, (str, int, float, bytes, tuple, frozenset)) and not isinstance(val_, bool):
                    return val_                  # a constant of the standard library (string.ascii_lowercase, math.pi)
            return ModuleRef(tgt)
        return _MISSING

    def getattr(self, obj: Any, attr: str, n: ast.AST, fi: Optional[FuncInfo]) -> Any:
        where = loc(fi.unit.path, n) if fi else ""
        if is_native(obj):
            try:
                return getattr(obj, attr)
            except AttributeError as exc:
                raise AbsRaise(f"AttributeError: {exc}", where) from exc
        if isinstance(obj, SuperProxy):
            if obj.fi.cls is not None:
                for c in self.pm.mro(obj.fi.cls)[1:]:
                    if attr in c.methods:
                        return BoundMethod(obj.obj, c.methods[attr])
            if attr == "__setattr__" and isinstance(obj.obj, AObj):
                tgt_ = obj.obj

                def super_store(name_: str, val_: Any) -> None:
                    if tgt_._f.get("_frozen"):
                        raise AbsMutation(f"super().__setattr__({tgt_._cls}, {name_!r})", where)
                    self.setattr_obj(tgt_, name_, val_, where, direct=True)
                super_store._raw = True  # type: ignore[attr-defined]
                return super_store
            return SuperProxy(obj.obj, obj.fi)      # base outside the program model: no-op call
        if isinstance(obj, AObj):
            found: Any = None
            if self.pm.has_cls(obj._cls) and attr not in ("_frozen", "_complete"):
                ci0 = self.pm.cls(obj._cls)
                self.ensure_built(ci0)
                found = self.class_lookup(ci0, attr)
                if found is not None and found[0] == "method" and "property" in found[1].decorators():
                    return self.call(found[1], [obj])    # a property (data descriptor) comes before the instance's own fields
                if found is not None and found[0] == "value":
                    cv0 = found[1]
                    if isinstance(cv0, AProperty):
                        if cv0.fget is None:
                            raise AbsRaise(f"AttributeError: property '{attr}' of '{obj._cls}' object has no getter", where)
                        return self.apply_value(cv0.fget, [obj], {}, n, where, fi)
                    if isinstance(cv0, AObj) and self.special(cv0, "__get__") is not None and \
                            (self.special(cv0, "__set__") is not None or attr not in obj._f):
                        # a descriptor object stored on the class (data descriptors come before the instance's fields)
                        return self.apply_value(self.special(cv0, "__get__"), [cv0, obj, ClassRef(ci0)], {}, n, where, fi)
            if attr in obj._f:
                obj._reads.add(attr)
                return obj._f[attr]
            if attr == "__class__" and self.pm.has_cls(obj._cls):
                return ClassRef(self.pm.cls(obj._cls))
            if attr == "__dict__":
                return obj._f                  # the instance's own fields (live)
            if self.pm.has_cls(obj._cls):
                ci = self.pm.cls(obj._cls)
                m = found[1] if found is not None and found[0] == "method" else None
                if found is not None and found[0] == "value":
                    cv = found[1]
                    if isinstance(cv, FuncRef) and not cv.fi.is_static():
                        return BoundMethod(obj, cv.fi, cv.attrs)     # a function stored on the class binds
                    if isinstance(cv, LocalFunc):
                        return BoundWrapper(obj, cv)
                    if isinstance(cv, Lambda):
                        return self._bind_callable(cv, obj)
                    if isinstance(cv, AClassMethod):
                        return self._bind_callable(cv.func, ClassRef(ci))
                    if isinstance(cv, AStaticMethod):
                        return cv.func
                    if callable(cv) and getattr(cv, "_binds", False):
                        return self._bind_callable(cv, obj)
                    return cv
                if m is not None:
                    if "property" in m.decorators():
                        return self.call(m, [obj])
                    if any(d.split(".")[-1] == "cached_property" for d in m.decorators()):
                        slot = f"_cached:{attr}"
                        if slot not in obj._f:
                            obj._f[slot] = self.call(m, [obj], skip_native=False)
                        return obj._f[slot]
                    if m.is_static():
                        return FuncRef(m)
                    if m.is_classmethod():
                        return BoundMethod(ClassRef(ci), m, self.decorated_attrs(m))
                    if m.node.decorator_list:
                        w_ = self.wrapper_of(m)
                        if isinstance(w_, LocalFunc):
                            return BoundWrapper(obj, w_)       # the name is bound to what the decorator returned
                    return BoundMethod(obj, m, self.decorated_attrs(m))
                ga = self.class_lookup(ci, "__getattr__")
                if ga is not None and attr not in ("__getattr__", "_frozen", "_complete"):
                    gav = FuncRef(ga[1]) if ga[0] == "method" else ga[1]
                    return self.apply_value(gav, [obj, attr], {}, n, where, fi)
            if obj._f.get("_complete"):
                raise AbsRaise(f"AttributeError: '{obj._cls}' object has no attribute '{attr}'", where)
            raise AnalysisError("ABSINT", f"observation {obj._cls}.{attr} is outside the abstract "
                                          f"domain", where)
        if obj is None:
            raise AbsRaise(f"AttributeError: None.{attr} at {src(n)}", where)
        if isinstance(obj, ClassRef):
            ci = obj.ci
            self.ensure_built(ci)
            if self.pm.is_enum(ci):
                tab = self.enum_table(ci)
                if attr in tab:
                    return tab[attr]
                if attr in ("__members__", "_member_map_"):
                    return dict(tab)
                if attr == "_member_names_":
                    return [k for k, v_ in tab.items() if v_.name == k]
                if attr == "_value2member_map_":
                    return {v_.value: v_ for k, v_ in tab.items() if v_.name == k}
            found = self.class_lookup(ci, attr)
            if found is not None and found[0] == "method":
                m_ = found[1]
                if m_.is_classmethod():
                    return BoundMethod(obj, m_, self.decorated_attrs(m_))
                return FuncRef(m_)
            if found is not None:
                cv = found[1]
                if isinstance(cv, AClassMethod):
                    return self._bind_callable(cv.func, obj)
                if isinstance(cv, AStaticMethod):
                    return cv.func
                if isinstance(cv, AObj) and self.special(cv, "__get__") is not None:
                    return self.apply_value(self.special(cv, "__get__"), [cv, None, obj], {}, n, where, fi)
                return cv
            rk0 = self.pm.record_kind(ci)
            if rk0 is not None and rk0[0] == "namedtuple":
                if attr == "_fields":
                    return tuple(n_ for n_, _ in self.pm.record_fields(ci))
                if attr == "_make":
                    mk_ = lambda xs: self.apply_value(obj, list(self.iterate(xs)), {}, n, where, fi)  # noqa: E731
                    mk_._raw = True  # type: ignore[attr-defined]
                    return mk_
                if attr == "_field_defaults":
                    return {n_: self.class_attr(ci, n_) for n_, d_ in self.pm.record_fields(ci) if d_ is not None}
            if attr == "__mro__":
                return tuple(ClassRef(c) for c in self.pm.mro(ci)) + (("builtin", "object"),)
            if attr in ("__qualname__",):
                return ci.name
            if attr == "__module__":
                return ci.unit.mod
            if attr == "__dict__":
                d_: dict[str, Any] = {}
                for k_ in list(ci.class_attrs) + list(ci.methods):
                    fnd = self.class_lookup(ci, k_)
                    if fnd is not None and fnd[2] is ci:
                        d_[k_] = FuncRef(fnd[1]) if fnd[0] == "method" else fnd[1]
                return d_
            for q, c2 in self.pm.classes.items():
                if c2.outer is ci and c2.name == attr:
                    return ClassRef(c2)
            if attr == "__subclasses__":
                return ("subclasses", ci)
            if attr == "__name__":
                return ci.name
            plain_ = {"object", "ABC", "Generic", "Protocol", "Exception"}
            if not ci.unit.env and all(self.pm.resolve_base(c_, b_) is not None or b_.split(".")[-1].split("[")[0] in plain_
                                       for c_ in self.pm.mro(ci) for b_ in c_.bases) and not attr.startswith("__"):
                # every base of the class is known: the attribute does not exist
                raise AbsRaise(f"AttributeError: type object '{ci.name}' has no attribute '{attr}'", where)
            raise AnalysisError("ABSINT", f"unknown class attribute {ci.name}.{attr}", where)
        if isinstance(obj, (LocalFunc, BoundWrapper)):
            lf = obj.func if isinstance(obj, BoundWrapper) else obj
            if attr in lf.attrs:
                return lf.attrs[attr]
            if attr in ("__name__", "__qualname__"):
                return lf.node.name
            if attr == "__doc__":
                return ast.get_docstring(lf.node, clean=False)
            if attr == "__wrapped__":
                raise AbsRaise("AttributeError: function has no attribute __wrapped__", where)
            raise AbsRaise(f"AttributeError: function has no attribute {attr}", where)
        if isinstance(obj, (BoundMethod, FuncRef)):
            if attr == "register" and obj.fi.node.decorator_list and isinstance(self.wrapper_of(obj.fi), Dispatcher):
                base_fi = obj.fi

                def register(cls_: Any, func: Any = None) -> Any:
                    def deco(f_: Any) -> Any:
                        GLOBAL_STATE["class_attrs"].setdefault(("dispatch", base_fi.qual), []).append((cls_, f_))
                        return f_
                    deco._raw = True  # type: ignore[attr-defined]
                    return deco if func is None else deco(func)
                register._raw = True  # type: ignore[attr-defined]
                return register
            if attr == "__name__":
                return obj.fi.name
            if attr == "__doc__":
                return ast.get_docstring(obj.fi.node, clean=False)
            if attr in obj.attrs:
                return obj.attrs[attr]
            raise AbsRaise(f"AttributeError: function has no attribute {attr}", where)
        if isinstance(obj, EnumVal):
            if attr == "value":
                return obj.value
            if attr == "name":
                return obj.name
            extra_ = GLOBAL_STATE["modconst"].get(("enumattrs", obj.cls, obj.name), {})
            if attr in extra_:
                return extra_[attr]
            if self.pm.has_cls(obj.cls):
                eci = self.pm.cls(obj.cls)
                if attr == "__class__":
                    return ClassRef(eci)
                if attr == "_value_":
                    return obj.value
                if attr == "_name_":
                    return obj.name
                fnd = self.class_lookup(eci, attr)
                if fnd is not None and fnd[0] == "value" and not isinstance(fnd[1], EnumVal):
                    cv = fnd[1]
                    if isinstance(cv, (LocalFunc,)):
                        return BoundWrapper(obj, cv)
                    if isinstance(cv, Lambda) or (isinstance(cv, FuncRef) and not cv.fi.is_static()):
                        return self._bind_callable(cv, obj)
                    return cv
                if fnd is not None and fnd[0] == "value":
                    return fnd[1]                # another member reached through a member, as Python allows
                m = self.pm.method(eci, attr)
                if m is not None and not m.unit.env:
                    if any(d.split(".")[-1] == "cached_property" for d in m.decorators()):
                        slot_ = GLOBAL_STATE["modconst"].setdefault(("enumattrs", obj.cls, obj.name), {})
                        if f"_cached:{attr}" not in slot_:
                            slot_[f"_cached:{attr}"] = self.call(m, [obj])
                        return slot_[f"_cached:{attr}"]
                    if m.is_classmethod():
                        return BoundMethod(ClassRef(eci), m, self.decorated_attrs(m))
                    if "property" in m.decorators():
                        return self.call(m, [obj])
                    if m.is_static():
                        return FuncRef(m)
                    return BoundMethod(obj, m)
            if self.pm.has_cls(obj.cls) and not any(c.unit.env and (attr in c.methods or attr in c.class_attrs)
                                                    for c in self.pm.mro(self.pm.cls(obj.cls))) \
                    and attr not in ("__doc__", "__module__", "__hash__", "__eq__", "__str__", "__repr__", "__reduce_ex__",
                                     "__format__", "__dir__", "__members__"):
                raise AbsRaise(f"AttributeError: '{obj.cls}' object has no attribute '{attr}'", where)
            raise AnalysisError("ABSINT", f"enum attribute {attr} outside fragment", where)
        if isinstance(obj, ModuleRef):
            if obj.name in self.pm.units and not self.pm.units[obj.name].env:
                v_ = self.module_name(self.pm.units[obj.name], attr)
                if v_ is _MISSING:
                    sub = f"{obj.name}.{attr}"
                    if sub in self.pm.units:
                        return ModuleRef(sub)
                    raise AbsRaise(f"AttributeError: module '{obj.name}' has no attribute '{attr}'", where)
                return v_
            if obj.name in _PURE_MODULES:
                import importlib
                val_ = getattr(importlib.import_module(obj.name), attr, _MISSING)
                if isinstance(val_, (str, int, float, bytes, tuple, frozenset)) and not isinstance(val_, bool):
                    return val_
            full = f"{obj.name}.{attr}"
            if full in self.native and not callable(self.native[full]):
                return self.native[full]
            return ModuleRef(full)
        if isinstance(obj, tuple) and len(obj) == 2 and obj[0] in ("builtin", "exc") and attr in ("__name__", "__qualname__"):
            return obj[1]
        if isinstance(obj, tuple) and len(obj) == 2 and obj == ("builtin", "object") and attr in (
                "__setattr__", "__init__", "__init_subclass__", "__getattribute__", "__delattr__"):
            if attr == "__setattr__":
                def direct_store(o_: Any, name_: str, val_: Any) -> None:
                    if not isinstance(o_, AObj):
                        raise AnalysisError("ABSINT", "object.__setattr__ on a value that is not an object of the analysed code", where)
                    if o_._f.get("_frozen"):
                        raise AbsMutation(f"object.__setattr__({o_._cls}, {name_!r})", where)
                    self.setattr_obj(o_, name_, val_, where, direct=True)
                direct_store._raw = True  # type: ignore[attr-defined]
                return direct_store
            if attr == "__getattribute__":
                ga_ = lambda o_, name_: self.getattr(o_, name_, n, fi)  # noqa: E731
                ga_._raw = True  # type: ignore[attr-defined]
                return ga_
            noop = lambda *a, **k: None  # noqa: E731
            noop._raw = True  # type: ignore[attr-defined]
            return noop
        if isinstance(obj, tuple) and len(obj) == 2 and obj[0] == "builtin" and obj[1] in ("str", "bytes") \
                and (attr in _STR_METHODS or attr == "maketrans"):
            pyt = str if obj[1] == "str" else bytes
            meth = getattr(pyt, attr)

            def unbound(*a: Any, **k: Any) -> Any:
                if attr != "maketrans" and (not a or not isinstance(a[0], pyt)):
                    raise AbsRaise(f"TypeError: descriptor '{attr}' requires a '{obj[1]}' object", where)
                if attr == "join":
                    a = (a[0], list(self.iterate(a[1]))) + tuple(a[2:])
                try:
                    return meth(*a, **k)
                except (TypeError, ValueError) as exc:
                    raise AbsRaise(f"{type(exc).__name__}: {exc}", where) from exc
            unbound._raw = True  # type: ignore[attr-defined]
            return unbound
        if isinstance(obj, tuple) and len(obj) == 2 and obj[0] == "builtin" and obj[1] == "dict" and attr == "fromkeys":
            fk_ = lambda keys, value=None: {k: value for k in self.dedupe(self.iterate(keys))}  # noqa: E731
            fk_._raw = True  # type: ignore[attr-defined]
            return fk_
        if isinstance(obj, tuple) and attr in getattr(obj, "_fields", ()):
            return getattr(obj, attr)
        if isinstance(obj, tuple) and hasattr(obj, "_fields") and self.pm.has_cls(type(obj).__name__):
            nci = self.pm.cls(type(obj).__name__)
            fnd = self.class_lookup(nci, attr)
            if fnd is not None and fnd[0] == "method":
                m_ = fnd[1]
                if "property" in m_.decorators():
                    return self.call(m_, [obj])
                if m_.is_static():
                    return FuncRef(m_)
                if m_.is_classmethod():
                    return BoundMethod(ClassRef(nci), m_)
                return BoundMethod(obj, m_)
            if fnd is not None and attr not in getattr(obj, "_fields", ()):
                return fnd[1]
            if attr == "__class__":
                return ClassRef(nci)
        if isinstance(obj, tuple) and hasattr(obj, "_fields") and attr in ("_replace", "_asdict", "_fields"):
            return getattr(obj, attr)
        if isinstance(obj, (str, bytes, list, dict, set, tuple, frozenset)):
            if not hasattr(obj, attr):
                raise AbsRaise(f"AttributeError: '{type(obj).__name__}' object has no attribute '{attr}'", where)
            return ("pymethod", obj, attr)
        if isinstance(obj, (int, float)) and not isinstance(obj, bool) and attr in (
                "is_integer", "bit_length", "real", "imag", "conjugate", "as_integer_ratio", "hex", "numerator", "denominator"):
            return getattr(obj, attr)
        if isinstance(obj, slice) and attr in ("start", "stop", "step"):
            return getattr(obj, attr)
        if type(obj).__module__ == "re":              # compiled patterns and match objects are values
            return self._re_attr(obj, attr, where)
        if type(obj).__module__ == "_io" and type(obj).__name__ in ("StringIO", "BytesIO"):
            v_ = getattr(obj, attr, _MISSING)
            if v_ is _MISSING:
                raise AbsRaise(f"AttributeError: {type(obj).__name__}.{attr}", where)
            return v_
        if type(obj).__module__ in ("decimal", "fractions", "_decimal", "_pydecimal", "string", "textwrap"):   # immutable values
            try:
                return getattr(obj, attr)
            except AttributeError as exc:
                raise AbsRaise(f"AttributeError: {exc}", where) from exc
        if type(obj).__name__ in ("mappingproxy", "ChainMap") and type(obj).__module__ in ("builtins", "collections"):
            # read-only views over plain-keyed dicts (the constructor stand-ins check the keys)
            if attr in ("get", "keys", "values", "items", "copy", "maps", "parents", "new_child", "__contains__", "__getitem__",
                        "__len__", "__iter__"):
                return getattr(obj, attr)
            raise AbsRaise(f"AttributeError: '{type(obj).__name__}' object has no attribute '{attr}'", where) \
                if not hasattr(obj, attr) else AnalysisError("ABSINT", f"{type(obj).__name__}.{attr} outside fragment", where)
        if isinstance(obj, AGen) and attr in ("send", "close", "__next__", "__iter__", "throw"):
            if attr == "throw":
                def throw_(exc: Any, *rest: Any) -> Any:
                    if isinstance(exc, tuple) and len(exc) == 2 and exc[0] == "exc":
                        exc = AExc(exc[1], (), exc[1])
                    if isinstance(exc, AExc):
                        exc = AbsRaise(exc.what if hasattr(exc, "what") else str(exc), where)
                    return obj.throw(exc)
                throw_._raw = True  # type: ignore[attr-defined]
                return throw_
            m_ = getattr(obj, attr)
            return m_
        if isinstance(obj, OrdInt):
            raise AnalysisError("CARD", f"attribute {attr} of ordinal {obj.tag}", where)
        raise AnalysisError("ABSINT", f"attribute {attr} of {type(obj).__name__} outside fragment",
                            where)

    def eval_call(self, n: ast.Call, env: dict[str, Any], fi: Optional[FuncInfo]) -> Any:  # noqa: C901
        where = loc(fi.unit.path, n) if fi else ""
        # generator-consuming builtins get lazy semantics for any/all/next
        if isinstance(n.func, ast.Name) and n.func.id not in env:
            nm = n.func.id
            if nm in ("any", "all") and len(n.args) == 1:
                seq = self.iterate(self.eval(n.args[0], env, fi))
                return (any if nm == "any" else all)(self.truth(x) for x in seq)
            if nm == "cast" and len(n.args) == 2:
                return self.eval(n.args[1], env, fi)
            if nm == "super" and not n.args and fi is not None and fi.params:
                return SuperProxy(env.get(fi.params[0]), fi)
        f = self.eval(n.func, env, fi)
        args = []
        for a in n.args:
            if isinstance(a, ast.Starred):
                args.extend(self.iterate(self.eval(a.value, env, fi)))
            else:
                args.append(self.eval(a, env, fi))
        kwargs: dict[str, Any] = {}
        for k in n.keywords:
            if k.arg:
                kwargs[k.arg] = self.eval(k.value, env, fi)
            else:
                more = self.eval(k.value, env, fi)
                if not isinstance(more, dict):
                    raise AnalysisError("ABSINT", f"** of a non-dict outside fragment: {src(n)}", where)
                kwargs.update(more)
        return self.apply_value(f, args, kwargs, n, where, fi)

    def apply_value(self, f: Any, args: list[Any], kwargs: dict[str, Any], n: ast.AST, where: str,
                    fi: Optional[FuncInfo]) -> Any:  # noqa: C901
        """Call of an already evaluated callee (also used for callables passed as values)."""
        if self.depth == 0 and Interp.ACTIVE is not self:
            prev = Interp.ACTIVE
            Interp.ACTIVE = self
            try:
                return self.apply_value(f, args, kwargs, n, where, fi)
            finally:
                Interp.ACTIVE = prev
        if isinstance(f, BoundMethod):
            return self.call(f.fi, [f.obj] + args, kwargs)
        if isinstance(f, AObj):
            cm_ = self.special(f, "__call__")
            if cm_ is None:
                raise AbsRaise(f"TypeError: '{f._cls}' object is not callable", where)
            return self.apply_value(cm_, [f] + list(args), kwargs, n, where, fi)
        if isinstance(f, AStaticMethod):
            return self.apply_value(f.func, args, kwargs, n, where, fi)
        if isinstance(f, FuncRef):
            if f.fi.cls is not None and not f.fi.is_static() and f.fi.is_classmethod():
                return self.call(f.fi, [ClassRef(f.fi.cls)] + args, kwargs, raw=f.raw)
            return self.call(f.fi, args, kwargs, raw=f.raw)
        if isinstance(f, Lambda):
            e2 = dict(f.env)
            e2.update(self._bind_local(f.node.args, "<lambda>", f.defaults, args, kwargs))
            return self.eval(f.node.body, e2, f.fi)
        if isinstance(f, LocalFunc):
            return self.call_local(f, args, kwargs)
        if isinstance(f, BoundWrapper):
            return self.call_local(f.func, [f.obj] + list(args), kwargs)
        if isinstance(f, ClassRef):
            hook = self.native.get(f"new:{f.ci.name}")
            if hook is not None:
                return hook(*args, **kwargs)
            self.ensure_built(f.ci)
            missing = self._abstract_methods(f.ci)
            if missing:
                raise AbsRaise(f"TypeError: Can't instantiate abstract class {f.ci.name} without an implementation for abstract "
                               f"method{'s' if len(missing) > 1 else ''} {', '.join(repr(m_) for m_ in missing)}", where)
            if self.pm.is_enum(f.ci) and len(args) == 1:
                if isinstance(args[0], EnumVal) and args[0].cls == f.ci.name:
                    return args[0]
                for k, m_ in self.enum_table(f.ci).items():
                    if self._eq(m_.value, args[0]) and (type(m_.value) is type(args[0]) or not isinstance(args[0], bool)
                                                       and not isinstance(m_.value, bool)):
                        return m_
                raise AbsRaise(f"ValueError: {args[0]!r} is not a valid {f.ci.name}", where)
            if any(b.split(".")[-1].split("[")[0] == "TypedDict" for c in self.pm.mro(f.ci) for b in c.bases):
                # typing.TypedDict: calling the class builds a plain dict (no check of keys or value types at run time)
                try:
                    return dict(*args, **kwargs)
                except (TypeError, ValueError) as exc:
                    raise AbsRaise(f"{type(exc).__name__}: {exc}", where) from exc
            init_f = self.class_lookup(f.ci, "__init__")
            if init_f is not None and init_f[0] == "value":
                obj = AObj(f.ci.name, _complete=True)
                if fi is not None:
                    self.sites.add((fi.unit.path, getattr(n, "lineno", 0), f.ci.name))
                self.apply_value(init_f[1], [obj] + args, kwargs, n, where, fi)
                return obj
            init = self.pm.method(f.ci, "__init__")
            obj = AObj(f.ci.name, _complete=True)
            if fi is not None:
                self.sites.add((fi.unit.path, getattr(n, "lineno", 0), f.ci.name))
            if init is not None:
                self.call(init, [obj] + args, kwargs)
                return obj
            rk = self.pm.record_kind(f.ci)
            if rk is not None:
                return self.make_record(f.ci, rk, obj, args, kwargs, where)
            if args or kwargs:
                known = {"object", "ABC", "Exception", "Enum", "Generic", "Protocol"}
                if f.ci.node.decorator_list or any(self.pm.resolve_base(f.ci, b) is None and b.split(".")[-1].split("[")[0] not in known
                                                    for c in self.pm.mro(f.ci) for b in c.bases):
                    raise AnalysisError("ABSINT", f"construction of {f.ci.name} through a decorator or base class "
                                                  f"outside the fragment", where)
                raise AbsRaise(f"TypeError: {f.ci.name}() takes no arguments", where)
            return obj
        if isinstance(f, SuperProxy):
            return None
        if isinstance(f, tuple) and f and f[0] == "builtin":
            return self.builtin(f[1], args, kwargs, n, where)
        if isinstance(f, tuple) and len(f) == 2 and f[0] == "exc":
            return AExc(f[1], tuple(args), f"{f[1]}({', '.join(repr(a) if isinstance(a, (str, int, float)) else '...' for a in args)})")
        if isinstance(f, tuple) and f and f[0] == "subclasses":
            base = f[1]
            return [ClassRef(c) for c in self.pm.classes.values()
                    if c is not base and any(self.pm.resolve_base(c, b) is base for b in c.bases)]
        if isinstance(f, tuple) and f and f[0] == "pymethod":
            _, obj, attr = f
            if attr == "__getitem__" and len(args) == 1:
                try:
                    return obj[self.canon_key(obj, args[0])] if isinstance(obj, dict) else obj[args[0]]
                except (KeyError, IndexError, TypeError) as exc:
                    raise AbsRaise(f"{type(exc).__name__} at {src(n)}", where) from exc
            if attr == "__contains__" and len(args) == 1:
                return self.compare(ast.In(), args[0], obj, n)
            if attr == "__len__" and not args:
                return self.builtin("len", [obj], {}, n, where)
            if attr == "__eq__" and len(args) == 1:
                return self._eq(obj, args[0])
            if attr in ("append", "extend", "add", "update", "pop", "insert", "remove", "clear",
                        "sort", "reverse", "setdefault", "popleft", "appendleft", "extendleft", "rotate",
                        "discard", "popitem", "difference_update", "intersection_update",
                        "symmetric_difference_update", "subtract") and isinstance(obj, (list, set, dict)) \
                    and getattr(obj, "_frozen", False):
                raise AbsMutation(f"{attr}() on an input container ({src(n)})", where)
            _DUNDER_BIN = {"__mod__": ast.Mod(), "__add__": ast.Add(), "__mul__": ast.Mult(), "__rmul__": ast.Mult(),
                           "__sub__": ast.Sub(), "__or__": ast.BitOr(), "__and__": ast.BitAnd()}
            _DUNDER_CMP = {"__lt__": ast.Lt(), "__le__": ast.LtE(), "__gt__": ast.Gt(), "__ge__": ast.GtE(), "__ne__": ast.NotEq()}
            if attr in _DUNDER_BIN and len(args) == 1 and not kwargs and hasattr(obj, attr):
                # the operator spelled as a method call on a builtin value ("[%s to %s]".__mod__, list.__add__ ...)
                return self.binop(_DUNDER_BIN[attr], obj, args[0], n)
            if attr in _DUNDER_CMP and len(args) == 1 and not kwargs and hasattr(obj, attr):
                return self.compare(_DUNDER_CMP[attr], obj, args[0], n)
            if attr in ("__str__", "__repr__") and not args and isinstance(obj, (str, int, float, bool)):
                return getattr(obj, attr)()
            if attr == "__getitem__" and len(args) == 1 and isinstance(obj, (str, bytes, list, tuple)) and \
                    isinstance(args[0], (int, slice)) and not isinstance(args[0], bool):
                try:
                    return obj[args[0]]
                except IndexError as exc:
                    raise AbsRaise(f"IndexError at {src(n)}: {exc}", where) from exc
            if isinstance(obj, (str, bytes)) and attr in _STR_METHODS:
                if attr == "join":
                    args = [list(self.iterate(args[0]))]
                if attr == "format":
                    args = [self._fmt_wrap(x) for x in args]
                    kwargs = {k: self._fmt_wrap(x) for k, x in kwargs.items()}
                try:
                    return getattr(obj, attr)(*args, **kwargs)
                except (TypeError, ValueError, UnicodeError) as exc:
                    raise AbsRaise(f"{type(exc).__name__} at {src(n)}: {exc}", where) from exc
            if isinstance(obj, list) and attr == "sort":
                key = kwargs.get("key")
                seq = list(obj)
                res = self._sort([(self._apply(key, x), x) for x in seq], keyed=True) if key is not None \
                    else self._sort(seq, keyed=False)
                if kwargs.get("reverse"):
                    res.reverse()
                obj[:] = res
                return None
            if isinstance(obj, (set, frozenset, dict)) and not isinstance(obj, TaggedList):
                # hashed containers compare their keys with the keys' own __hash__/__eq__
                if attr in ("get", "setdefault", "pop", "add", "discard", "remove") and args \
                        and not (attr == "pop" and isinstance(obj, set)):
                    args = [self.canon_key(obj, args[0])] + list(args[1:])
                elif attr == "update" and isinstance(obj, set):
                    for extra in args:
                        for x in self.iterate(extra):
                            obj.add(self.canon_key(obj, x))
                    return None
                elif attr == "update" and isinstance(obj, dict) and args and isinstance(args[0], dict):
                    for k2, v2 in args[0].items():
                        obj[self.canon_key(obj, k2)] = v2
                    args = []
                    if not kwargs:
                        return None
                elif attr in ("union", "difference", "intersection", "issubset", "symmetric_difference",
                              "issuperset", "isdisjoint") and isinstance(obj, (set, frozenset)) and \
                        any(self._has_abs(x) for x in obj):
                    others = [list(self.iterate(a)) for a in args]
                    mem = lambda x, xs: any(self._eq(x, y) for y in xs)  # noqa: E731
                    if attr == "union":
                        return set(self.dedupe(list(obj) + [y for o in others for y in o]))
                    if attr == "difference":
                        return {x for x in obj if not any(mem(x, o) for o in others)}
                    if attr == "intersection":
                        return {x for x in obj if all(mem(x, o) for o in others)}
                    if attr == "issubset":
                        return all(mem(x, others[0]) for x in obj)
                    if attr == "issuperset":
                        return all(mem(y, obj) for y in others[0])
                    if attr == "isdisjoint":
                        return not any(mem(x, others[0]) for x in obj)
                    return {x for x in obj if not mem(x, others[0])} | {y for y in self.dedupe(others[0]) if not mem(y, obj)}
            if isinstance(obj, set) and attr == "pop" and not args:
                # "an arbitrary element": which one depends on the hash order - taken under the imposed set order, so that
                # code whose result depends on it differs between the two orders
                if getattr(obj, "_frozen", False):
                    raise AbsMutation(f"pop() on an input container ({src(n)})", where)
                seq_ = list(self.iterate(obj))
                if not seq_:
                    raise AbsRaise(f"KeyError: 'pop from an empty set' at {src(n)}", where)
                obj.remove(seq_[0])
                return seq_[0]
            if isinstance(obj, (list, set, dict, tuple, frozenset)) and attr in (
                    "append", "extend", "add", "update", "pop", "insert", "keys", "values",
                    "items", "get", "index", "count", "copy", "remove", "sort", "reverse", "clear",
                    "setdefault", "discard", "union", "difference", "intersection", "issubset",
                    "symmetric_difference", "issuperset", "isdisjoint", "popitem", "popleft", "appendleft",
                    "extendleft", "rotate", "most_common", "elements", "total", "subtract", "move_to_end",
                    "difference_update", "intersection_update", "symmetric_difference_update"):
                if attr in ("index", "count", "remove") and isinstance(obj, (list, tuple)) and args and \
                        (self._has_abs(args[0]) or any(self._has_abs(x) for x in obj)):
                    hits = [i for i, x in enumerate(obj) if x is args[0] or self._eq(x, args[0])]
                    if attr == "count":
                        return len(hits)
                    if not hits:
                        raise AbsRaise(f"ValueError at {src(n)}", where)
                    if attr == "index":
                        return hits[0]
                    del obj[hits[0]]
                    return None
                try:
                    return getattr(obj, attr)(*args, **kwargs)
                except (IndexError, KeyError, ValueError, AttributeError, TypeError) as exc:
                    raise AbsRaise(f"{type(exc).__name__} at {src(n)}", where) from exc
            if not hasattr(obj, attr):
                raise AbsRaise(f"AttributeError: '{type(obj).__name__}' object has no attribute '{attr}' at {src(n)}", where)
            raise AnalysisError("ABSINT", f"method {attr} of {type(obj).__name__} outside fragment",
                                where)
        if callable(f) and not isinstance(f, (AObj, ClassRef, FuncRef, BoundMethod, Lambda, LocalFunc, ModuleRef,
                                              EnumVal, SuperProxy)):
            nargs = args if getattr(f, "_raw", False) else [AObjProxy(self, a) if isinstance(a, AObj) else a for a in args]
            try:
                return f(*nargs, **kwargs)
            except (IndexError, KeyError) as exc:
                raise AbsRaise(f"{type(exc).__name__} at {src(n)}", where) from exc
            except StopIteration as exc:
                if isinstance(getattr(f, "__self__", None), AGen):
                    raise AbsRaise("StopIteration", where) from exc
                raise
            except TypeError as exc:
                owner = getattr(f, "__self__", None)
                if owner is not None and not isinstance(owner, type(sys)) and not type(owner).__module__.startswith("sa") \
                        and ("positional argument" in str(exc) or "unexpected keyword" in str(exc) or "missing" in str(exc)):
                    # a method of a library object (a parse-tree node ...) called with the wrong arguments
                    raise AbsRaise(f"TypeError: {exc}", where) from exc
                raise
        if isinstance(f, ModuleRef):
            hook = self.native.get(f.name)
            if hook is not None:
                return hook(*args, **kwargs)
            root_mod = f.name.split(".")[0]
            if root_mod in _PURE_MODULES and "." in f.name:
                # functions of the standard library over plain values: computed by the library itself
                def plain(x: Any) -> bool:
                    return x is None or isinstance(x, (str, bytes, int, float, bool)) or \
                        (isinstance(x, (list, tuple, dict, set, frozenset)) and all(plain(y) for y in (x.items() if isinstance(x, dict) else x)))
                conv = [list(a) if hasattr(a, "__next__") else a for a in args]
                if all(plain(a) for a in conv) and all(plain(v) for v in kwargs.values()):
                    import importlib
                    target: Any = importlib.import_module(root_mod)
                    try:
                        for part in f.name.split(".")[1:]:
                            target = getattr(target, part)
                        out_ = target(*conv, **kwargs)
                    except AttributeError:
                        raise AnalysisError("ABSINT", f"unknown library function {f.name}", where)
                    except (TypeError, ValueError, KeyError, IndexError) as exc:
                        raise AbsRaise(f"{type(exc).__name__}: {exc}", where) from exc
                    return iter(list(out_)) if hasattr(out_, "__next__") else out_
            last = f.name.split(".")[-1]
            if last.endswith(("Exception", "Error")) and last[:1].isupper():
                # an exception class of a library: the object is only ever raised or inspected as text
                return AExc(last, tuple(args), f"{last}({', '.join(repr(a) if isinstance(a, (str, int, float)) else '...' for a in args)})")
            raise AnalysisError("ABSINT", f"call of external {f.name} outside fragment", where)
        raise AnalysisError("ABSINT", f"call of {src(getattr(n, 'func', n))} outside fragment", where)

    def builtin(self, name: str, args: list[Any], kwargs: dict[str, Any], n: ast.AST,
                where: str) -> Any:
        if name == "object":
            return Native() if not args else (_ for _ in ()).throw(AbsRaise("TypeError: object() takes no arguments", where))
        if name in ("chr", "ord", "hex", "bin", "oct", "ascii"):
            if any(isinstance(a, (AObj, OrdInt, EnumVal)) for a in args):
                raise AbsRaise(f"TypeError: {name}() of an object", where)
            try:
                return {"chr": chr, "ord": ord, "hex": hex, "bin": bin, "oct": oct, "ascii": ascii}[name](*args)
            except (TypeError, ValueError, OverflowError) as exc:
                raise AbsRaise(f"{type(exc).__name__}: {exc}", where) from exc
        if name == "format":
            v = args[0]
            spec = args[1] if len(args) > 1 else ""
            if isinstance(v, (AObj, OrdInt, EnumVal)):
                if spec:
                    raise AnalysisError("ABSINT", "format() with a spec on an abstract value", where)
                return self.to_str(v)
            try:
                return format(v, spec)
            except (ValueError, TypeError) as exc:
                raise AbsRaise(f"{type(exc).__name__}: {exc}", where) from exc
        if name == "property":
            return AProperty(args[0] if args else kwargs.get("fget"), args[1] if len(args) > 1 else kwargs.get("fset"),
                             args[3] if len(args) > 3 else kwargs.get("doc"))
        if name == "staticmethod":
            return AStaticMethod(args[0])
        if name == "classmethod":
            return AClassMethod(args[0])
        if name == "slice":
            return slice(*args)
        if name == "len":
            v = args[0]
            if is_native(v):
                return len(v)  # type: ignore[arg-type]
            if isinstance(v, AObj) and "_len" in v._f:
                return v._f["_len"]
            if isinstance(v, (AObj, EnumVal)) or (isinstance(v, ClassRef) and self.pm.is_enum(v.ci)):
                if isinstance(v, ClassRef):
                    return len(self.iterate(v))
                lm = self.special(v, "__len__")
                if lm is None:
                    raise AbsRaise(f"TypeError: object of type '{v._cls if isinstance(v, AObj) else v.cls}' has no len()", where)
                return self.apply_value(lm, [v], {}, n, where, None)
            if isinstance(v, (list, tuple, set, dict, str, frozenset)) or \
                    isinstance(v, type({}.keys())):
                ln = len(v)
                tag = getattr(v, "_ordtag", None)
                return OrdInt(ln, tag[0], tag[1]) if tag else ln
            if hasattr(v, "__next__") or isinstance(v, (int, float)) or v is None:
                raise AbsRaise(f"TypeError: object of type '{type(v).__name__}' has no len()", where)
            if isinstance(v, (bytes, bytearray, range)) or type(v).__name__ in ("dict_values", "dict_items", "Counter", "deque", "mappingproxy", "ChainMap"):
                return len(v)
            raise AnalysisError("ABSINT", f"len() of {type(v).__name__}", where)
        if name == "issubclass":
            c_, t = args
            ts = t if isinstance(t, tuple) and not (len(t) == 2 and t[0] in ("builtin", "exc")) else (t,)
            for tt in ts:
                if isinstance(tt, tuple) and tt[0] == "builtin" and tt[1] == "object":
                    return True
                if isinstance(c_, ClassRef) and isinstance(tt, ClassRef):
                    if tt.ci in self.pm.mro(c_.ci):
                        return True
                elif isinstance(c_, ClassRef) and isinstance(tt, tuple) and tt[0] == "exc":
                    if tt[1] in self.pm.base_names(c_.ci) or tt[1] in ("Exception", "BaseException") and \
                            self.pm.base_names(c_.ci) & {"Exception", "FlamaException"}:
                        return True
                elif isinstance(c_, tuple) and isinstance(tt, tuple) and c_[0] in ("exc", "builtin") and tt[0] in ("exc", "builtin"):
                    if c_[1] == tt[1] or tt[1] in _EXC_PARENTS.get(c_[1], {"Exception"}) or tt[1] == "BaseException":
                        return True
                    if c_[0] == "builtin" and tt[0] == "builtin" and c_[1] in _BUILTIN_TYPES and tt[1] in _BUILTIN_TYPES \
                            and issubclass(_BUILTIN_TYPES[c_[1]], _BUILTIN_TYPES[tt[1]]):
                        return True
                elif isinstance(c_, type) and isinstance(tt, type):
                    if issubclass(c_, tt):
                        return True
            return False
        if name == "isinstance":
            v, t = args
            ts = t if isinstance(t, tuple) and not (len(t) == 2 and t[0] in ("builtin", "exc")) else (t,)
            for tt in ts:
                if not (isinstance(tt, (ClassRef, type)) or (isinstance(tt, tuple) and len(tt) == 2 and tt[0] in ("builtin", "exc"))
                        or isinstance(tt, ModuleRef)):
                    raise AbsRaise("TypeError: isinstance() arg 2 must be a type, a tuple of types, or a union", where)
            for tt in ts:
                if isinstance(tt, tuple) and tt == ("builtin", "NoneType"):
                    if v is None:
                        return True
                    continue
                if isinstance(tt, type) and not isinstance(v, (AObj, OrdInt, EnumVal)):
                    if isinstance(v, tt):
                        return True
                    continue
                if isinstance(tt, tuple) and len(tt) == 2 and tt[0] == "exc":
                    if isinstance(v, AbsRaise) and (self._exc_kind(v) == tt[1] or tt[1] in _EXC_PARENTS.get(self._exc_kind(v), {"Exception"})
                                                    or tt[1] == "BaseException"):
                        return True
                    if isinstance(v, AExc) and (v.kind == tt[1] or tt[1] in _EXC_PARENTS.get(v.kind, {"Exception"})):
                        return True
                    continue
                if isinstance(tt, tuple) and tt[0] == "builtin" and tt[1] == "object":
                    return True
                if isinstance(tt, ClassRef) and isinstance(v, tuple) and type(v).__name__ == tt.ci.name \
                        and hasattr(v, "_fields"):
                    return True
                if isinstance(tt, tuple) and tt[0] == "builtin":
                    py = _BUILTIN_TYPES.get(tt[1])
                    if py is not None and isinstance(v, py) and not isinstance(v, (AObj, OrdInt)):
                        if py is int and isinstance(v, bool):
                            return True
                        return True
                elif isinstance(tt, ClassRef):
                    if is_native(v):
                        if tt.ci.name in getattr(v, "_isa", ()) or \
                                tt.ci.name in [c.__name__ for c in type(v).__mro__]:
                            return True
                        continue
                    if isinstance(v, AObj):
                        if v._cls == tt.ci.name:
                            return True
                        if self.pm.has_cls(v._cls) and tt.ci.name in self.pm.base_names(self.pm.cls(v._cls)):
                            return True
                    if isinstance(v, EnumVal) and v.cls == tt.ci.name:
                        return True
            return False
        if name == "sum":
            tot: Any = args[1] if len(args) > 1 else 0
            for x in self.iterate(args[0]):
                if isinstance(x, OrdInt):
                    ARITH_ON_ORDINALS.add(x.tag)
                    x = x.v
                tot = tot + (int(x) if isinstance(x, bool) else x)
            return tot
        if name == "next":
            if isinstance(args[0], AObj) and self.special(args[0], "__next__") is not None:
                try:
                    return self.apply_value(self.special(args[0], "__next__"), [args[0]], {}, n, where, None)
                except AbsRaise as exc:
                    if len(args) > 1 and exc.what.strip().split("(")[0].split(":")[0].strip() == "StopIteration":
                        return args[1]
                    raise
            if not hasattr(args[0], "__next__"):
                raise AbsRaise(f"TypeError: '{type(args[0]).__name__}' object is not an iterator", where)
            for x in args[0]:
                return x
            if len(args) > 1:
                return args[1]
            raise AbsRaise("StopIteration", where)
        if name in ("list", "tuple", "set", "frozenset"):
            seq = list(self.iterate(args[0])) if args else []
            if name in ("set", "frozenset"):
                seq = self.dedupe(seq)
            return {"list": list, "tuple": tuple, "set": set, "frozenset": frozenset}[name](seq)
        if name == "sorted":
            seq = list(self.iterate(args[0]))
            key = kwargs.get("key")
            if kwargs.get("reverse"):
                # reverse=True keeps the original order of equal elements: sort the reversed list, reverse back
                seq = list(reversed(seq))
            res_ = self._sort([(self._apply(key, x), x) for x in seq], keyed=True) if key is not None \
                else self._sort(seq, keyed=False)
            if kwargs.get("reverse"):
                res_ = list(reversed(res_))
            return res_
        if name == "str":
            return self.to_str(args[0]) if args else ""
        if name == "bool":
            return self.truth(args[0]) if args else False
        if name in ("int", "float") and not args:
            return 0 if name == "int" else 0.0
        if name == "int":
            if isinstance(args[0], OrdInt):
                return args[0]
            if isinstance(args[0], (AObj, EnumVal)):
                raise AbsRaise(f"TypeError: int() argument must be a string or a number, not an object", where)
            try:
                return int(*args, **kwargs)            # int(text, base) included
            except (ValueError, TypeError) as exc:
                raise AbsRaise(f"{type(exc).__name__}: int({args[0]!r})", where) from exc
        if name in ("min", "max"):
            seq = list(self.iterate(args[0])) if len(args) == 1 else list(args)
            if not seq:
                if "default" in kwargs:
                    return kwargs["default"]
                raise AbsRaise("ValueError: empty sequence", where)
            keyf = kwargs.get("key")
            best = seq[0]
            bk = self._apply(keyf, best) if keyf is not None else best
            for x in seq[1:]:
                k_ = self._apply(keyf, x) if keyf is not None else x
                if (self._lt(k_, bk) if name == "min" else self._lt(bk, k_)):
                    best, bk = x, k_
            return best
        # enumerate / zip / map / filter are lazy, as in Python: an operand may be endless (itertools.count), and what they
        # compute is computed when it is asked for
        if name == "enumerate":
            return enumerate(iter(self.iterate(args[0])), *args[1:], **kwargs)
        if name == "zip":
            its_ = [iter(self.iterate(a)) for a in args]
            if kwargs.get("strict"):
                def strict_zip() -> Any:
                    try:
                        yield from zip(*its_, strict=True)
                    except ValueError as exc:
                        raise AbsRaise(f"ValueError: {exc}", where) from exc
                return strict_zip()
            return zip(*its_)
        if name == "range":
            return range(*[a.__index__() if isinstance(a, OrdInt) else a for a in args])
        if name == "map":
            its_ = [iter(self.iterate(a)) for a in args[1:]]
            if len(its_) > 1:
                return (self.apply_value(args[0], list(row), {}, n, where, None) for row in zip(*its_))
            return (self._apply(args[0], x) for x in its_[0])
        if name == "filter":
            src_ = iter(self.iterate(args[1]))
            return (x for x in src_ if (self.truth(x) if args[0] is None else self.truth(self._apply(args[0], x))))
        if name == "divmod":
            return divmod(*args)
        if name == "pow":
            return pow(*args)
        if name == "repr":
            return repr(args[0]) if not isinstance(args[0], (AObj, EnumVal)) else self.to_str(args[0])
        if name == "type":
            v = args[0]
            if isinstance(v, AbsRaise):
                return self._exc_type(v)
            if isinstance(v, AExc):
                return ClassRef(self.pm.cls(v.kind)) if self.pm.has_cls(v.kind) else ("exc", v.kind)
            if isinstance(v, AObj) and self.pm.has_cls(v._cls):
                return ClassRef(self.pm.cls(v._cls))
            if is_native(v) and self.pm.has_cls(type(v).__name__):
                return ClassRef(self.pm.cls(type(v).__name__))     # a class of the environment (e.g. a parser context)
            if isinstance(v, tuple) and hasattr(v, "_fields") and self.pm.has_cls(type(v).__name__):
                return ClassRef(self.pm.cls(type(v).__name__))
            if isinstance(v, EnumVal) and self.pm.has_cls(v.cls):
                return ClassRef(self.pm.cls(v.cls))
            if is_native(v) or isinstance(v, (AObj, Lambda, LocalFunc, FuncRef, BoundMethod)):
                raise AnalysisError("ABSINT", f"type() of {type(v).__name__} outside fragment", where)
            return ("builtin", type(v).__name__)
        if name == "iter":
            if hasattr(args[0], "__next__"):
                return args[0]
            if isinstance(args[0], AObj):
                r_ = self.iterate(args[0])
                return r_ if hasattr(r_, "__next__") else iter(r_)
            if isinstance(args[0], list):
                return iter(args[0])          # live view of the list, as in Python
            return iter(list(self.iterate(args[0])))
        if name == "vars":
            v = args[0]
            if isinstance(v, AObj):
                return {k: x for k, x in v._f.items() if k not in ("_frozen", "_complete")}
            raise AnalysisError("ABSINT", "vars() outside fragment", where)
        if name == "hasattr":
            v, a = args
            if isinstance(v, AObj):
                if a in v._f:
                    return True
                if not self.pm.has_cls(v._cls):
                    return False
                self.ensure_built(self.pm.cls(v._cls))
                if self.class_lookup(self.pm.cls(v._cls), a) is not None:
                    return True
                if self.class_lookup(self.pm.cls(v._cls), "__getattr__") is not None:
                    try:
                        self.getattr(v, a, n, None)
                        return True
                    except AbsRaise as exc:
                        if self._exc_kind(exc) == "AttributeError":
                            return False
                        raise
                return False
            if isinstance(v, (BoundMethod, FuncRef)):
                return a in v.attrs or a in ("__name__", "__doc__")
            if isinstance(v, (LocalFunc, BoundWrapper)):
                lf_ = v.func if isinstance(v, BoundWrapper) else v
                return a in lf_.attrs or a in ("__name__", "__doc__", "__qualname__")
            return False
        if name == "setattr":
            v, a, val = args
            if isinstance(v, (BoundMethod, FuncRef, LocalFunc)):
                v.attrs[a] = val
                return None
            if isinstance(v, AObj):
                if v._f.get("_frozen"):
                    raise AbsMutation(f"setattr({v._cls}, {a!r})", where)
                self.setattr_obj(v, a, val, where)
                return None
            if isinstance(v, ClassRef):
                self.set_class_attr(v.ci, a, val)
                return None
            if isinstance(v, EnumVal):
                GLOBAL_STATE["modconst"].setdefault(("enumattrs", v.cls, v.name), {})[a] = val
                return None
            raise AnalysisError("ABSINT", "setattr outside fragment", where)
        if name == "getattr":
            v, a = args[0], args[1]
            if not isinstance(a, str):
                raise AbsRaise(f"TypeError: attribute name must be string, not '{a._cls if isinstance(a, AObj) else type(a).__name__}'", where)
            try:
                return self.getattr(v, a, n, None)
            except AbsRaise:
                if len(args) > 2:
                    return args[2]
                raise
        if name == "dir":
            v = args[0]
            if isinstance(v, AObj) and self.pm.has_cls(v._cls):
                names = {k for k in v._f if not k.startswith("_") or k.startswith("__") is False}
                names = {k for k in v._f if k not in ("_frozen", "_complete")}
                for c in self.pm.mro(self.pm.cls(v._cls)):
                    names.update(k for k in c.methods if not k.endswith(".setter"))
                    names.update(c.class_attrs)
                return sorted(names)
            raise AnalysisError("ABSINT", "dir() outside fragment", where)
        if name == "callable":
            return isinstance(args[0], (BoundMethod, BoundWrapper, FuncRef, Lambda, LocalFunc, ClassRef))
        if name == "float":
            try:
                return float(args[0])
            except (ValueError, TypeError) as exc:
                raise AbsRaise(f"{type(exc).__name__}: float({args[0]!r})", where) from exc
        if name == "abs":
            return abs(args[0])
        if name == "dict":
            return dict(*args, **kwargs)
        if name == "open":
            hook = self.native.get("builtins.open")
            if hook is None:
                raise AnalysisError("ABSINT", "open() outside fragment (no virtual file system)", where)
            return hook(*args, **kwargs)
        if name == "round":
            if any(isinstance(a, OrdInt) for a in args):
                raise AnalysisError("CARD", "round() of an ordinal", where)
            if any(isinstance(a, (AObj, EnumVal)) for a in args):
                raise AbsRaise("TypeError: round() of an object", where)
            try:
                return round(*args)
            except (TypeError, ValueError, OverflowError) as exc:
                raise AbsRaise(f"{type(exc).__name__}: {exc}", where) from exc
        if name == "print":
            target = kwargs.get("file")
            if target is not None:
                sep, end = kwargs.get("sep", " "), kwargs.get("end", "\n")
                text = ("" if sep is None else sep if isinstance(sep, str) else " ").join(self.to_str(a) for a in args) + \
                    ("\n" if end is None else end)
                wnode = ast.Attribute(value=ast.Name(id="file", ctx=ast.Load()), attr="write", ctx=ast.Load())
                self.apply_value(self.getattr(target, "write", wnode, None), [text], {}, n, where, None)
            return None
        if name == "reversed":
            return iter(list(reversed(list(self.iterate(args[0])))))
        if name == "hash":
            return ("hash", self.hash_key(args[0]))
        if name == "id":
            if isinstance(args[0], (AObj, list, dict, set)) or is_native(args[0]):
                return id(args[0])            # the identity of the (abstract) object: unique while it is alive
            if args[0] is None or isinstance(args[0], (str, bytes, int, float, tuple, frozenset, EnumVal)):
                # immutable values: the same object has the same identity for as long as something holds it (whether two
                # equal values are one object is CPython's business, here as there)
                return id(args[0])
            raise AnalysisError("ABSINT", "id() of a value outside fragment", where)
        if name in _BUILTIN_TYPES:
            raise AnalysisError("ABSINT", f"constructor {name} outside fragment", where)
        raise AnalysisError("ABSINT", f"builtin {name} outside fragment", where)

    def decorated_attrs(self, m: FuncInfo) -> dict[str, Any]:
        """Function attributes set by the decorators of `m` (each decorator is evaluated from source
        on a function reference; `property`/`staticmethod`/`classmethod`/abstract are skipped)."""
        cache = self.__dict__.setdefault("_deco_cache", {})
        if m.qual in cache:
            return cache[m.qual]
        attrs: dict[str, Any] = {}
        cache[m.qual] = attrs
        for d in reversed(m.node.decorator_list):
            nm = ast.unparse(d)
            if nm in ("property", "staticmethod", "classmethod", "abstractmethod", "total_ordering") \
                    or nm.endswith((".setter", ".deleter")):
                continue
            try:
                dec = self.eval(d, {}, m)
            except AnalysisError:
                continue
            if isinstance(dec, FuncRef):
                ref = FuncRef(m, attrs)
                self.call(dec.fi, [ref])
        return attrs

    def dedupe(self, seq: Any) -> list[Any]:
        """First occurrences under the elements' own equality (what building a set / dict does)."""
        out: list[Any] = []
        keys: list[Any] = []
        for x in seq:
            if isinstance(x, AObj):
                try:
                    k = self.hash_key(x)
                except AbsRaise:
                    k = ("id", id(x))
                if any(k == k2 and self._eq(x, y) for k2, y in zip(keys, out)):
                    continue
                keys.append(k)
                out.append(x)
            else:
                if any(not isinstance(y, AObj) and x == y for y in out):
                    continue
                keys.append(None)
                out.append(x)
        return out

    def make_record(self, ci: ClassInfo, rk: tuple[str, dict[str, bool]], obj: AObj, args: list[Any],
                    kwargs: dict[str, Any], where: str) -> Any:
        """Instance of a @dataclass / NamedTuple class: __init__ synthesised from the annotated fields."""
        fields = self.pm.record_fields(ci)
        no_init: list[tuple[str, ast.expr]] = []
        if rk[0] == "dataclass":
            keep = []
            for n_, d_ in fields:
                if isinstance(d_, ast.Call) and ast.unparse(d_.func) in ("field", "dataclasses.field") and \
                        any(k.arg == "init" and isinstance(k.value, ast.Constant) and k.value.value is False for k in d_.keywords):
                    no_init.append((n_, d_))
                else:
                    keep.append((n_, d_))
                if isinstance(d_, ast.Call) and ast.unparse(d_.func) in ("field", "dataclasses.field") and \
                        any(k.arg in ("kw_only",) for k in d_.keywords):
                    raise AnalysisError("ABSINT", f"dataclass field option kw_only on {ci.name}.{n_}: outside fragment", where)
            fields = keep
            if rk[1].get("kw_only") or rk[1].get("slots"):
                raise AnalysisError("ABSINT", f"dataclass option kw_only / slots on {ci.name}: outside fragment", where)
        names = [n for n, _ in fields]
        if len(args) > len(names):
            raise AbsRaise(f"TypeError: {ci.name}() takes {len(names)} positional arguments but {len(args)} were given", where)
        vals: dict[str, Any] = dict(zip(names, args))
        for k, v in kwargs.items():
            if k not in names or k in vals:
                raise AbsRaise(f"TypeError: {ci.name}() got an unexpected or repeated argument {k!r}", where)
            vals[k] = v
        fake = FuncInfo(f"{ci.qual}.<class>", "<class>", ast.FunctionDef(name="<class>"), ci.unit)  # type: ignore
        for n, d in fields:
            if n in vals:
                continue
            if d is None:
                raise AbsRaise(f"TypeError: {ci.name}() missing required argument {n!r}", where)
            dsrc = ast.unparse(d)
            if isinstance(d, ast.Call) and dsrc.split("(")[0] in ("field", "dataclasses.field"):
                kw = {k.arg: k.value for k in d.keywords}
                if "default_factory" in kw:
                    vals[n] = self.apply_value(self.eval(kw["default_factory"], {}, fake), [], {}, d, where, fake)
                elif "default" in kw:
                    vals[n] = self.eval(kw["default"], {}, fake)
                else:
                    raise AbsRaise(f"TypeError: {ci.name}() missing required argument {n!r}", where)
            else:
                vals[n] = self.class_attr(ci, n) if rk[0] == "namedtuple" else self._default(fake, f"{ci.qual}.{n}", d)
        if rk[0] == "namedtuple":
            import collections as _c
            key = ("nt", ci.qual)
            if key not in GLOBAL_STATE["modconst"]:
                GLOBAL_STATE["modconst"][key] = _c.namedtuple(ci.name, names)  # type: ignore[misc]
            return GLOBAL_STATE["modconst"][key](*[vals[n] for n in names])
        for n in names:
            obj._f[n] = vals[n]
        for n, d in no_init:                          # fields kept out of __init__: their default, if any, is set
            kw = {k.arg: k.value for k in d.keywords}  # type: ignore[attr-defined]
            if "default_factory" in kw:
                obj._f[n] = self.apply_value(self.eval(kw["default_factory"], {}, fake), [], {}, d, where, fake)
            elif "default" in kw:
                obj._f[n] = self.eval(kw["default"], {}, fake)
        allf = [n for n, _ in self.pm.record_fields(ci)]
        cmpf = tuple(n for n, d in self.pm.record_fields(ci)
                     if not (isinstance(d, ast.Call) and ast.unparse(d.func) in ("field", "dataclasses.field") and
                             any(k.arg == "compare" and isinstance(k.value, ast.Constant) and k.value.value is False for k in d.keywords)))
        obj._f["_record"] = (cmpf, rk[1], tuple(allf))
        post = self.special(obj, "__post_init__")
        if post is not None:
            self.apply_value(post, [obj], {}, ast.Constant(value=None), where, None)
        if rk[1].get("frozen"):
            obj._f["_frozen_record"] = True
        return obj

    def _match(self, p: ast.pattern, v: Any, binds: dict[str, Any], env: dict[str, Any],
               fi: Optional[FuncInfo]) -> bool:
        """Structural pattern matching for the pattern kinds with a simple meaning."""
        if isinstance(p, ast.MatchValue):
            return self._eq(v, self.eval(p.value, env, fi))
        if isinstance(p, ast.MatchSingleton):
            return v is p.value
        if isinstance(p, ast.MatchAs):
            if p.pattern is not None and not self._match(p.pattern, v, binds, env, fi):
                return False
            if p.name is not None:
                binds[p.name] = v
            return True
        if isinstance(p, ast.MatchOr):
            for alt in p.patterns:
                b2: dict[str, Any] = {}
                if self._match(alt, v, b2, env, fi):
                    binds.update(b2)
                    return True
            return False
        if isinstance(p, ast.MatchSequence):
            if not isinstance(v, (list, tuple)) or isinstance(v, str):
                return False
            stars = [i for i, x in enumerate(p.patterns) if isinstance(x, ast.MatchStar)]
            if not stars:
                return len(v) == len(p.patterns) and all(self._match(x, y, binds, env, fi) for x, y in zip(p.patterns, v))
            i = stars[0]
            tail = len(p.patterns) - i - 1
            if len(v) < len(p.patterns) - 1:
                return False
            if not all(self._match(x, y, binds, env, fi) for x, y in zip(p.patterns[:i], v[:i])):
                return False
            if tail and not all(self._match(x, y, binds, env, fi) for x, y in zip(p.patterns[i + 1:], v[len(v) - tail:])):
                return False
            star = p.patterns[i]
            if star.name is not None:  # type: ignore[attr-defined]
                binds[star.name] = list(v[i:len(v) - tail])  # type: ignore[attr-defined]
            return True
        if isinstance(p, ast.MatchMapping):
            if not isinstance(v, dict):
                return False
            used = []
            for k_e, k_p in zip(p.keys, p.patterns):
                kk = self.canon_key(v, self.eval(k_e, env, fi))
                if kk not in v or not self._match(k_p, v[kk], binds, env, fi):
                    return False
                used.append(kk)
            if p.rest is not None:
                binds[p.rest] = {k: x for k, x in v.items() if not any(k is u or k == u for u in used)}
            return True
        if isinstance(p, ast.MatchClass) and p.patterns:
            t = self.eval(p.cls, env, fi)
            if isinstance(t, ClassRef):
                rk_ = self.pm.record_kind(t.ci)
                explicit = self.class_lookup(t.ci, "__match_args__")
                if explicit is not None and explicit[0] == "value":
                    margs: Optional[list[str]] = list(explicit[1])
                elif rk_ is not None and rk_[0] == "namedtuple":
                    margs = [n_ for n_, _ in self.pm.record_fields(t.ci)]
                elif rk_ is not None and rk_[0] == "dataclass" and rk_[1].get("match_args", True):
                    margs = [n_ for n_, d_ in self.pm.record_fields(t.ci)
                             if not (isinstance(d_, ast.Call) and ast.unparse(d_.func) in ("field", "dataclasses.field") and
                                     any(k.arg == "init" and isinstance(k.value, ast.Constant) and k.value.value is False
                                         for k in d_.keywords))]
                else:
                    margs = None
                if margs is not None:
                    if not self.builtin("isinstance", [v, t], {}, p, ""):
                        return False
                    if len(p.patterns) > len(margs):
                        raise AbsRaise(f"TypeError: {t.ci.name}() accepts {len(margs)} positional sub-patterns ({len(p.patterns)} given)")
                    attrs = list(zip(margs, p.patterns)) + list(zip(p.kwd_attrs, p.kwd_patterns))
                    for an, ap in attrs:
                        try:
                            av = self.getattr(v, an, p, fi)
                        except AbsRaise:
                            return False
                        if not self._match(ap, av, binds, env, fi):
                            return False
                    return True
        if isinstance(p, ast.MatchClass) and not p.patterns:
            t = self.eval(p.cls, env, fi)
            if not self.builtin("isinstance", [v, t], {}, p, ""):
                return False
            for an, ap in zip(p.kwd_attrs, p.kwd_patterns):
                try:
                    av = self.getattr(v, an, p, fi)
                except AbsRaise:
                    return False
                if not self._match(ap, av, binds, env, fi):
                    return False
            return True
        if isinstance(p, ast.MatchClass) and len(p.patterns) == 1 and not p.kwd_patterns:
            t = self.eval(p.cls, env, fi)
            if isinstance(t, tuple) and t and t[0] == "builtin" and t[1] in _BUILTIN_TYPES:
                return bool(self.builtin("isinstance", [v, t], {}, p, "")) and self._match(p.patterns[0], v, binds, env, fi)
        raise AnalysisError("ABSINT", f"match pattern outside fragment: {ast.unparse(p) if hasattr(ast, 'unparse') else p}",
                            loc(fi.unit.path, p) if fi else "")

    def signature_stub(self, fi: FuncInfo, fn: Any) -> Any:
        """Stand-in for the function fi that receives the arguments in fi's own parameter order, however the
        caller wrote them (positionally or by keyword; defaults filled in)."""
        def stub(*args: Any, **kwargs: Any) -> Any:
            env = self._bind(fi, list(args), dict(kwargs))
            a = fi.node.args
            return fn(*[env[x.arg] for x in a.posonlyargs + a.args])
        return stub

    _STRUCTURAL_DECORATORS = ("property", "staticmethod", "classmethod", "abstractmethod", "abc.abstractmethod",
                              "total_ordering", "functools.total_ordering", "overload", "typing.overload",
                              "cached_property", "functools.cached_property", "final", "typing.final", "override",
                              "typing.override")

    def wrapper_of(self, fi: FuncInfo) -> Any:
        """What the name of a decorated function is bound to: None when it is the function itself (decorators that
        only mark it or that the evaluator models elsewhere), a Dispatcher for singledispatch, otherwise the value
        the decorators return (a wrapper closure). Decorators run once per process, like at import time."""
        store = GLOBAL_STATE["class_attrs"]
        key = ("wrapper", fi.qual)
        if key in store:
            return store[key]
        store[key] = None                      # recursion guard while the decorators are evaluated
        base = FuncRef(fi, self.decorated_attrs(fi) if False else {}, raw=True)
        cur: Any = base
        for d in reversed(fi.node.decorator_list):
            txt = ast.unparse(d)
            head = txt.split("(")[0]
            if head in self._STRUCTURAL_DECORATORS or head in _CACHE_DECORATORS or head.endswith((".setter", ".deleter", ".getter")):
                continue
            if head.endswith(".register"):
                continue                        # an implementation registered with a dispatcher (found from there)
            if head in ("singledispatch", "functools.singledispatch"):
                cur = Dispatcher(fi, False)
                continue
            if head in ("singledispatchmethod", "functools.singledispatchmethod"):
                cur = Dispatcher(fi, True)
                continue
            if head in ("wraps", "functools.wraps"):
                continue
            if head in ("dataclass", "dataclasses.dataclass"):
                continue
            try:
                dec = self.eval(d, {}, fi)
            except AnalysisError as exc:
                raise AnalysisError("ABSINT", f"decorator @{txt} of {fi.qual} outside fragment ({exc.reason})",
                                    loc(fi.unit.path, fi.node)) from exc
            res = self.apply_value(dec, [cur], {}, d, loc(fi.unit.path, fi.node), fi)
            if isinstance(res, FuncRef) and res.fi is fi:
                continue                        # the decorator marked the function and returned it
            cur = res
        store[key] = None if cur is base else cur
        return store[key]

    def dispatch(self, dsp: Dispatcher, args: list[Any], kwargs: dict[str, Any]) -> Any:
        """Call through a singledispatch object: the implementation registered for the most specific class of the
        dispatch argument, else the base function."""
        base = dsp.base
        pos = 1 if dsp.method else 0
        if len(args) <= pos:
            raise AbsRaise(f"TypeError: {base.name} requires at least 1 positional argument")
        arg = args[pos]
        scope = base.cls.all_defs if base.cls is not None else self.pm.module_defs.get(base.unit.mod, [])
        cands: list[tuple[int, FuncInfo]] = []
        for impl in scope:
            for d in impl.node.decorator_list:
                txt = ast.unparse(d)
                if not txt.split("(")[0] == f"{base.name}.register":
                    continue
                if isinstance(d, ast.Call) and d.args:
                    texpr: Optional[ast.expr] = d.args[0]
                else:
                    ps = impl.node.args.posonlyargs + impl.node.args.args
                    texpr = ps[pos].annotation if len(ps) > pos else None
                if texpr is None:
                    raise AnalysisError("ABSINT", f"{impl.qual}: registered without a type", loc(impl.unit.path, impl.node))
                tval = self.eval(texpr, {}, impl)
                types = list(tval) if isinstance(tval, tuple) and not (len(tval) == 2 and tval[0] in ("builtin", "exc")) else [tval]
                for tv in types:
                    rank = self._specificity(arg, tv)
                    if rank is not None:
                        cands.append((rank, impl))
        dyn: list[tuple[int, Any]] = []
        for tv, f_ in GLOBAL_STATE["class_attrs"].get(("dispatch", base.qual), []):
            types = list(tv) if isinstance(tv, tuple) and not (len(tv) == 2 and tv[0] in ("builtin", "exc")) else [tv]
            for t1 in types:
                rank = self._specificity(arg, t1)
                if rank is not None:
                    dyn.append((rank, f_))
        if cands or dyn:
            best = min(r for r, _ in cands + dyn)
            chosen_d = [f_ for r, f_ in dyn if r == best]
            if chosen_d:                     # registrations made by call run after the decorated definitions of the module
                return self.apply_value(chosen_d[-1], args, kwargs, ast.Constant(value=None), "", None)
            chosen = [f_ for r, f_ in cands if r == best]
            return self.call(chosen[-1], args, kwargs, raw=True)      # a later registration for the same class wins
        return self.call(base, args, kwargs, raw=True)

    def _specificity(self, v: Any, t: Any) -> Optional[int]:
        """Distance of class t in the MRO of v's class (0 = exact class), None when v is not an instance of t."""
        if t is None or (isinstance(t, tuple) and t == ("builtin", "NoneType")):
            return 0 if v is None else None          # `None` as a registered type stands for type(None)
        if not self.builtin("isinstance", [v, t], {}, ast.Constant(value=None), ""):
            return None
        if isinstance(t, ClassRef):
            if is_native(v) or (isinstance(v, tuple) and hasattr(v, "_fields")):
                names = [c.__name__ for c in type(v).__mro__]
                extra = list(getattr(v, "_isa", ()))
                return names.index(t.ci.name) if t.ci.name in names else (len(names) + extra.index(t.ci.name) if t.ci.name in extra else 99)
            if isinstance(v, AObj) and self.pm.has_cls(v._cls):
                mro = [c.name for c in self.pm.mro(self.pm.cls(v._cls))]
                return mro.index(t.ci.name) if t.ci.name in mro else 99
            return 50
        if isinstance(t, tuple) and len(t) == 2 and t[0] == "builtin":
            py = _BUILTIN_TYPES.get(t[1])
            if t[1] == "object":
                return 1000
            if py is not None and not isinstance(v, (AObj, OrdInt)):
                return type(v).__mro__.index(py) if py in type(v).__mro__ else 99
        return 60

    def setattr_obj(self, obj: AObj, attr: str, v: Any, where: str = "", direct: bool = False) -> None:
        """obj.attr = v with Python's rules: the class's __setattr__ hook if it has one; else a data descriptor of the
        class decides (a property's setter or AttributeError, a descriptor object's __set__); else the instance field."""
        if self.pm.has_cls(obj._cls):
            ci = self.pm.cls(obj._cls)
            self.ensure_built(ci)
            if not direct:
                hook = self.class_lookup(ci, "__setattr__")
                if hook is not None and not (hook[0] == "method" and hook[1].unit.env):
                    hv = FuncRef(hook[1]) if hook[0] == "method" else hook[1]
                    self.apply_value(hv, [obj, attr, v], {}, ast.Constant(value=None), where, None)
                    return
                if obj._f.get("_frozen_record"):
                    raise AbsRaise(f"FrozenInstanceError: cannot assign to field '{attr}'", where)
            found = self.class_lookup(ci, attr)
            if found is not None and found[0] == "method" and "property" in found[1].decorators():
                setter = self.pm.method(ci, attr + ".setter")
                if setter is None:
                    raise AbsRaise(f"AttributeError: property '{attr}' of '{obj._cls}' object has no setter", where)
                self.call(setter, [obj, v])
                return
            if found is not None and found[0] == "value":
                cv = found[1]
                if isinstance(cv, AProperty):
                    if cv.fset is None:
                        raise AbsRaise(f"AttributeError: property '{attr}' of '{obj._cls}' object has no setter", where)
                    self.apply_value(cv.fset, [obj, v], {}, ast.Constant(value=None), where, None)
                    return
                if isinstance(cv, AObj) and self.special(cv, "__set__") is not None:
                    self.apply_value(self.special(cv, "__set__"), [cv, obj, v], {}, ast.Constant(value=None), where, None)
                    return
        if self.pm.has_cls(obj._cls) and not attr.startswith("_frozen") and attr not in ("_complete", "_record"):
            allowed = self._slots_of(self.pm.cls(obj._cls))
            if allowed is not None and attr not in allowed:
                raise AbsRaise(f"AttributeError: '{obj._cls}' object has no attribute '{attr}'", where)
        obj._f[attr] = v

    def _abstract_methods(self, ci: ClassInfo) -> list[str]:
        """Names an ABC still leaves abstract (abc.ABCMeta refuses to instantiate such a class)."""
        mro = self.pm.mro(ci)
        if not any(b.split(".")[-1] in ("ABC", "ABCMeta") for c in mro for b in c.bases) and \
                not any(k.arg == "metaclass" and ast.unparse(k.value).split(".")[-1] == "ABCMeta" for c in mro for k in c.node.keywords):
            return []
        store = GLOBAL_STATE["class_attrs"]
        defined: set[str] = set()
        out: list[str] = []
        for c in mro:
            for nm, fi_ in c.methods.items():
                base_nm = nm.split(".")[0]
                if base_nm in defined:
                    continue
                if any(d_.split(".")[-1] == "abstractmethod" for d_ in fi_.decorators()) and (c.qual, base_nm) not in store:
                    out.append(base_nm)
            defined |= {nm.split(".")[0] for nm in c.methods} | set(c.class_attrs) | \
                {k[1] for k in store if isinstance(k, tuple) and len(k) >= 2 and k[0] == c.qual and isinstance(k[1], str)}
        return sorted(set(out))

    def _slots_of(self, ci: ClassInfo) -> Optional[set[str]]:
        """The attribute names an instance can hold when every class of the MRO declares __slots__ (None: instances have
        a __dict__, any name can be stored)."""
        names: set[str] = set()
        for c in self.pm.mro(ci):
            if "__slots__" not in c.class_attrs:
                dec = [ast.unparse(d_) for d_ in c.node.decorator_list]
                if any("slots=True" in d_.replace(" ", "") for d_ in dec):
                    names |= {st.target.id for st in c.node.body if isinstance(st, ast.AnnAssign) and isinstance(st.target, ast.Name)}
                    continue
                return None
            sl = self.class_attr(c, "__slots__")
            sl = [sl] if isinstance(sl, str) else list(sl) if isinstance(sl, (list, tuple, set, frozenset, dict)) else None
            if sl is None or "__dict__" in sl:
                return None
            names |= set(sl)
        for c in self.pm.mro(ci):
            for b in c.bases:
                if self.pm.resolve_base(c, b) is None and b.split(".")[-1].split("[")[0] not in ("object", "Generic", "Protocol"):
                    return None                            # a base outside the program model: its instances may have a __dict__
        return names

    def _bind_callable(self, f: Any, obj: Any) -> Any:
        fn = lambda *a, **k: self.apply_value(f, [obj] + list(a), dict(k), ast.Constant(value=None), "", None)  # noqa: E731
        fn._raw = True  # type: ignore[attr-defined]
        return fn

    def pyfunc(self, f: Any) -> Any:
        """Python callable standing for an evaluated callable (for library calls that take callbacks)."""
        return lambda *a, **k: self.apply_value(f, list(a), dict(k), ast.Constant(value=None), "", None)

    def _re_attr(self, obj: Any, attr: str, where: str) -> Any:
        v = getattr(obj, attr, _MISSING)
        if v is _MISSING:
            raise AbsRaise(f"AttributeError: {type(obj).__name__}.{attr}", where)
        if not callable(v):
            return v

        def run(*a: Any, **k: Any) -> Any:
            a2 = [self.pyfunc(x) if isinstance(x, (Lambda, FuncRef, BoundMethod, LocalFunc)) or
                  (isinstance(x, tuple) and x and x[0] == "pymethod") else x for x in a]
            if any(isinstance(x, (AObj, OrdInt)) for x in a2):
                raise AbsRaise("TypeError: expected string or bytes-like object", where)
            try:
                return v(*a2, **k)
            except (TypeError, IndexError) as exc:
                raise AbsRaise(f"{type(exc).__name__}: {exc}", where) from exc
        run._raw = True  # type: ignore[attr-defined]
        return run

    def class_lookup(self, ci: ClassInfo, attr: str) -> Optional[tuple[str, Any, ClassInfo]]:
        """Where Python's attribute lookup on the type finds `attr`: ('method', FuncInfo, class) for a function of the
        class body, ('value', v, class) for any other class-level value - including what was stored on the class later
        (by a class decorator, __set_name__, __init_subclass__ or plain assignment), which shadows the body."""
        store = GLOBAL_STATE["class_attrs"]
        for c in self.pm.mro(ci):
            if (c.qual, attr) in store and (attr not in c.methods or (c.qual, attr, "dyn") in store):
                return ("value", store[(c.qual, attr)], c)
            if attr in c.methods:
                return ("method", c.methods[attr], c)
            if attr in c.class_attrs:
                e_ = c.class_attrs[attr]
                if isinstance(e_, ast.Call) and ast.unparse(e_.func) in ("field", "dataclasses.field"):
                    dflt = [k.value for k in e_.keywords if k.arg == "default"]
                    if not dflt:
                        continue                   # a dataclass field without a plain default leaves no class attribute
                    fake = FuncInfo(f"{c.qual}.<class>", "<class>", ast.FunctionDef(name="<class>"), c.unit)  # type: ignore
                    return ("value", self.eval(dflt[0], {}, fake), c)
                return ("value", self.class_attr(c, attr), c)
        return None

    def class_names(self, ci: ClassInfo) -> list[str]:
        """Names defined on the built class and its package bases: those of the class bodies and those stored later."""
        self.ensure_built(ci)
        out: set[str] = set()
        store = GLOBAL_STATE["class_attrs"]
        for c in self.pm.mro(ci):
            if c.unit.env:
                continue
            out |= {k for k in c.methods if not k.endswith(".setter")} | set(c.class_attrs)
            out |= {k[1] for k in store if isinstance(k, tuple) and len(k) == 3 and k[0] == c.qual and k[2] == "dyn"}
        return sorted(out)

    def set_class_attr(self, ci: ClassInfo, attr: str, v: Any) -> None:
        store = GLOBAL_STATE["class_attrs"]
        store[(ci.qual, attr)] = v                 # visible process-wide
        store[(ci.qual, attr, "dyn")] = True
        GLOBAL_STATE["lru"].clear() if False else None

    def special(self, obj: Any, name: str) -> Any:
        """The special method `name` as Python finds it (on the type, not on the instance): a callable value taking the
        object first, or None."""
        ci = obj if isinstance(obj, ClassInfo) else (self.pm.cls(obj._cls) if isinstance(obj, AObj) and self.pm.has_cls(obj._cls)
                                                     else (self.pm.cls(obj.cls) if isinstance(obj, EnumVal) and self.pm.has_cls(obj.cls) else None))
        if ci is None:
            return None
        self.ensure_built(ci)
        found = self.class_lookup(ci, name)
        if found is None:
            return None
        if found[0] == "method":
            return None if found[1].unit.env and name in ("__bool__", "__len__", "__iter__", "__next__", "__contains__") \
                and False else FuncRef(found[1])
        v = found[1]
        if isinstance(v, AStaticMethod):
            return v.func
        return v

    def ensure_built(self, ci: ClassInfo) -> None:
        """What happens when the class statement runs, beyond binding the names of its body: __set_name__ of the
        descriptor objects assigned in the body, __init_subclass__ of the bases (with the class keywords), then the class
        decorators bottom-up. Done once per process, before the class is first used."""
        store = GLOBAL_STATE["class_attrs"]
        key = ("built", ci.qual)
        if key in store:
            return
        store[key] = True
        if ci.unit.env:
            return
        # (IntEnum members are evaluated as the integers they are: arithmetic, comparison, hashing and str() agree with
        # Python; `.name` / `.value`, calling or iterating the class leave the fragment; repr() and isinstance against the
        # enum class are the known inexact corners)
        odd = {"IntFlag", "StrEnum", "ReprEnum"} & set(self.pm.base_names(ci))
        if odd:
            # members of these behave as integers / strings / bit sets as well: not modelled, never approximated
            store.pop(key, None)
            raise AnalysisError("ABSINT", f"class {ci.name} derives from enum.{sorted(odd)[0]}: outside the fragment")
        for b in ci.bases:
            bc = self.pm.resolve_base(ci, b)
            if bc is not None:
                self.ensure_built(bc)
        where = loc(ci.unit.path, ci.node)
        fake = FuncInfo(f"{ci.qual}.<class>", "<class>", ast.FunctionDef(name="<class>"), ci.unit)  # type: ignore
        is_enum = self.pm.is_enum(ci)
        for attr, expr in list(ci.class_attrs.items()):
            if isinstance(expr, ast.Constant) or is_enum:
                continue
            if isinstance(expr, ast.Call):
                fn_ = expr.func
                nm_ = fn_.id if isinstance(fn_, ast.Name) else (fn_.attr if isinstance(fn_, ast.Attribute) else None)
                if nm_ is not None and nm_ in self.pm.class_by_name and not self.pm.cls(nm_).unit.env:
                    v = self.class_attr(ci, attr)
                    sn = self.special(v, "__set_name__") if isinstance(v, AObj) else None
                    if sn is not None:
                        self.apply_value(sn, [v, ClassRef(ci), attr], {}, expr, where, fake)
        for c in self.pm.mro(ci)[1:]:
            isc = c.methods.get("__init_subclass__")
            if isc is not None and not c.unit.env:
                kws = {k.arg: self.eval(k.value, {}, fake) for k in ci.node.keywords if k.arg and k.arg != "metaclass"}
                self.call(isc, [ClassRef(ci)], kws, raw=True)
                break
        else:
            extra = [k.arg for k in ci.node.keywords if k.arg and k.arg != "metaclass"]
            if extra and not any(self.pm.resolve_base(ci, b) is None for b in ci.bases):
                pass
        for d in reversed(ci.node.decorator_list):
            txt = ast.unparse(d)
            head = txt.split("(")[0]
            if head.split(".")[-1] in ("dataclass", "total_ordering", "unique", "final", "runtime_checkable", "verify"):
                continue
            try:
                dec = self.eval(d, {}, fake)
            except AnalysisError as exc:
                raise AnalysisError("ABSINT", f"class decorator @{txt} of {ci.name} outside fragment ({exc.reason})", where) from exc
            res = self.apply_value(dec, [ClassRef(ci)], {}, d, where, fake)
            if not (isinstance(res, ClassRef) and res.ci is ci):
                raise AnalysisError("ABSINT", f"class decorator @{txt} of {ci.name} does not return the class: outside fragment", where)

    def enum_table(self, ci: ClassInfo) -> dict[str, "EnumVal"]:
        """Members of an Enum class by name, in definition order, values evaluated as the class body does (constants,
        tuples, earlier members, auto()); a name whose value repeats an earlier member's is an alias of that member."""
        store = GLOBAL_STATE["modconst"]
        key = ("enum", ci.qual)
        if key in store:
            return store[key]
        fake = FuncInfo(f"{ci.qual}.<class>", "<class>", ast.FunctionDef(name="<class>"), ci.unit)  # type: ignore
        out: dict[str, EnumVal] = {}
        raw_vals: dict[str, Any] = {}
        last_int = 0
        bases = self.pm.base_names(ci)
        for c in reversed(self.pm.mro(ci)):
            for name, expr in c.class_attrs.items():
                if name.startswith("_"):
                    continue
                if isinstance(expr, ast.Constant):
                    val = expr.value
                elif isinstance(expr, ast.Call) and ast.unparse(expr.func) in ("auto", "enum.auto") and not expr.args:
                    val = name.lower() if ("StrEnum" in bases) else \
                        ((1 << last_int.bit_length()) if "Flag" in bases else last_int + 1)
                else:
                    try:
                        val = self.eval(expr, dict(raw_vals), fake)
                    except AnalysisError as exc:
                        raise AnalysisError("ABSINT", f"value of enum member {ci.name}.{name} outside fragment ({exc.reason})",
                                            loc(ci.unit.path, expr)) from exc
                    if isinstance(val, (AObj, Lambda, LocalFunc, FuncRef, AProperty, AClassMethod, AStaticMethod)):
                        continue                   # a descriptor / helper, not a member
                if isinstance(val, int) and not isinstance(val, bool):
                    last_int = val
                raw_vals[name] = val
                first = next((m for m in out.values() if self._eq(m.value, val) and type(m.value) is type(val)), None)
                out[name] = first if first is not None else EnumVal(ci.name, name, val)
        store[key] = out
        init = self.pm.method(ci, "__init__")
        if init is not None and not init.unit.env:
            for k, m in out.items():
                if m.name == k:
                    self.call(init, [m] + (list(m.value) if isinstance(m.value, tuple) else [m.value]))
        return out

    def class_attr(self, c: ClassInfo, attr: str) -> Any:
        """A class-level value is created once (when the class body runs) and shared by every instance
        and every later use in the process; the class body sees the names assigned before it."""
        store = GLOBAL_STATE["class_attrs"]
        key = (c.qual, attr)
        if key not in store:
            it = self

            class _Body(dict):
                def __contains__(self, k: object) -> bool:
                    return (k in c.class_attrs and k != attr) or k in c.methods

                def __getitem__(self, k: str) -> Any:
                    if k in c.class_attrs and k != attr:
                        return it.class_attr(c, k)
                    m = c.methods[k]
                    return FuncRef(m, it.decorated_attrs(m))
            fake = FuncInfo(f"{c.qual}.<class>", "<class>", ast.FunctionDef(name="<class>"), c.unit)  # type: ignore
            store[key] = self.eval(c.class_attrs[attr], _Body(), fake)
        return store[key]

    def _has_abs(self, v: Any) -> bool:
        return isinstance(v, AObj) or (isinstance(v, (tuple, frozenset)) and any(self._has_abs(x) for x in v))

    def canon_key(self, container: Any, k: Any) -> Any:
        """The key already in a dict/set that the new key k is equal to (own __hash__ and __eq__), else k."""
        if not self._has_abs(k):
            return k
        hk = self.hash_key(k)
        for k2 in list(container):
            if k2 is k:
                return k2
            if self._has_abs(k2) and self.hash_key(k2) == hk and self._eq(k, k2):
                return k2
        return k

    def hash_key(self, v: Any) -> Any:
        """Canonical key standing for hash(v): equal keys <=> equal hashes (up to collisions)."""
        if isinstance(v, OrdInt):
            return v.v
        if isinstance(v, (tuple, list)):
            if isinstance(v, list):
                raise AbsRaise("TypeError: unhashable type: 'list'")
            return tuple(self.hash_key(x) for x in v)
        if isinstance(v, (set, frozenset)):
            if isinstance(v, set):
                raise AbsRaise("TypeError: unhashable type: 'set'")
            return frozenset(self.hash_key(x) for x in v)
        if isinstance(v, AObj):
            if self.pm.has_cls(v._cls):
                self.ensure_built(self.pm.cls(v._cls))
                fh = self.class_lookup(self.pm.cls(v._cls), "__hash__")
                if fh is not None and fh[0] == "value" and fh[1] is None:
                    raise AbsRaise(f"TypeError: unhashable type: '{v._cls}'")
                if fh is not None:
                    hv = FuncRef(fh[1]) if fh[0] == "method" else fh[1]
                    hres = self.apply_value(hv, [v], {}, ast.Constant(value=None), "", None)
                    if not (isinstance(hres, int) and not isinstance(hres, bool) or isinstance(hres, bool)
                            or (isinstance(hres, tuple) and hres and hres[0] == "hash")):
                        raise AbsRaise(f"TypeError: __hash__ method should return an integer (it returned {type(hres).__name__})")
                    return ("obj", v._cls, hres)
            rec = v._f.get("_record")
            if rec is not None and rec[1].get("eq", True):
                if not rec[1].get("frozen") and not rec[1].get("unsafe_hash"):
                    raise AbsRaise(f"TypeError: unhashable type: '{v._cls}'")
                return ("rec", v._cls, tuple(self.hash_key(v._f[n]) for n in rec[0]))
            return ("id", id(v))
        if isinstance(v, EnumVal):
            return ("enum", v.cls, v.name)
        return v

    def _lt(self, a: Any, b: Any) -> bool:
        if isinstance(a, (AObj, EnumVal)) or isinstance(b, (AObj, EnumVal)):
            return self._order(ast.Lt(), a, b, ast.Constant(value=None))
        if isinstance(a, (tuple, list)) and isinstance(b, (tuple, list)):
            for x, y in zip(a, b):
                if self._lt(x, y):
                    return True
                if self._lt(y, x):
                    return False
            return len(a) < len(b)
        try:
            return a < b
        except TypeError as exc:
            raise AbsRaise(f"TypeError: {exc}") from exc

    def _sort(self, seq: list[Any], keyed: bool) -> list[Any]:
        """Stable insertion sort using the analysed classes' own __lt__ (as list.sort does)."""
        out: list[Any] = []
        for item in seq:
            k = item[0] if keyed else item
            i = len(out)
            while i > 0 and self._lt(k, out[i - 1][0] if keyed else out[i - 1]):
                i -= 1
            out.insert(i, item)
        return [x[1] for x in out] if keyed else out

    def _apply2(self, f: Any, x: Any, y: Any) -> Any:
        return self.apply_value(f, [x, y], {}, ast.Constant(value=None), "", None)

    def _apply(self, f: Any, x: Any) -> Any:
        if callable(f) and not isinstance(f, (AObj, ClassRef, FuncRef, BoundMethod, Lambda, LocalFunc,
                                              ModuleRef, EnumVal, SuperProxy)):
            return f(x)
        return self.apply_value(f, [x], {}, ast.Constant(value=None), "", None)


_EXC_PARENTS = {
    "KeyError": {"LookupError", "Exception"}, "IndexError": {"LookupError", "Exception"},
    "UnicodeDecodeError": {"UnicodeError", "ValueError", "Exception"}, "UnicodeEncodeError": {"UnicodeError", "ValueError", "Exception"},
    "ZeroDivisionError": {"ArithmeticError", "Exception"}, "FileNotFoundError": {"OSError", "IOError", "Exception"},
    "UnboundLocalError": {"NameError", "Exception"}, "StopIteration": {"Exception"},
    "ParsingException": {"FlamaException", "Exception"}, "DuplicatedFeature": {"FlamaException", "Exception"},
    "ElementNotFound": {"FlamaException", "Exception"}, "StatisticsError": {"ValueError", "Exception"},
    "ParseError": {"SyntaxError", "Exception"}, "NotImplementedError": {"RuntimeError", "Exception"},
}
_STR_METHODS = {"translate", "expandtabs", "center", "ljust", "rjust", "swapcase", "isdecimal", "isprintable", "istitle",
                "isascii", "format_map", "startswith", "endswith", "lower", "upper", "replace", "strip", "lstrip", "rstrip",
                "split", "rsplit", "join", "casefold", "find", "rfind", "index", "format", "isdigit",
                "isalpha", "isalnum", "isspace", "count", "encode", "decode", "title", "capitalize",
                "partition", "rpartition", "splitlines", "zfill", "isidentifier", "isupper",
                "islower", "isnumeric", "removeprefix", "removesuffix"}
_PURE_MODULES = ("textwrap", "string", "keyword", "unicodedata", "html", "shlex", "math", "itertools", "fnmatch", "posixpath",
                 "statistics", "cmath", "bisect", "heapq")
_BUILTINS = {"chr", "ord", "hex", "bin", "oct", "ascii", "issubclass", "format", "property", "staticmethod", "classmethod", "object", "slice", "NotImplemented", "map", "filter", "divmod", "pow", "repr", "type", "iter", "vars", "open", "setattr", "getattr", "dir", "round", "print", "reversed", "hash", "id", "len", "any", "all", "sum", "next", "isinstance", "list", "tuple", "set", "sorted",
             "str", "bool", "int", "min", "max", "enumerate", "zip", "range", "hasattr",
             "callable", "float", "abs", "dict", "frozenset", "cast"}


class _FmtView:
    def __init__(self, it: "Interp", v: Any) -> None:
        self.it, self.v = it, v

    def __str__(self) -> str:
        return self.it.to_str(self.v)

    def __repr__(self) -> str:
        return self.it.builtin("repr", [self.v], {}, ast.Constant(value=None), "")

    def __format__(self, spec: str) -> str:
        if spec:
            raise AnalysisError("ABSINT", "format spec on an object of the analysed code")
        return str(self)

    def __getattr__(self, name: str) -> Any:
        return self.it.getattr(self.v, name, ast.Constant(value=None), None)


class DynFunc(FuncInfo):
    """A method that the class has only once its class statement has run (installed by a class decorator, a descriptor's
    __set_name__, a base class's __init_subclass__ or an assignment to the class): calls go to the installed value."""
    dyn_value: Any = None


def _dynamic_method(pm: ProgramModel, ci: ClassInfo, name: str, static: Optional[FuncInfo]) -> Optional[FuncInfo]:
    st = GLOBAL_STATE["class_attrs"]
    if ("built", ci.qual) not in st:
        it = Interp.ACTIVE if Interp.ACTIVE is not None and Interp.ACTIVE.pm is pm else \
            (Interp.LAST if Interp.LAST is not None and Interp.LAST.pm is pm else Interp(pm))
        it.ensure_built(ci)
    for c in pm.mro(ci):
        if (c.qual, name, "dyn") in st:
            key = ("dynfunc", c.qual, name)
            v = st[(c.qual, name)]
            if key not in st or st[key].dyn_value is not v:
                inner = v.func if isinstance(v, (AStaticMethod, AClassMethod)) else v
                node = inner.node if isinstance(inner, LocalFunc) else (inner.fi.node if isinstance(inner, (FuncRef, BoundMethod)) else None)
                if node is None or isinstance(node, ast.Lambda) or not (callable(inner) or isinstance(inner, (LocalFunc, Lambda, FuncRef))):
                    if not isinstance(inner, (Lambda, LocalFunc, FuncRef)) and not callable(inner):
                        return static if static is not None and c is not ci and False else None
                    node = ast.FunctionDef(name=name, args=ast.arguments(posonlyargs=[], args=[], kwonlyargs=[], kw_defaults=[],
                                                                         defaults=[]), body=[], decorator_list=[], lineno=c.node.lineno,
                                           col_offset=0)
                unit = inner.fi.unit if isinstance(inner, (LocalFunc, Lambda, FuncRef)) and inner.fi is not None else c.unit
                df = DynFunc(f"{c.qual}.{name}", name, node, unit, c)   # type: ignore[arg-type]
                df.dyn_value = v
                st[key] = df
            return st[key]
        if name in c.methods:
            return static
        if name in c.class_attrs and static is None and not isinstance(c.class_attrs[name], ast.Constant):
            key = ("dynfunc", c.qual, name)
            if key not in st:
                it = Interp.ACTIVE if Interp.ACTIVE is not None and Interp.ACTIVE.pm is pm else \
                    (Interp.LAST if Interp.LAST is not None and Interp.LAST.pm is pm else Interp(pm))
                fnd = it.class_lookup(c, name)
                v = fnd[1] if fnd is not None and fnd[0] == "value" else None
                acts = isinstance(v, (LocalFunc, Lambda, FuncRef)) or \
                    (isinstance(v, AObj) and (it.special(v, "__get__") is not None or it.special(v, "__call__") is not None))
                if not acts:
                    st[key] = None
                else:
                    node = v.node if isinstance(v, LocalFunc) else ast.FunctionDef(
                        name=name, args=ast.arguments(posonlyargs=[], args=[], kwonlyargs=[], kw_defaults=[], defaults=[]),
                        body=[], decorator_list=[], lineno=getattr(c.class_attrs[name], "lineno", c.node.lineno), col_offset=0)
                    df = DynFunc(f"{c.qual}.{name}", name, node, c.unit, c)   # type: ignore[arg-type]
                    df.dyn_value = ("descriptor", v) if isinstance(v, AObj) else v
                    st[key] = df
            return st[key]
    return static


ProgramModel.dynamic = staticmethod(_dynamic_method)


class _ActiveProxy:
    """Stands for the evaluator that is running now."""
    def __getattr__(self, name: str) -> Any:
        return getattr(Interp.ACTIVE if Interp.ACTIVE is not None else Interp.LAST, name)


_ACTIVE = _ActiveProxy()


class AObjIter:
    """Python iterator over an object of the analysed code that implements __next__."""
    def __init__(self, it: "Interp", obj: AObj) -> None:
        self.it, self.obj = it, obj

    def __iter__(self) -> "AObjIter":
        return self

    def __next__(self) -> Any:
        nx = self.it.special(self.obj, "__next__")
        try:
            return self.it.apply_value(nx, [self.obj], {}, ast.Constant(value=None), "", None)
        except AbsRaise as exc:
            if exc.what.strip().split("(")[0].split(":")[0].strip() == "StopIteration":
                raise StopIteration from None
            raise


def _getitem_iter(it: "Interp", obj: AObj, gi: Any) -> Any:
    i = 0
    while True:
        try:
            yield it.apply_value(gi, [obj, i], {}, ast.Constant(value=None), "", None)
        except AbsRaise as exc:
            if exc.what.startswith("IndexError"):
                return
            raise
        i += 1


def _batched(xs: list[Any], k: int) -> Any:
    for i in range(0, len(xs), k):
        yield xs[i:i + k]


def _acc(it: "Interp", xs: Any, f: Any) -> Any:
    acc = _MISSING
    for x in it.iterate(xs):
        acc = x if acc is _MISSING else (it._apply2(f, acc, x) if f is not None else it.binop(ast.Add(), acc, x, ast.Constant(value=None)))
        yield acc


def _load(t: ast.expr) -> ast.expr:
    """Copy of an assignment target usable in load context."""
    c = ast.parse(ast.unparse(t), mode="eval").body
    return c


class AExc:
    """An exception object that was constructed but not (yet) raised."""
    def __init__(self, kind: str, args: tuple, text: str) -> None:
        self.kind, self.args, self.text = kind, args, text

    def __str__(self) -> str:
        return str(self.args[0]) if len(self.args) == 1 else (str(self.args) if self.args else "")


_BUILTIN_EXCEPTIONS = ("BaseException", "Exception", "ArithmeticError", "AssertionError", "AttributeError", "EOFError",
                       "FileNotFoundError", "FileExistsError", "IOError", "ImportError", "IndexError", "KeyError",
                       "KeyboardInterrupt", "LookupError", "NameError", "NotImplementedError", "OSError", "OverflowError",
                       "PermissionError", "RecursionError", "RuntimeError", "StopIteration", "SyntaxError", "TypeError",
                       "UnboundLocalError", "UnicodeDecodeError", "UnicodeEncodeError", "UnicodeError", "ValueError",
                       "ZeroDivisionError")


class _Suppress:
    """contextlib.suppress(*exceptions)."""
    def __init__(self, kinds: set[str]) -> None:
        self.kinds = kinds


class ADeque(list):
    """collections.deque as the list it is, with the left-end operations."""
    def popleft(self) -> Any:
        return self.pop(0)

    def appendleft(self, x: Any) -> None:
        self.insert(0, x)

    def extendleft(self, xs: Any) -> None:
        for x in xs:
            self.insert(0, x)

    def rotate(self, n: int = 1) -> None:
        if self:
            n %= len(self)
            self[:] = self[-n:] + self[:-n]


class TaggedList(list):
    """A list whose len() is an ordinal (e.g. Relation.children: its size n is order-only)."""
    _ordtag: Any = None
    _frozen = False


def tagged(items: list[Any], tag: str, log: Optional[set] = None) -> TaggedList:
    t = TaggedList(items)
    t._ordtag = (tag, log)
    return t
