"""Bridges to the generated ANTLR recognisers of the dependencies (uvl, afmparser).

The recognisers are part of the environment (like `json` or `xml.etree`): they are executed on
text produced by evaluating the writers' source, and the parse trees they build are handed to the
evaluator of the readers' source as opaque library objects. No code of /repo is executed.
"""
from __future__ import annotations

import ast
import io
import sys
from typing import Any, Optional

from .absint import AObj, AbsRaise, Interp
from .iostubs import VFS
from .pm import ProgramModel


def filestream_default_encoding(pm: ProgramModel) -> str:
    """Default `encoding` of antlr4.FileStream.__init__, read from the dependency's source."""
    if not pm.has_cls("FileStream"):
        return "ascii"
    init = pm.cls("FileStream").methods.get("__init__")
    if init is None:
        return "ascii"
    a = init.node.args
    names = [x.arg for x in a.args]
    defaults = dict(zip(names[len(names) - len(a.defaults):], a.defaults))
    d = defaults.get("encoding")
    return d.value if isinstance(d, ast.Constant) and isinstance(d.value, str) else "ascii"


class Console:
    """Captures what the recognisers print (ANTLR's default ConsoleErrorListener -> stderr)."""

    def __init__(self) -> None:
        self.buf = io.StringIO()

    def __enter__(self) -> "Console":
        self._old = sys.stderr
        sys.stderr = self.buf
        return self

    def __exit__(self, *a: Any) -> None:
        sys.stderr = self._old


def install_antlr(it: Interp, vfs: VFS) -> None:
    from antlr4 import CommonTokenStream, InputStream
    default_enc = filestream_default_encoding(it.pm)

    def filestream(path: Any, encoding: str = default_enc, errors: str = "strict") -> Any:
        if path not in vfs.files:
            raise AbsRaise(f"FileNotFoundError: {path}")
        data = vfs.files[path]
        raw = data.encode("utf8") if isinstance(data, str) else data
        vfs.opens.append({"path": path, "mode": "antlr-filestream", "encoding": encoding})
        try:
            text = raw.decode(encoding, errors)
        except (UnicodeDecodeError, LookupError) as exc:
            raise AbsRaise(f"UnicodeDecodeError: FileStream(encoding={encoding!r}) cannot decode the "
                           f"file: {exc}") from exc
        return InputStream(text)

    def uvl_lexer(stream: Any) -> Any:
        from uvl.UVLCustomLexer import UVLCustomLexer
        return UVLCustomLexer(stream)

    def uvl_parser(stream: Any) -> Any:
        from uvl.UVLPythonParser import UVLPythonParser
        return UVLPythonParser(stream)

    def afm_lexer(stream: Any) -> Any:
        from afmparser.AFMLexer import AFMLexer
        return AFMLexer(stream)

    def afm_parser(stream: Any) -> Any:
        from afmparser.AFMParser import AFMParser
        return AFMParser(stream)
    it.native["new:FileStream"] = filestream
    it.native["antlr4.FileStream"] = filestream
    it.native["antlr4.InputStream"] = lambda text: InputStream(text)
    it.native["antlr4.CommonTokenStream"] = lambda lexer: CommonTokenStream(lexer)
    it.native["uvl.UVLCustomLexer.UVLCustomLexer"] = uvl_lexer
    it.native["new:UVLPythonParser"] = uvl_parser
    it.native["uvl.UVLPythonParser.UVLPythonParser"] = uvl_parser
    it.native["afmparser.AFMLexer.AFMLexer"] = afm_lexer
    it.native["new:AFMParser"] = afm_parser
    it.native["afmparser.AFMParser.AFMParser"] = afm_parser
    it.native["re.sub"] = _re_sub
    it.native["os.path.abspath"] = lambda p: p
    it.native["os.path.join"] = lambda *a: "/".join(x for x in a if x) if a and a[0] != "" else "/" + "/".join(x for x in a if x)


def _re_sub(pattern: Any, repl: Any, string: Any, count: int = 0, flags: int = 0) -> Any:
    import re
    if not isinstance(string, str):
        raise AbsRaise("TypeError: expected string or bytes-like object")
    return re.sub(pattern, repl, string, count=count, flags=flags)
