"""Canonical descriptions of abstract models and their comparison (CODEC closure, DESIGN §3.5)."""
from __future__ import annotations

from typing import Any, Optional

from .absint import AObj, EnumVal, OrdInt
from .logic import opname


def _int(v: Any) -> Any:
    return v.v if isinstance(v, OrdInt) else v


def tree_str(node: Optional[AObj]) -> str:
    if node is None:
        return "_"
    if not isinstance(node, AObj):
        return f"<non-node {type(node).__name__}>"
    d = node._f.get("data")
    l, r = node._f.get("left"), node._f.get("right")
    if isinstance(d, EnumVal):
        return f"{d.name}[{tree_str(l)}][{tree_str(r)}]"
    if l is not None or r is not None:
        return f"{d!r}[{tree_str(l)}][{tree_str(r)}]"
    return repr(d)


def features(fm: AObj) -> list[AObj]:
    root = fm._f.get("root")
    out, seen = [], set()
    stack = [root] if isinstance(root, AObj) else []
    while stack:
        f = stack.pop(0)
        if id(f) in seen:
            continue
        seen.add(id(f))
        out.append(f)
        for r in f._f.get("relations", []):
            for c in r._f.get("children", []):
                if isinstance(c, AObj):
                    stack.append(c)
    return out


def describe(fm: AObj) -> dict[str, Any]:
    """Names, tree, attributes and constraints of a model as plain data. A value that is not shaped like a feature model
    at all (a list where the root should be, a feature where the children should be ...) is described as malformed - the
    comparison then reports that, it does not crash."""
    try:
        return _describe(fm)
    except (TypeError, AttributeError, KeyError) as exc:
        return {"root": None, "features": {}, "relations": {}, "constraints": [],
                "_malformed": f"{type(exc).__name__}: {exc}"}


def _describe(fm: AObj) -> dict[str, Any]:
    d: dict[str, Any] = {"root": None, "features": {}, "relations": {}, "constraints": []}
    root = fm._f.get("root")
    d["root"] = root._f.get("name") if isinstance(root, AObj) else repr(root)
    for f in features(fm):
        nm = f._f.get("name")
        par = f._f.get("parent")
        card = f._f.get("feature_cardinality")
        ft = f._f.get("feature_type")
        attrs = []
        for a in f._f.get("attributes", []) or []:
            if isinstance(a, AObj):
                dom = a._f.get("domain")
                domd = None
                if isinstance(dom, AObj):
                    domd = ([(_int(r._f.get("min_value")), _int(r._f.get("max_value")))
                             for r in dom._f.get("range_list", [])], list(dom._f.get("element_list", [])))
                attrs.append((a._f.get("name"), _plain(a._f.get("default_value")), domd,
                              _plain(a._f.get("null_value"))))
        d["features"][nm] = {
            "parent": par._f.get("name") if isinstance(par, AObj) else None,
            "abstract": f._f.get("is_abstract"),
            "type": ft.name if isinstance(ft, EnumVal) else repr(ft),
            "card": (_int(card._f.get("min")), _int(card._f.get("max"))) if isinstance(card, AObj) else None,
            "attributes": attrs,
        }
        d["relations"][nm] = [(_int(r._f.get("card_min")), _int(r._f.get("card_max")),
                               [c._f.get("name") if isinstance(c, AObj) else repr(c)
                                for c in r._f.get("children", [])])
                              for r in f._f.get("relations", [])]
    for c in fm._f.get("ctcs", []) or []:
        ast_ = c._f.get("_ast")
        root_n = ast_._f.get("root") if isinstance(ast_, AObj) else None
        d["constraints"].append((c._f.get("name"), tree_str(root_n), root_n))
    return d


def _plain(v: Any) -> Any:
    if isinstance(v, OrdInt):
        return v.v
    if isinstance(v, (list, tuple)):
        return [_plain(x) for x in v]
    if isinstance(v, dict):
        return {k: _plain(x) for k, x in v.items()}
    if isinstance(v, AObj):
        return f"<{v._cls}>"
    return v


def _typed(v: Any) -> Any:
    """value with its python type name, so that True != 'True' != 1."""
    if isinstance(v, list):
        return [_typed(x) for x in v]
    if isinstance(v, dict):
        return {k: _typed(x) for k, x in v.items()}
    return (type(v).__name__, v)


def diff(a: dict[str, Any], b: dict[str, Any], relation_order: bool = False,
         ctc_names: bool = True, ctc_compare: Any = None,
         ctc_node_compare: Any = None) -> list[tuple[str, str]]:
    """Differences (category, text) between the model written (a) and the model read back (b)."""
    out: list[tuple[str, str]] = []
    if b.get("_malformed") or a.get("_malformed"):
        return [("root", f"the model read is not shaped like a feature model ({b.get('_malformed') or a.get('_malformed')})")]
    if a["root"] != b["root"]:
        out.append(("root", f"root {a['root']!r} comes back as {b['root']!r}"))
    fa, fb = a["features"], b["features"]
    for n in fa:
        if n not in fb:
            out.append(("name", f"feature {n!r} is missing after the round trip "
                                f"(names read back: {sorted(map(str, fb))[:6]})"))
    for n in fb:
        if n not in fa:
            out.append(("name", f"feature {n!r} appears after the round trip"))
    for n in fa:
        if n not in fb:
            continue
        x, y = fa[n], fb[n]
        if x["parent"] != y["parent"]:
            out.append(("parent", f"{n!r}: parent {x['parent']!r} -> {y['parent']!r}"))
        if _typed(x["abstract"]) != _typed(y["abstract"]):
            out.append(("abstract", f"{n!r}: abstract flag {x['abstract']!r} comes back as "
                                    f"{y['abstract']!r} ({type(y['abstract']).__name__})"))
        if x["type"] != y["type"]:
            out.append(("type", f"{n!r}: feature type {x['type']} -> {y['type']}"))
        if x["card"] != y["card"]:
            out.append(("fcard", f"{n!r}: feature cardinality {x['card']} -> {y['card']}"))
        if _typed([list(t) for t in x["attributes"]]) != _typed([list(t) for t in y["attributes"]]):
            out.append(("attribute", f"{n!r}: attributes {x['attributes']} -> {y['attributes']}"))
        ra, rb = a["relations"].get(n, []), b["relations"].get(n, [])
        ka = [(lo, hi, tuple(sorted(map(str, ch)))) for lo, hi, ch in ra]
        kb = [(lo, hi, tuple(sorted(map(str, ch)))) for lo, hi, ch in rb]
        if (ka != kb) if relation_order else (sorted(ka, key=repr) != sorted(kb, key=repr)):
            out.append(("relation", f"{n!r}: relations {ra} -> {rb}"))
    ca, cb = a["constraints"], b["constraints"]
    if len(ca) != len(cb):
        out.append(("constraint-count", f"{len(ca)} constraints written, {len(cb)} read back"))
    for (n1, t1, x1), (n2, t2, x2) in zip(ca, cb):
        if ctc_names and n1 != n2:
            out.append(("constraint-name", f"constraint name {n1!r} -> {n2!r}"))
        if ctc_node_compare is not None:
            same = ctc_node_compare(x1, x2)
        elif ctc_compare is None:
            same = t1 == t2
        elif ctc_compare == "semantic":
            same = semantically_equal(x1, x2)
        else:
            same = ctc_compare(t1, t2)
        if not same:
            out.append(("constraint", f"constraint {n1!r}: {t1} -> {t2}"))
    return out


def wellformed(fm: AObj) -> list[tuple[str, str]]:
    """C02 shape facts of a model returned by a reader (abstract evaluation of its source)."""
    try:
        return _wellformed(fm)
    except (TypeError, AttributeError, KeyError) as exc:
        return [("root", f"the model is not shaped like a feature model ({type(exc).__name__}: {exc})")]


def _wellformed(fm: AObj) -> list[tuple[str, str]]:
    out: list[tuple[str, str]] = []
    root = fm._f.get("root")
    if not isinstance(root, AObj):
        return [("root", "no root feature")]
    if root._f.get("parent") is not None:
        out.append(("root-parent", f"root {root._f.get('name')!r} has a parent"))
    child_of: dict[int, int] = {}
    for f in features(fm):
        for r in f._f.get("relations", []):
            if r._f.get("parent") is not f:
                p = r._f.get("parent")
                out.append(("relation-owner", f"a relation listed under {f._f.get('name')!r} points "
                                              f"back to {p._f.get('name') if isinstance(p, AObj) else p!r}"))
            ch = r._f.get("children", [])
            if len(ch) == 0:
                out.append(("empty-relation", f"relation of {f._f.get('name')!r} has no children"))
            for c in ch:
                if not isinstance(c, AObj) or c._cls != "Feature":
                    out.append(("child-type", f"child {c!r} of a relation of {f._f.get('name')!r} is "
                                              f"not a Feature"))
                    continue
                child_of[id(c)] = child_of.get(id(c), 0) + 1
                if c._f.get("parent") is not f:
                    p = c._f.get("parent")
                    out.append(("child-parent", f"feature {c._f.get('name')!r} is a child in a relation "
                                                f"of {f._f.get('name')!r} but its parent is "
                                                f"{p._f.get('name') if isinstance(p, AObj) else p!r}"))
            for v, nm in ((r._f.get("card_min"), "card_min"), (r._f.get("card_max"), "card_max")):
                if not isinstance(v, (int, OrdInt)) or isinstance(v, bool):
                    out.append(("card-type", f"{nm} of a relation of {f._f.get('name')!r} is "
                                             f"{type(v).__name__} {v!r}, not int"))
        for a in f._f.get("attributes", []) or []:
            if isinstance(a, AObj) and a._f.get("parent") is not f:
                out.append(("attribute-parent", f"attribute {a._f.get('name')!r} of "
                                                f"{f._f.get('name')!r} does not point back to it"))
    for k, v in child_of.items():
        if v != 1:
            out.append(("multi-child", "a feature is a child in more than one relation"))
    for c in fm._f.get("ctcs", []) or []:
        ast_ = c._f.get("_ast") if isinstance(c, AObj) else None
        rn = ast_._f.get("root") if isinstance(ast_, AObj) else None
        out.extend(node_shape(rn, c._f.get("name") if isinstance(c, AObj) else "?"))
    return out


def node_shape(n: Any, cname: Any) -> list[tuple[str, str]]:
    out: list[tuple[str, str]] = []
    if n is None:
        return [("node-none", f"constraint {cname!r} has an empty operand")]
    if not isinstance(n, AObj) or n._cls != "Node":
        return [("node-type", f"constraint {cname!r} contains a non-Node operand {n!r}")]
    op = opname(n)
    l, r = n._f.get("left"), n._f.get("right")
    if op is None:
        if not isinstance(n._f.get("data"), (str, int, float)):
            out.append(("term-type", f"constraint {cname!r}: term data {n._f.get('data')!r} is not a "
                                     f"name / number"))
        return out
    if op == "NOT":
        if l is None or r is not None:
            out.append(("unary-slot", f"constraint {cname!r}: NOT must carry its operand in .left "
                                      f"(left={'set' if l is not None else 'None'}, "
                                      f"right={'set' if r is not None else 'None'})"))
        out.extend(node_shape(l if l is not None else r, cname))
    elif op in ("SUM", "AVG", "LEN", "FLOOR", "CEIL"):
        if l is None:
            out.append(("aggregate-slot", f"constraint {cname!r}: {op} without operand"))
        else:
            out.extend(node_shape(l, cname))
        if r is not None:
            out.extend(node_shape(r, cname))
    else:
        if l is None or r is None:
            out.append(("binary-slot", f"constraint {cname!r}: {op} needs both operands"))
        if l is not None:
            out.extend(node_shape(l, cname))
        if r is not None:
            out.extend(node_shape(r, cname))
    return out


def semantically_equal(a: Any, b: Any) -> bool:
    """Logical equivalence of two expression trees by truth table over the union of their names."""
    from .logic import names_of, truth_table
    try:
        if node_shape(a, "a") or node_shape(b, "b"):
            return False
        names = sorted(set(names_of(a)) | set(names_of(b)))
        if set(names_of(a)) != set(names_of(b)):
            return False
        return truth_table(a, names) == truth_table(b, names)
    except (KeyError, TypeError, AttributeError):
        return False


def logical_only(n: Any) -> bool:
    from .logic import LOGICAL
    if n is None:
        return True
    if not isinstance(n, AObj):
        return False
    op = opname(n)
    if op is None:
        # (an operand of a logical operator is a name, also when it starts with an apostrophe: string literals occur only
        # under comparison operators, which are not in LOGICAL)
        return isinstance(n._f.get("data"), str)
    return op in LOGICAL and logical_only(n._f.get("left")) and logical_only(n._f.get("right"))


def equivalent_or_identical(a: Any, b: Any) -> bool:
    """Logical constraints: truth-table equivalence; others: same tree up to REQUIRES=IMPLIES."""
    if logical_only(a) and logical_only(b):
        return semantically_equal(a, b)
    return tree_str(a).replace("REQUIRES", "IMPLIES") == tree_str(b).replace("REQUIRES", "IMPLIES")
