"""Helpers for Hoare-style step checks: split a function at its single loop, evaluate pieces."""
from __future__ import annotations

import ast
from typing import Any, Optional

from .absint import Interp, _Break, _Continue, _Return
from .core import AnalysisError, loc
from .pm import FuncInfo
from .shapes import body_no_doc


def split_while(fi: FuncInfo, rule: str) -> tuple[list[ast.stmt], ast.While, list[ast.stmt]]:
    body = body_no_doc(fi.node)
    idx = [i for i, s in enumerate(body) if isinstance(s, ast.While)]
    if len(idx) != 1:
        raise AnalysisError(rule, f"{fi.qual}: expected exactly one top-level worklist loop, found "
                                  f"{len(idx)}", loc(fi.unit.path, fi.node))
    i = idx[0]
    return body[:i], body[i], body[i + 1:]  # type: ignore[return-value]


def run_block(it: Interp, stmts: list[ast.stmt], env: dict[str, Any], fi: FuncInfo) -> tuple[bool, Any]:
    """Execute statements; returns (returned?, value)."""
    try:
        it.exec_block(stmts, env, fi)
    except _Return as r:
        return True, r.value
    except (_Continue, _Break):
        return False, None        # the statements are a loop body: this iteration ends here
    return False, None


def returned_name(stmts: list[ast.stmt]) -> Optional[str]:
    for s in stmts:
        if isinstance(s, ast.Return) and isinstance(s.value, ast.Name):
            return s.value.id
    return None


def worklist_name(w: ast.While) -> Optional[str]:
    """`while W:` / `while len(W) > 0:` / `while W != []:` -> W."""
    t = w.test
    if isinstance(t, ast.Name):
        return t.id
    if isinstance(t, ast.Compare) and len(t.ops) == 1:
        l, r = t.left, t.comparators[0]
        if isinstance(l, ast.Call) and isinstance(l.func, ast.Name) and l.func.id == "len" \
                and isinstance(l.args[0], ast.Name):
            return l.args[0].id
        if isinstance(l, ast.Name) and isinstance(r, ast.List) and not r.elts:
            return l.id
    return None


def check_wrapper(pm: Any, ctx: Any, rule: str, cls_name: str, func_qual_name: str,
                  unit: str, extra_setup: Any = None) -> None:
    """Operation class: execute(model).get_result() is exactly helper(model) (identity of the
    token returned by the helper, for the model passed to this execute)."""
    from .absint import AObj, AbsRaise, Interp
    ci = pm.cls(cls_name)
    helper = pm.func(func_qual_name, unit)
    ex, gr, init = pm.method(ci, "execute"), pm.method(ci, "get_result"), pm.method(ci, "__init__")
    if ex is None or gr is None or init is None:
        raise AnalysisError(rule, f"anchor vanished: {cls_name}.execute/get_result/__init__")
    it = Interp(pm)
    it.native[helper.qual] = lambda *a, **k: ("RESULT", tuple(a) + tuple(k.values()))
    op = AObj(cls_name)
    from .model import ModelBuilder
    _mb = ModelBuilder(pm)
    m1, m2 = _mb.model(None, []), _mb.model(None, [])
    try:
        it.call(init, [op])
        if extra_setup is not None:
            extra_setup(it, op)
        it.call(ex, [op, m1])
        ret = it.call(ex, [op, m2])
        r = it.call(gr, [op])
    except AbsRaise as exc:
        r, ret = ("raise", exc.what), None
    good = isinstance(r, tuple) and r[0] == "RESULT" and any(x is m2 for x in r[1]) \
        and not any(x is m1 for x in r[1])
    ctx.check(good, rule, f"wrap:{cls_name}", loc(ex.unit.path, ex.node),
              f"{cls_name}.execute(m).get_result() is {helper.name}(m) for the model of the "
              f"current execution", bad=f"{cls_name}.execute/get_result do not return "
              f"{helper.name}(model of this execution): {str(r)[:120]}")
    ctx.check(ret is op, rule, f"wrap-return:{cls_name}", loc(ex.unit.path, ex.node),
              "execute returns the operation object", bad="execute does not return self")


def extra_loop_state(pre: list[ast.stmt], loop: ast.While, known: set[str]) -> list[str]:
    """Locals set up before the loop and used inside it, other than the state the step argument speaks about: a loop
    that carries such state has an invariant the step check does not know (then the check is not applicable)."""
    pre_locals = {t.id for st in pre for n in ast.walk(st) if isinstance(n, (ast.Assign, ast.AnnAssign, ast.AugAssign))
                  for t in (n.targets if isinstance(n, ast.Assign) else [n.target]) if isinstance(t, ast.Name)}
    used = {n.id for st in loop.body for n in ast.walk(st) if isinstance(n, ast.Name)}
    return sorted((pre_locals & used) - known)
