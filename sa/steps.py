"""Helpers for Hoare-style step checks: split a function at its single loop, evaluate pieces."""
from __future__ import annotations

import ast
from typing import Any, Optional

from .absint import Interp, _Break, _Continue, _Return
from .core import AnalysisError, loc
from .pm import FuncInfo
from .shapes import body_no_doc


def split_while(fi: FuncInfo, rule: str) -> tuple[list[ast.stmt], ast.While, list[ast.stmt]]:
    body = body_no_doc(fi.node)
    idx = [i for i, s in enumerate(body) if isinstance(s, ast.While)]
    if len(idx) != 1:
        raise AnalysisError(rule, f"{fi.qual}: expected exactly one top-level worklist loop, found "
                                  f"{len(idx)}", loc(fi.unit.path, fi.node))
    i = idx[0]
    return body[:i], body[i], body[i + 1:]  # type: ignore[return-value]


def run_block(it: Interp, stmts: list[ast.stmt], env: dict[str, Any], fi: FuncInfo) -> tuple[bool, Any]:
    """Execute statements; returns (returned?, value)."""
    try:
        it.exec_block(stmts, env, fi)
    except _Return as r:
        return True, r.value
    except (_Continue, _Break):
        return False, None        # the statements are a loop body: this iteration ends here
    return False, None


def returned_name(stmts: list[ast.stmt]) -> Optional[str]:
    for s in stmts:
        if isinstance(s, ast.Return) and isinstance(s.value, ast.Name):
            return s.value.id
    return None


def worklist_name(w: ast.While) -> Optional[str]:
    """`while W:` / `while len(W) > 0:` / `while W != []:` -> W."""
    t = w.test
    if isinstance(t, ast.Name):
        return t.id
    if isinstance(t, ast.Compare) and len(t.ops) == 1:
        l, r = t.left, t.comparators[0]
        if isinstance(l, ast.Call) and isinstance(l.func, ast.Name) and l.func.id == "len" \
                and isinstance(l.args[0], ast.Name):
            return l.args[0].id
        if isinstance(l, ast.Name) and isinstance(r, ast.List) and not r.elts:
            return l.id
    return None


def check_wrapper(pm: Any, ctx: Any, rule: str, cls_name: str, func_qual_name: str,
                  unit: str, extra_setup: Any = None) -> None:
    """Operation class: execute(model).get_result() is what the stand-alone function gives for the model passed to
    THIS execute. Decided by evaluation, however the class and the function share their code (one calls the other, both
    call a third, a base class does the plumbing): the operation is executed on a first model and then on a second,
    different one; its result must be the function's value on the second model (same objects, same order) and not the
    value on the first."""
    from .absint import AObj, AbsMutation, AbsRaise, Interp
    from .model import ModelBuilder
    ci = pm.cls(cls_name)
    helper = pm.func(func_qual_name, unit)
    ex, gr = pm.method(ci, "execute"), pm.method(ci, "get_result")
    if ex is None or gr is None:
        raise AnalysisError(rule, f"anchor vanished: {cls_name}.execute/get_result")
    mb = ModelBuilder(pm)
    F = mb.feature

    def first() -> AObj:
        r, a, b = F("R1"), F("a"), F("b")
        mb.relation(r, [a], 1, 1)
        mb.relation(r, [b], 0, 1)
        mb.relation(a, [F("a1"), F("a2")], 1, 1)
        return mb.model(r, [])

    def second() -> AObj:
        r, m_, o_, g = F("R2"), F("m"), F("o"), F("g")
        mb.relation(r, [m_], 1, 1)
        mb.relation(r, [o_], 0, 1)
        mb.relation(m_, [g], 1, 1)
        mb.relation(g, [F("g1"), F("g2"), F("g3")], 1, 2)
        mb.relation(o_, [F("o1")], 1, 1)
        mb.relation(o_, [F("o2")], 0, 1)
        return mb.model(r, [mb.constraint("k", mb.node(mb.op("REQUIRES"), mb.node("o1"), mb.node("g1")))])

    def canon(v: Any) -> Any:
        if isinstance(v, AObj):
            return ("obj", id(v))
        if isinstance(v, (list, tuple)):
            return [canon(x) for x in v]
        if isinstance(v, (set, frozenset)):
            return ("set", sorted(repr(canon(x)) for x in v))
        if isinstance(v, dict):
            return ("dict", sorted((repr(canon(k)), repr(canon(x))) for k, x in v.items()))
        return v
    m1, m2 = first(), second()
    it = Interp(pm, max_depth=60)
    try:
        want2 = canon(it.call(helper, [m2]))
        want1 = canon(it.call(helper, [m1]))
        op = it.eval_call_class(ci)
        if extra_setup is not None:
            extra_setup(it, op)
        it.call(ex, [op, m1])
        ret = it.call(ex, [op, m2])
        got = canon(it.call(gr, [op]))
    except (AbsRaise, AbsMutation) as exc:
        ctx.violation(rule, f"wrap:{cls_name}", loc(ex.unit.path, ex.node),
                      f"{cls_name}.execute / {helper.name} raises on a well-formed model: {exc.what}")
        return
    ctx.check(got == want2 and (want1 == want2 or got != want1), rule, f"wrap:{cls_name}", loc(ex.unit.path, ex.node),
              f"{cls_name}.execute(m).get_result() is {helper.name}(m) for the model of the current execution",
              bad=f"{cls_name}.execute/get_result do not return {helper.name}(model of this execution): "
                  f"{'the value for the model executed before' if got == want1 else str(got)[:100]}")
    ctx.check(ret is op, rule, f"wrap-return:{cls_name}", loc(ex.unit.path, ex.node),
              "execute returns the operation object", bad="execute does not return self")
    from .props.c19 import op_sequences                  # sequences of calls on one operation object, for this class
    op_sequences(pm, ctx, mb, [ci], rule.split("-")[0])


def extra_loop_state(pre: list[ast.stmt], loop: ast.While, known: set[str]) -> list[str]:
    """Locals set up before the loop and used inside it, other than the state the step argument speaks about: a loop
    that carries such state has an invariant the step check does not know (then the check is not applicable)."""
    pre_locals = {t.id for st in pre for n in ast.walk(st) if isinstance(n, (ast.Assign, ast.AnnAssign, ast.AugAssign))
                  for t in (n.targets if isinstance(n, ast.Assign) else [n.target]) if isinstance(t, ast.Name)}
    used = {n.id for st in loop.body for n in ast.walk(st) if isinstance(n, ast.Name)}
    return sorted((pre_locals & used) - known)
