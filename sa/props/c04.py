"""C04 — UVL reader yields the model the document denotes, or fails loudly (DESIGN §5 C04)."""
from __future__ import annotations

import itertools
from typing import Any, Optional

from ..absint import AObj, AbsRaise, EnumVal
from ..antlrstubs import Console, install_antlr
from ..codec import PATH, run_reader
from ..core import AnalysisError, Ctx, loc
from ..iostubs import VFS
from ..logic import opname
from ..model import ModelBuilder
from ..pm import ProgramModel
from ..roundtrip import describe, diff, equivalent_or_identical, wellformed

OPS = {"AND": "&", "OR": "|", "IMPLIES": "=>", "EQUIVALENCE": "<=>", "NOT": "!", "EQUALS": "==",
       "NOT_EQUALS": "!=", "LOWER": "<", "LOWER_EQUALS": "<=", "GREATER": ">", "GREATER_EQUALS": ">=",
       "ADD": "+", "SUB": "-", "MUL": "*", "DIV": "/", "SUM": "sum", "AVG": "avg", "LEN": "len",
       "FLOOR": "floor", "CEIL": "ceil"}
PREC = {"EQUIVALENCE": 1, "IMPLIES": 2, "OR": 3, "AND": 4, "NOT": 5}


_KEYWORDS: list[str] = []


def _uvl_keywords() -> list[str]:
    """Words the language reserves: the alphabetic literals of the generated lexer, plus the Boolean literals."""
    if not _KEYWORDS:
        from uvl.UVLPythonLexer import UVLPythonLexer
        _KEYWORDS.extend(x.strip("'") for x in UVLPythonLexer.literalNames if x.strip("'").isalpha())
        _KEYWORDS.extend(["true", "false"])
    return _KEYWORDS


class RefEmitter:
    """Independent reference emitter of UVL text from an abstract model (UVL language definition:
    indentation blocks, group keywords, `cardinality [a..b]`, `{attributes}`, constraint syntax)."""

    def __init__(self, quote_all: bool = False, parens: bool = False, merge_groups: bool = False,
                 comments: bool = False, headers: bool = False) -> None:
        self.quote_all, self.parens, self.merge = quote_all, parens, merge_groups
        self.comments, self.headers = comments, headers

    def ident(self, name: str) -> str:
        if "." in name:
            return ".".join(self.ident(p) for p in name.split("."))
        bare = name.isascii() and name[:1].isalpha() and all(c.isalnum() or c == "_" for c in name) and \
            name not in _uvl_keywords()
        return name if bare and not self.quote_all else f'"{name}"'

    def value(self, v: Any) -> str:
        if isinstance(v, bool):
            return "true" if v else "false"
        if isinstance(v, str):
            return f"'{v}'"
        if isinstance(v, list):
            return "[" + ", ".join(self.value(x) for x in v) + "]"
        if isinstance(v, dict):
            return "{" + ", ".join(self.ident(k) + ("" if x is None else " " + self.value(x)) for k, x in v.items()) + "}"
        return str(v)

    def card(self, lo: int, hi: int) -> str:
        if lo == hi:
            return f"[{lo}]"
        return f"[{lo}..{'*' if hi == -1 else hi}]"

    def feature(self, f: AObj, depth: int, out: list[str]) -> None:
        tabs = "\t" * depth
        ft = f._f["feature_type"]
        line = tabs
        if ft.name != "BOOLEAN" or f._f.get("_explicit_type"):
            line += ft.value + " "
        line += self.ident(f._f["name"])
        c = f._f["feature_cardinality"]
        if (c._f["min"], c._f["max"]) != (1, 1):
            lo, hi = c._f["min"], c._f["max"]
            line += f" cardinality [{lo}..{'*' if hi == -1 else hi}]"
        attrs = []
        if f._f["is_abstract"]:
            attrs.append("abstract")
        for a in f._f["attributes"]:
            attrs.append(self.ident(a._f["name"]) + ("" if a._f["default_value"] is None
                                                      else " " + self.value(a._f["default_value"])))
        if attrs:
            line += " {" + ", ".join(attrs) + "}"
        if self.comments:
            line += " // " + "feature"
        out.append(line)
        rels = list(f._f["relations"])
        i = 0
        while i < len(rels):
            r = rels[i]
            lo, hi, n = r._f["card_min"], r._f["card_max"], len(r._f["children"])
            kids = list(r._f["children"])
            if n == 1 and (lo, hi) in ((1, 1), (0, 1)):
                kw = "mandatory" if lo == 1 else "optional"
                if self.merge:          # several children listed under one keyword
                    while i + 1 < len(rels) and len(rels[i + 1]._f["children"]) == 1 and \
                            (rels[i + 1]._f["card_min"], rels[i + 1]._f["card_max"]) == (lo, hi):
                        i += 1
                        kids.extend(rels[i]._f["children"])
            elif n > 1 and (lo, hi) == (1, 1):
                kw = "alternative"
            elif n > 1 and lo == 1 and hi == n:
                kw = "or"
            else:
                kw = self.card(lo, hi)
            out.append("\t" * (depth + 1) + kw)
            for k in kids:
                self.feature(k, depth + 2, out)
            i += 1

    def expr(self, n: AObj, parent_prec: int = 0) -> str:
        op = opname(n)
        if op is None:
            d = n._f["data"]
            return self.ident(d) if isinstance(d, str) and not d.startswith("'") else str(d)
        if op == "NOT":
            inner = self.expr(n._f["left"], PREC["NOT"])
            s = f"!{inner}"
            return f"({s})" if self.parens else s
        if op in ("SUM", "AVG", "LEN", "FLOOR", "CEIL"):
            args = [self.expr(x) for x in (n._f["left"], n._f["right"]) if x is not None]
            return f"{OPS[op]}({', '.join(args)})"
        if op in PREC:
            p = PREC[op]
            s = f"{self.expr(n._f['left'], p + 1)} {OPS[op]} {self.expr(n._f['right'], p + 1)}"
            return f"({s})" if p < parent_prec or self.parens else s
        # comparison / arithmetic: always parenthesise nested arithmetic
        l, r = n._f["left"], n._f["right"]
        ls = f"({self.expr(l)})" if opname(l) in ("ADD", "SUB", "MUL", "DIV") else self.expr(l)
        rs = f"({self.expr(r)})" if opname(r) in ("ADD", "SUB", "MUL", "DIV") else self.expr(r)
        return f"{ls} {OPS[op]} {rs}"

    def emit(self, fm: AObj) -> str:
        out: list[str] = []
        if self.comments and not self.headers:   # the recogniser wants `namespace` on the first line
            out.append("// reference document")
        if self.headers:
            out += ["namespace Shop", "include", "\tBoolean.group-cardinality",
                    "\tArithmetic.feature-cardinality", "imports", "\tother.model as om", ""]
        out.append("features")
        self.feature(fm._f["root"], 1, out)
        if fm._f["ctcs"]:
            out.append("")
            out.append("constraints")
            for c in fm._f["ctcs"]:
                out.append("\t" + self.expr(c._f["_ast"]._f["root"]))
        return "\n".join(out) + "\n"


def reference_model(pm: ProgramModel, mb: ModelBuilder) -> AObj:
    ft = pm.enum_members(pm.cls("FeatureType"))
    T = lambda k: EnumVal("FeatureType", k, ft[k])  # noqa: E731
    F = mb.feature
    root = F("Shop", is_abstract=True)
    pay, cat, srch = F("Payment"), F("Catalog", is_abstract=True), F("Search")
    qty = F("Quantity", ftype=T("INTEGER"), card=(1, 3))
    lbl = F("Label", ftype=T("STRING"))
    price = F("Price", ftype=T("REAL"))
    flag = F("Flag")
    flag._f["_explicit_type"] = True
    card_f, cash, coin = F("Credit Card"), F("Cash"), F("Coin")
    a, b, c = F("A"), F("B"), F("C")
    d, e, g = F("D"), F("E"), F("G")
    h, i = F("H"), F("I")
    multi = F("Multi", card=(0, -1))
    uni = F("Crème brûlée")                 # non-ASCII, quoted identifier
    uni2 = F("Größe-µ")
    mb.relation(root, [pay], 1, 1)
    mb.relation(root, [cat], 1, 1)
    mb.relation(root, [srch], 0, 1)
    mb.relation(root, [qty], 0, 1)
    mb.relation(root, [multi], 0, 1)
    mb.relation(root, [uni], 0, 1)
    mb.relation(uni, [uni2], 1, 1)
    uni._f["attributes"].append(mb.attribute("étiquette", "süß & señor", uni))
    root._f["attributes"].append(mb.attribute("rating", 4, root))        # referred to as Shop.rating (the namespace is Shop too)
    for nm_ in ("Usb", "USB", "Driver", "DRIVER"):                        # four features, two look-alike constraints below
        mb.relation(root, [F(nm_)], 0, 1)
    mb.relation(pay, [card_f, cash, coin], 1, 3)         # or
    mb.relation(cat, [a, b, c], 1, 1)                    # alternative
    mb.relation(cat, [lbl], 1, 1)
    mb.relation(cat, [price], 1, 1)
    mb.relation(cat, [flag], 1, 1)
    mb.relation(srch, [d, e, g], 1, 2)                   # [1..2]
    mb.relation(srch, [h, i], 2, 2)                      # [2]
    mb.relation(a, [F("Deep1"), F("Deep2")], 0, -1)      # [0..*]
    mb.relation(b, [F("Dead1"), F("Dead2")], 0, 0)       # [0]
    mb.relation(b, [F("Zero", card=(0, 0))], 0, 1)       # feature cardinality [0..0]
    mb.relation(c, [F("One1"), F("One2"), F("One3")], 1, -1)   # [1..*]
    for name, val in (("count", 3), ("ratio", 2.5), ("title", "hello world"), ("on", True), ("off", False),
                      ("items", [1, 2, "x"]), ("nested", {"k": 1, "z": "w"}), ("marker", None), ("neg", -4)):
        pay._f["attributes"].append(mb.attribute(name, val, pay))
    card_f._f["attributes"].append(mb.attribute("fee", 2, card_f))
    # the same attribute (name and value) on several features: each feature has its own
    cash._f["attributes"].append(mb.attribute("fee", 2, cash))
    cash._f["attributes"].append(mb.attribute("deprecated", None, cash))
    cash._f["attributes"].append(mb.attribute("code", "10", cash))          # a string that looks like a number
    coin._f["attributes"].append(mb.attribute("deprecated", None, coin))
    n, o = mb.node, mb.op
    cs = [
        n(o("NOT"), n("Coin")),
        n(o("AND"), n("A"), n("D")),
        n(o("OR"), n("B"), n("E")),
        n(o("IMPLIES"), n("Credit Card"), n("Search")),
        n(o("EQUIVALENCE"), n("C"), n("G")),
        n(o("AND"), n(o("OR"), n("A"), n("B")), n(o("NOT"), n(o("IMPLIES"), n("D"), n("E")))),
        n(o("IMPLIES"), n("A"), n(o("IMPLIES"), n("B"), n("C"))),
        n(o("EQUALS"), n("Payment.count"), n(3)),
        n(o("NOT_EQUALS"), n("Payment.count"), n(4)),
        n(o("LOWER"), n("Payment.ratio"), n(7.5)),
        n(o("LOWER_EQUALS"), n("Payment.count"), n(9)),
        n(o("GREATER"), n(o("ADD"), n("Payment.count"), n(o("MUL"), n("Credit Card.fee"), n(2))), n(1)),
        n(o("GREATER_EQUALS"), n(o("SUB"), n("Payment.count"), n(o("DIV"), n("Payment.neg"), n(2))), n(0)),
        n(o("GREATER"), n(o("SUM"), n("fee")), n(1)),
        n(o("GREATER"), n(o("SUM"), n("fee"), n("Payment")), n(1)),
        n(o("LOWER"), n(o("AVG"), n("fee")), n(5)),
        n(o("LOWER"), n(o("AVG"), n("fee"), n("Payment")), n(5)),
        n(o("EQUALS"), n(o("LEN"), n("Label")), n(3)),
        n(o("GREATER"), n(o("FLOOR"), n("Price")), n(1)),
        n(o("LOWER"), n(o("CEIL"), n("Price")), n(9)),
        n(o("EQUALS"), n("Label"), n("'abc def'")),
        n(o("IMPLIES"), n("Crème brûlée"), n("Größe-µ")),
        n(o("EQUALS"), n("Label"), n("'naïve Ωmega'")),
        n(o("GREATER"), n("Shop.rating"), n(3)),
        n(o("IMPLIES"), n("Usb"), n("Driver")),
        n(o("IMPLIES"), n("USB"), n("DRIVER")),
        n(o("NOT_EQUALS"), n("Label"), n("'RW'")),
        n(o("NOT_EQUALS"), n("Label"), n("'rw'")),
    ]
    return mb.model(root, [mb.constraint(f"Constraint {k}", x) for k, x in enumerate(cs)])


NEGATIVES = {
    "unbalanced-brace": "features\n\tRoot {abstract\n\t\tmandatory\n\t\t\tA\n",
    "stray-operator": "features\n\tRoot\n\t\tmandatory\n\t\t\tA\n\t\t\tB\nconstraints\n\tA => & B\n",
    "missing-features-keyword": "\tRoot\n\t\tmandatory\n\t\t\tA\n",
    "broken-indentation": "features\n\tRoot\n\t\tmandatory\n\tA\n\t\t\tB\n",
    "stray-character": "features\n\tRoot\n\t\tmandatory\n\t\t\tA @\n",
    "stray-character-in-constraint": "features\n\tRoot\n\t\tmandatory\n\t\t\tA\nconstraints\n\tA # Root\n",
    "unbalanced-parenthesis": "features\n\tRoot\n\t\tmandatory\n\t\t\tA\nconstraints\n\t(A & Root\n",
    "missing-group-keyword": "features\n\tRoot\n\t\t\tA\n",
}


def check(pm: ProgramModel, ctx: Ctx) -> None:
    ctx.explanation = (
        "UVLReader.transform is evaluated from source on documents emitted by an independent "
        "reference emitter (written against the UVL language definition, not against the repo's "
        "writer) from a reference abstract model that uses every construct of the language level "
        "the property names - typed features, feature and group cardinalities [n], [n..m], "
        "[n..*], abstract markers, every attribute value kind, every logical / comparison / "
        "arithmetic / aggregate operator - under all 32 combinations of the surface choices "
        "(quoting every identifier, redundant parentheses, several children under one group "
        "keyword, line comments, namespace/import/include headers); the dependency's generated "
        "recogniser supplies the parse tree. The abstract model read must equal the reference "
        "model (constraints by truth table / identical trees) and be well-formed. Documents made "
        "invalid by construction must make transform raise. Dispatch exhaustiveness: every "
        "labelled alternative of the grammar's group / constraint / expression / equation / "
        "aggregate rules (read from the generated parser source) is named in the reader.")
    ctx.not_decided = ["conformance of the generated lexer/parser to the UVL language definition",
                       "documents beyond the reference model's constructs and their surface variants"]
    mb = ModelBuilder(pm)
    rd = pm.cls("UVLReader")
    where = loc(rd.unit.path, rd.node)
    ref = reference_model(pm, mb)
    dref = describe(ref)
    console = Console()
    nvar = 0
    with console:
        for flags in itertools.product([False, True], repeat=5):
            em = RefEmitter(*flags)
            text = em.emit(ref)
            nvar += 1
            vfs = VFS()
            vfs.files[PATH] = text
            r = run_reader(pm, "UVLReader", vfs, setup=install_antlr)
            label = ",".join(n for n, f in zip(("quote-all", "parens", "merged-groups", "comments", "headers"), flags) if f) or "plain"
            if r["raise"]:
                ctx.violation("C04-DENOTES", f"variant:{label}:raises", r["raise"][1] or where,
                              f"valid document (surface choices: {label}) is rejected: {r['raise'][0]}")
                continue
            ds = diff(dref, describe(r["model"]), ctc_names=True, ctc_node_compare=equivalent_or_identical)
            cats = sorted({c for c, _ in ds})
            if not ds:
                ctx.ok("C04-DENOTES", f"variant:{label}", where, "model read equals the reference model")
            for c in cats:
                first = next(t for cc, t in ds if cc == c)
                ctx.violation("C04-DENOTES", f"denotes:{c}", where, f"surface choices [{label}]: {first}")
            wf = wellformed(r["model"])
            if wf:
                ctx.violation("C04-WELLFORMED", f"shape:{wf[0][0]}", where, wf[0][1])
        ctx.analysed["C04:variants"] = nvar
        # larger documents: twelve siblings, two-digit bounds, twelve levels of indentation, thirteen constraints,
        # long identifiers - the same reference emitter, plain and with every identifier quoted
        from ..codec import large_models
        for key, big, what, _owns in large_models(mb, ("AND", "OR", "IMPLIES", "EQUIVALENCE")):
            dbig = describe(big)
            for quote_all in (False, True):
                vfs = VFS()
                vfs.files[PATH] = RefEmitter(quote_all).emit(big)
                r = run_reader(pm, "UVLReader", vfs, setup=install_antlr)
                label = f"large:{key}:{'quoted' if quote_all else 'plain'}"
                if r["raise"]:
                    ctx.violation("C04-DENOTES", f"{label}:raises", r["raise"][1] or where,
                                  f"valid document ({what}) is rejected: {r['raise'][0]}")
                    continue
                ds = diff(dbig, describe(r["model"]), ctc_names=False, ctc_node_compare=equivalent_or_identical)
                wfb = wellformed(r["model"])
                ctx.check(not ds and not wfb, "C04-DENOTES", label, where,
                          f"model read from a larger document ({what}) equals the model it was emitted from",
                          bad=f"larger document ({what}): {(ds or wfb or [('', '')])[0][1]}")
        # every two-way combination of position, name shape, decoration, attribute kind, constraint role and operator on
        # one feature, as documents of the reference emitter
        from ..interact import Fragment, assignments, build
        from ..absint import EnumVal
        from .c01 import UVL_NAMES
        ftm = pm.enum_members(pm.cls("FeatureType"))
        pfr = Fragment(names={k_: v_ for k_, v_ in UVL_NAMES.items() if not v_.startswith("'")},
                       ops=("AND", "OR", "IMPLIES", "EQUIVALENCE"),
                       types={k_: EnumVal("FeatureType", k_, v_) for k_, v_ in ftm.items() if k_ != "BOOLEAN"},
                       fcards=((0, 3), (1, -1), (2, 10)), numeric=True,
                       values={"none": None, "true": True, "int": 7, "negative-int": -3, "float": 2.5, "str": "some text",
                               "numeric-string": "10", "list": [1, 2.5, "a"], "nested-map": {"k": 1, "inner": {"x": "y"}},
                               "empty-list": []})
        pms, ptotal, pleft = assignments(pfr)
        for i_, asg in enumerate(pms):
            pm_, what = build(mb, pfr, asg, i_)
            vfs = VFS()
            vfs.files[PATH] = RefEmitter(quote_all=bool(i_ % 2), parens=bool(i_ % 3 == 0)).emit(pm_)
            r = run_reader(pm, "UVLReader", vfs, setup=install_antlr)
            label = f"pairwise:{i_:02d}"
            if r["raise"]:
                ctx.violation("C04-DENOTES", f"{label}:raises", r["raise"][1] or where,
                              f"valid document ({what}) is rejected: {r['raise'][0]}")
                continue
            ds = diff(describe(pm_), describe(r["model"]), ctc_names=False, ctc_node_compare=equivalent_or_identical)
            wfb = wellformed(r["model"])
            ctx.check(not ds and not wfb, "C04-DENOTES", label, where,
                      f"model read from the reference document of {what.split(':')[0]} equals the model it was emitted from",
                      bad=f"{what}: {(ds or wfb or [('', '')])[0][1]}")
        ctx.analysed["C04:pairwise"] = {"models": len(pms), "pairs": ptotal, "pairs-not-covered": pleft}
        # one reader object, asked again after the file was replaced by another document / by a broken one --------------
        from ..iostubs import VFS as _VFS
        from ..codec import new_interp
        from ..absint import AbsMutation
        rcls = pm.cls("UVLReader")
        trm = pm.method(rcls, "transform")
        small = pms and build(mb, pfr, pms[0], 0)[0]
        if small:
            vfs = _VFS()
            vfs.put(PATH, RefEmitter().emit(ref))
            it_r = new_interp(pm, vfs)
            install_antlr(it_r, vfs)
            try:
                rd = it_r.eval_call_class(rcls, [PATH])
                it_r.call(trm, [rd])
                vfs.put(PATH, RefEmitter().emit(small))
                second = it_r.call(trm, [rd])
                ds = diff(describe(small), describe(second), ctc_names=False, ctc_node_compare=equivalent_or_identical)
                ctx.check(not ds, "C04-DENOTES", "same-reader-object:file-replaced", where,
                          "a reader object asked again after its file was replaced reads the document that is there now",
                          bad=f"the reader object, asked again after the file was replaced, returns a model that the new "
                              f"document does not denote: {ds[0][1] if ds else ''}")
                vfs.put(PATH, NEGATIVES[sorted(NEGATIVES)[0]])
                try:
                    it_r.call(trm, [rd])
                    ctx.violation("C04-ERRORS", "same-reader-object:file-broken", where,
                                  "the reader object, asked again after its file was replaced by an invalid document, returns "
                                  "a model instead of reporting the syntax error")
                except (AbsRaise, AbsMutation):
                    ctx.ok("C04-ERRORS", "same-reader-object:file-broken", where,
                           "an invalid document is reported also by a reader object that read a valid one before")
            except (AbsRaise, AbsMutation) as exc:
                ctx.info("C04-DENOTES", "same-reader-object:file-replaced", where,
                         f"a reader object asked to transform() a second time declines: {exc.what}")
        # a document read, the caller edits a vector value of the model in place, the document read again by a new reader:
        # what the second reading returns is the document's (a table of values handed out as they are stored would not be)
        def vectors() -> AObj:
            r_ = mb.feature("R")
            a_, b_ = mb.feature("A"), mb.feature("B")
            mb.relation(r_, [a_], 1, 1)
            mb.relation(r_, [b_], 0, 1)
            a_._f["attributes"].append(mb.attribute("levels", [1, 2, 3], a_))
            b_._f["attributes"].append(mb.attribute("steps", [1, 2, 3], b_))
            b_._f["attributes"].append(mb.attribute("box", {"k": [1, 2, 3], "s": "x"}, b_))
            return mb.model(r_, [])
        vref = vectors()
        vfs = VFS()
        vfs.files[PATH] = RefEmitter().emit(vref)
        r1_ = run_reader(pm, "UVLReader", vfs, setup=install_antlr)
        if r1_["model"] is not None and not diff(describe(vref), describe(r1_["model"]), ctc_names=False):
            from ..roundtrip import features as _feats
            for f_ in _feats(r1_["model"]):
                for at_ in f_._f.get("attributes", []):
                    v_ = at_._f.get("default_value")
                    if isinstance(v_, list):
                        v_.append(99)
                    elif isinstance(v_, dict):
                        for x_ in v_.values():
                            if isinstance(x_, list):
                                x_.clear()
            r2_ = run_reader(pm, "UVLReader", vfs, setup=install_antlr)
            ds = diff(describe(vref), describe(r2_["model"]), ctc_names=False) if r2_["model"] is not None else [("raise", str(r2_["raise"]))]
            ctx.check(not ds, "C04-DENOTES", "read-edit-vector-read", where,
                      "a document read again after the caller edited a vector value of the first result denotes the same values",
                      bad=f"after the caller edited a vector value of the model read first, the same document is read with "
                          f"other values: {ds[0][1] if ds else ''}")
        # negatives -------------------------------------------------------------------------------
        for key, text in NEGATIVES.items():
            vfs = VFS()
            vfs.files[PATH] = text
            r = run_reader(pm, "UVLReader", vfs, setup=install_antlr)
            raised = r["raise"] is not None
            ctx.check(raised, "C04-ERRORS", f"negative:{key}", where,
                      f"invalid document ({key}) makes the reader raise: {r['raise'][0] if raised else ''}",
                      bad=f"a document with a syntax error ({key}) is accepted and a model is returned")
        # history: a valid document read after documents that were rejected, in the same process, is read as in a
        # fresh process (an error list, a listener or a parser kept across calls would carry the earlier errors over)
        vfs = VFS()
        vfs.files[PATH] = RefEmitter().emit(ref)
        r = run_reader(pm, "UVLReader", vfs, setup=install_antlr)
        ds = [] if r["raise"] else diff(dref, describe(r["model"]), ctc_names=True, ctc_node_compare=equivalent_or_identical)
        ctx.check(not r["raise"] and not ds, "C04-DENOTES", "history:valid-after-rejected", where,
                  "a valid document read after rejected ones denotes the same model as before",
                  bad=f"a valid document read after the rejected ones: "
                      f"{r['raise'][0] if r['raise'] else (ds or [('', '')])[0][1]}")
    alternatives(pm, ctx)
    ctx.floor("C04", "obligations", len(ctx.obligations), 40)


def alternatives(pm: ProgramModel, ctx: Ctx) -> None:
    """C04-ALTS: every labelled alternative of the dispatched grammar rules occurs in the reader."""
    import ast as _ast
    par = pm.env_unit("uvl.UVLPythonParser")
    ru = pm.unit("uvl_reader")
    # named in the reader module or in a package module its code was moved to
    mentioned = {n.attr for u_ in pm.pkg_units() if "/transformations/" in u_.path for n in _ast.walk(u_.tree)
                 if isinstance(n, _ast.Attribute)} | \
                {n.id for u_ in pm.pkg_units() if "/transformations/" in u_.path for n in _ast.walk(u_.tree) if isinstance(n, _ast.Name)}
    rules = {"GroupContext": 5, "ConstraintContext": 8, "ExpressionContext": 10, "EquationContext": 6,
             "AggregateFunctionContext": 4, "StringAggregateFunctionContext": 1,
             "NumericAggregateFunctionContext": 2}
    total = 0
    for base, floor in rules.items():
        alts = [c.name for c in pm.classes.values() if c.unit is par and base in c.bases]
        if len(alts) < floor:
            raise AnalysisError("C04-ALTS", f"grammar rule {base}: {len(alts)} alternatives found, floor {floor}")
        for a in alts:
            total += 1
            ctx.check(a in mentioned, "C04-ALTS", f"alt:{a}", loc(ru.path, ru.tree),
                      f"alternative {a} of {base} is dispatched by the reader",
                      bad=f"grammar alternative {a} of {base} is never named in uvl_reader.py: valid syntax "
                          f"of that form is dropped or rejected")
    ctx.analysed["C04:grammar-alternatives"] = total
