"""C13 — configuration estimate: exact without constraints, an upper bound with (DESIGN §5 C13)."""
from __future__ import annotations

import itertools
from typing import Any

from ..absint import AObj, AbsRaise, Interp
from ..card import D, domain_wf, kind
from ..core import AnalysisError, Ctx, loc
from ..model import ModelBuilder
from ..pm import ProgramModel
from ..poly import Poly, elementary, prod

REP2 = [D(1, 1, 1), D(0, 1, 1), D(1, 1, 2), D(1, 2, 2), D(0, 1, 2), D(2, 2, 3), D(0, 2, 2)]


def reference(ds: list[D], names: list[list[str]]) -> Poly:
    """Exact number of configurations of a parent whose children subtrees have c_i configurations:
    product over relations of sum_{k=min..upper} e_k(c_1..c_n)."""
    tot: Any = Poly.const(1)
    for d, ns in zip(ds, names):
        xs = [Poly.var(n) for n in ns]
        rel: Any = Poly.const(0)
        for k in range(d.min, d.upper + 1):
            rel = rel + elementary(k, xs)
        tot = tot * rel
    return Poly.of(tot)


def check(pm: ProgramModel, ctx: Ctx) -> None:
    ctx.explanation = (
        "Inductive proof step decided statically: the body of the recursive count is evaluated "
        "once, as a formula, at an abstract feature whose relations range over all well-formed "
        "cardinalities (n<=4) and pairs of representative relations, with every recursive call "
        "replaced by its induction hypothesis (a symbolic count c_i of the child's subtree). The "
        "resulting polynomial must be identical to the exact count "
        "prod_r sum_{k=min..max} e_k(c_1..c_n); the leaf case must be 1; the cross-tree constraints "
        "are not consulted (so the tree count is an upper bound of the constrained count). By "
        "structural induction the estimate then equals the exact tree count for every tree whose "
        "relations have at most the bounded arity.")
    ctx.not_decided = ["relations with more than 4 children / cardinalities above the box (the "
                       "closed forms are checked as polynomial identities only up to that arity)",
                       "numeric agreement with an independent enumerator on concrete models"]
    ctx.assumptions = ["children of distinct relations are distinct features (well-formed tree)"]
    rule = "C13"
    rec = pm.func("count_configurations_rec", "fm_estimated_configurations_number")
    top = pm.func("count_configurations", "fm_estimated_configurations_number")
    opc = pm.cls("FMEstimatedConfigurationsNumber")
    mb = ModelBuilder(pm)

    def new_interp(state: dict[str, Any]) -> Interp:
        it = Interp(pm)

        def stub(feature: Any) -> Any:
            if state["top"]:
                state["top"] = False
                return it.call(rec, [feature], skip_native=True)
            state["calls"].append(feature._f["name"])
            return Poly.var(feature._f["name"])
        it.native[rec.qual] = stub
        it.native["math.prod"] = lambda xs, start=1: prod([start] + list(xs))
        it.native["itertools.combinations"] = lambda xs, k: iter(list(itertools.combinations(list(it.iterate(xs)), k)))
        it.native["functools.reduce"] = _reduce(it)
        return it

    # leaf
    state = {"top": True, "calls": []}
    it = new_interp(state)
    leaf = mb.feature("L")
    try:
        v = it.call(rec, [leaf])
    except AbsRaise as exc:
        v = ("raise", exc.what)
    ctx.check(v == 1 and not isinstance(v, Poly), "C13-LEAF", "leaf", loc(rec.unit.path, rec.node),
              "a feature without relations counts 1", bad=f"leaf feature counts {v!r}, expected 1")

    # the root-only model through the entry function (paths that leave before the recursion)
    state = {"top": True, "calls": []}
    it = new_interp(state)
    lone = mb.model(mb.feature("Root"), [mb.constraint("t", mb.node(mb.op("OR"), mb.node("Root"), mb.node(mb.op("NOT"), mb.node("Root"))))])
    try:
        v = it.call(top, [lone])
    except AbsRaise as exc:
        v = ("raise", exc.what)
    ctx.check(v == 1 and not isinstance(v, (Poly, bool, tuple)), "C13-LEAF", "root-only-model", loc(top.unit.path, top.node),
              "the model that consists of the root alone has exactly one configuration",
              bad=f"count_configurations on the root-only model gives {v!r}, expected 1")
    contexts: list[tuple[D, ...]] = [(d,) for d in domain_wf(ctx.tier) if d.n <= 4 and d.min <= 4 and d.max <= 4]
    contexts += [(d,) for d in REP2]     # again, with other values of the irrelevant fields
    contexts += list(itertools.product(REP2, repeat=2))
    # larger arities and bounds: a closed form, a fast path or a table that is right up to four children
    contexts += [(D(3, 5, 7),), (D(1, 7, 7),), (D(1, 1, 7),), (D(0, 1, 6),), (D(4, 4, 6),), (D(1, 12, 12),), (D(1, 1, 12),),
                 (D(4, 7, 12),), (D(10, 11, 11),)]
    contexts += [tuple(D(1 if i in (0, 9, 10) else 0, 1, 1) for i in range(11)) + (D(1, 2, 2), D(1, 1, 3))]
    # every [a..b] over five and six children (seven and eight in the thorough tier): the share of allowed sizes, the
    # distance of the bounds from 0 and from n, and the parity of n all vary
    for n_ in ((5, 6) if ctx.tier == "quick" else (5, 6, 7, 8)):
        contexts += [(D(lo, hi, n_),) for lo in range(0, n_ + 1) for hi in range(max(lo, 1), n_ + 1)]
    contexts += [(D(0, 10, 12),), (D(2, 9, 12),), (D(0, 11, 12),), (D(6, 6, 12),)]
    if ctx.tier == "thorough":
        contexts += list(itertools.product(REP2[:5], repeat=3))
    bad: dict[str, list[str]] = {}
    okc: dict[str, int] = {}
    reads_ctcs = False
    for ci_, ds in enumerate(contexts):
        # irrelevant fields vary across contexts so that a dependency on them is exposed
        root = mb.feature("P", is_abstract=(ci_ % 2 == 1),
                          ftype=None if ci_ % 3 else mb_type(pm, "INTEGER"),
                          card=(1, 1) if ci_ % 5 else (0, 3))
        names = []
        for i, d in enumerate(ds):
            ch = [mb.feature(f"r{i}c{j}") for j in range(d.n)]
            mb.relation(root, ch, d.min, d.max)
            names.append([c._f["name"] for c in ch])
        fm = mb.model(root, [mb.constraint("k", mb.node(mb.op("REQUIRES"), mb.node("r0c0"), mb.node("P")))])
        state = {"top": True, "calls": []}
        it = new_interp(state)
        try:
            got = it.call(top, [fm])
        except AbsRaise as exc:
            got = ("raise", exc.what)
        if "ctcs" in fm._reads or any(q.endswith("get_constraints") for q in it.called):
            reads_ctcs = True
        exp = reference(list(ds), names)
        key = "+".join(sorted({kind(d) for d in ds})) if len(ds) > 1 else kind(ds[0])
        if len(ds) > 1:
            key = "combine"
        same = isinstance(got, (Poly, int)) and not isinstance(got, bool) and Poly.of(got) == exp
        if same:
            okc[key] = okc.get(key, 0) + 1
        else:
            bad.setdefault(key, []).append(
                f"relations {[str(d) for d in ds]}: computes {got!r}, exact count is {exp!r}")
    ctx.analysed["C13:contexts"] = len(contexts)
    for key in ["mandatory", "optional", "alternative", "or", "mutex", "cardinal", "other1", "combine"]:
        if key not in bad and key not in okc:
            continue
        rname = "C13-FORMS" if key != "combine" else "C13-COMBINE"
        ctx.check(key not in bad, rname, f"form:{key}", loc(rec.unit.path, rec.node),
                  f"inductive step holds for '{key}' contexts ({okc.get(key, 0)} contexts): result is "
                  f"the exact polynomial", bad=f"count is not exact for {key}: "
                  f"{bad.get(key, [''])[0]}", counterexamples=bad.get(key, [])[:6])
    ctx.check(not reads_ctcs, "C13-NOCTC", "ctcs-not-consulted", loc(top.unit.path, top.node),
              "the estimate never reads the cross-tree constraints (tree count = upper bound)",
              bad="the estimate consults the cross-tree constraints: the upper-bound argument no "
                  "longer applies")
    # numeric cross-check on small abstract models, with and without constraints (all 2^n selections)
    from ..exports import all_selections, model_names, model_valid
    from ..model import rich_model
    n_, o_ = mb.node, mb.op

    def small(ctcs: list[Any]) -> AObj:
        r = mb.feature("R")
        a, b, c = mb.feature("A"), mb.feature("B"), mb.feature("C")
        mb.relation(r, [a], 1, 1)
        mb.relation(r, [b], 0, 1)
        mb.relation(r, [c, mb.feature("D"), mb.feature("E")], 1, 2)
        mb.relation(a, [mb.feature("A1"), mb.feature("A2")], 0, 1)
        return mb.model(r, [mb.constraint(f"k{i}", t) for i, t in enumerate(ctcs)])
    cases = {"no-constraints": [], "requires": [n_(o_("REQUIRES"), n_("B"), n_("C"))],
             "excludes": [n_(o_("EXCLUDES"), n_("A1"), n_("D"))], "literal": [n_("B")],
             "tautology": [n_(o_("OR"), n_("B"), n_(o_("NOT"), n_("B")))],
             "several": [n_(o_("IMPLIES"), n_("C"), n_("A2")), n_(o_("NOT"), n_(o_("AND"), n_("D"), n_("E")))]}
    def decorated(ctcs: list[Any]) -> AObj:
        """Abstract flags, feature cardinalities and attributes in every position - on optional leaves, on optional features
        whose own children are all optional, on group members and on mandatory children: none of them changes the count."""
        F = mb.feature
        r = F("R", is_abstract=True)
        a, b, c, d = F("A", is_abstract=True), F("B", is_abstract=True), F("C"), F("D", is_abstract=True, card=(0, 3))
        mb.relation(r, [a], 0, 1)                          # abstract optional leaf
        mb.relation(r, [b], 0, 1)                          # abstract optional feature, nothing forced below it
        mb.relation(b, [F("B1", is_abstract=True)], 0, 1)
        mb.relation(b, [F("B2"), F("B3", is_abstract=True)], 0, 1)
        mb.relation(r, [c], 0, 1)                          # concrete optional feature over an abstract mandatory child
        mb.relation(c, [F("C1", is_abstract=True, card=(0, 2))], 1, 1)
        mb.relation(r, [d], 1, 1)                          # abstract mandatory [0..3] feature with an or-group of abstract members
        mb.relation(d, [F("D1", is_abstract=True), F("D2")], 1, 2)
        for f_ in (a, b, d):
            f_._f["attributes"].append(mb.attribute("cost", 1, f_))
        return mb.model(r, [mb.constraint(f"k{i}", t) for i, t in enumerate(ctcs)])
    work = [(cname, small(ctcs)) for cname, ctcs in cases.items()] + \
        [("decorated", decorated([])), ("decorated+requires", decorated([n_(o_("REQUIRES"), n_("A"), n_("B1"))]))]
    for cname, fm in work:
        it = Interp(pm)
        try:
            est = it.call(top, [fm])
        except AbsRaise as exc:
            est = ("raise", exc.what)
        names = model_names(fm)
        exact = sum(1 for s_ in all_selections(names) if model_valid(fm, s_))
        tree_exact = sum(1 for s_ in all_selections(names) if model_valid(fm, s_, with_ctcs=False))
        good = isinstance(est, int) and not isinstance(est, bool) and est >= exact and est == tree_exact
        ctx.check(good, "C13-UPPER", f"model:{cname}", loc(top.unit.path, top.node),
                  f"estimate {est} = tree count {tree_exact} >= exact count {exact} with constraints '{cname}'",
                  bad=f"estimate {est!r} for a model with constraints '{cname}': the tree has {tree_exact} "
                      f"configurations, {exact} of them satisfy the constraints (estimate must equal the former and "
                      f"not be below the latter)")
    from ..codec import export_models
    for key_, fm, what_ in export_models(mb, ("IMPLIES", "OR", "EXCLUDES")):
        try:
            est = Interp(pm, max_depth=80).call(top, [fm])
        except AbsRaise as exc:
            est = ("raise", exc.what)
        names = model_names(fm)
        exact = sum(1 for s_ in all_selections(names) if model_valid(fm, s_))
        tree_exact = sum(1 for s_ in all_selections(names) if model_valid(fm, s_, with_ctcs=False))
        good = isinstance(est, int) and not isinstance(est, bool) and est >= exact and est == tree_exact
        ctx.check(good, "C13-UPPER", f"model:large-{key_}", loc(top.unit.path, top.node),
                  f"estimate {est} = tree count {tree_exact} >= exact count {exact} ({what_})",
                  bad=f"estimate {est!r} for a larger model ({what_}): the tree has {tree_exact} configurations, {exact} of "
                      f"them satisfy the constraints")
    # operation wrapper: execute() stores exactly the count of the model it was given
    ex = pm.method(opc, "execute")
    gr = pm.method(opc, "get_result")
    init = pm.method(opc, "__init__")
    if ex is None or gr is None or init is None:
        raise AnalysisError(rule, "anchor vanished: FMEstimatedConfigurationsNumber.execute/get_result")
    it = Interp(pm)
    it.native[top.qual] = it.signature_stub(top, lambda fm_, *r: ("COUNT", fm_))
    op = AObj("FMEstimatedConfigurationsNumber")
    fm1 = mb.model(mb.feature("R1"))
    try:
        it.call(init, [op])
        it.call(ex, [op, fm1])
        r = it.call(gr, [op])
    except AbsRaise as exc:
        r = ("raise", exc.what)
    ctx.check(isinstance(r, tuple) and r[0] == "COUNT" and r[1] is fm1, "C13-WRAP", "execute",
              loc(ex.unit.path, ex.node), "execute(model).get_result() is the count of that model",
              bad=f"execute/get_result do not return count_configurations(model): {r!r}")
    from .c19 import op_sequences
    op_sequences(pm, ctx, ModelBuilder(pm), [pm.cls(n_) for n_ in ('FMEstimatedConfigurationsNumber',) if pm.has_cls(n_)], "C13")
    ctx.floor(rule, "contexts", len(contexts), 40)


def mb_type(pm: ProgramModel, name: str) -> Any:
    from ..absint import EnumVal
    mem = pm.enum_members(pm.cls("FeatureType"))
    return EnumVal("FeatureType", name, mem.get(name, name))


def _reduce(it: Interp) -> Any:
    def red(f: Any, xs: Any, *init: Any) -> Any:
        xs = list(xs)
        acc = init[0] if init else xs.pop(0)
        for x in xs:
            acc = it._apply2(f, acc, x)
        return acc
    return red
