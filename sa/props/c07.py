"""C07 — FeatureIDE round trip (DESIGN §5 C07)."""
from __future__ import annotations

from typing import Any

from ..absint import AObj
from ..card import D, kind
from ..codec import Codec, operator_trees, NAME_CLASSES, ctc_model, name_model
from ..core import AnalysisError, Ctx, loc
from ..logic import BINARY_LOGICAL
from ..model import ModelBuilder
from ..pm import ProgramModel
from ..xmlstubs import install_xml

W, R = "FeatureIDEWriter", "FeatureIDEReader"


def fide_model(mb: ModelBuilder, ds_root: list[D], group: Any = None, abstract: bool = False) -> AObj:
    root = mb.feature("Root", is_abstract=abstract)
    first = None
    for i, d in enumerate(ds_root):
        f = mb.feature(f"s{i}", is_abstract=(i % 2 == 1) and abstract)
        first = first or f
        mb.relation(root, [f], d.min, d.max)
    if group is not None and first is not None:
        mb.relation(first, [mb.feature(f"g{j}") for j in range(group.n)], group.min, group.max)
    return mb.model(root, [])


def fide_rich(mb: ModelBuilder) -> AObj:
    F = mb.feature
    root = F("Root", is_abstract=True)
    a, b, c = F("A"), F("B", is_abstract=True), F("C")
    mb.relation(root, [a], 1, 1)
    mb.relation(root, [b], 0, 1)
    mb.relation(root, [c], 1, 1)
    mb.relation(a, [F("x"), F("y"), F("z")], 1, 3)
    mb.relation(b, [F("u"), F("v")], 1, 1)
    mb.relation(c, [F("p")], 0, 1)
    mb.relation(c, [F("q")], 1, 1)
    n, o = mb.node, mb.op
    ctcs = [mb.constraint("1", n(o("IMPLIES"), n("x"), n("u"))),
            mb.constraint("2", n(o("OR"), n(o("NOT"), n("p")), n(o("AND"), n("y"), n("v")))),
            mb.constraint("3", n(o("REQUIRES"), n("q"), n("z")))]
    return mb.model(root, ctcs)


def check(pm: ProgramModel, ctx: Ctx) -> None:
    ctx.explanation = (
        "CODEC closure for FeatureIDE XML by composing FeatureIDEWriter.transform and "
        "FeatureIDEReader.transform, both evaluated from source over XML element stand-ins (the "
        "standard library serialises and parses the evaluated element tree): per class of every "
        "dimension of the fragment (parents with only mandatory/optional children; a single or- / "
        "alternative group; abstract flags; name shapes; each constraint operator at every "
        "position, a single-literal constraint, models without constraints) the model read back "
        "must equal the one written (constraints up to logical equivalence, decided by truth "
        "table); cycles are fixpoints; returned = written; reader output well-formed.")
    ctx.not_decided = ["documents not produced by the writer (C09)",
                       "three-way and higher interactions between dimensions (every two-way combination is in the pairwise family)"]
    mb = ModelBuilder(pm)
    cd = Codec(pm, ctx, W, R, "C07", diff_opts={"ctc_compare": "semantic", "ctc_names": False},
               wsetup=install_xml, rsetup=install_xml)
    tree = ("relation", "parent", "name")
    for ds, key in (([D(1, 1, 1)], "mandatory"), ([D(0, 1, 1)], "optional"),
                    ([D(1, 1, 1), D(0, 1, 1), D(0, 1, 1), D(1, 1, 1)], "mandatory+optional")):
        cd.report("KIND", f"singles:{key}", cd.roundtrip(fide_model(mb, ds)), f"single children ({key})", tree)
    for g in (D(1, 1, 2), D(1, 1, 3), D(1, 2, 2), D(1, 3, 3), D(1, 4, 4)):
        for host in ([D(1, 1, 1)], [D(0, 1, 1)]):
            rt = cd.roundtrip(fide_model(mb, host, group=g))
            cd.report("KIND", f"group:{kind(g)}:{g}:under-{kind(host[0])}", rt,
                      f"feature that is a single {kind(g)} group {g}", tree)
    # root itself a group
    for g in (D(1, 1, 2), D(1, 3, 3)):
        root = mb.feature("Root")
        mb.relation(root, [mb.feature(f"g{j}") for j in range(g.n)], g.min, g.max)
        cd.report("KIND", f"root-group:{kind(g)}", cd.roundtrip(mb.model(root, [])), f"root is a {kind(g)} group", tree)
    for flag in (True, False):
        cd.report("FIELDS", f"abstract={flag}", cd.roundtrip(fide_model(mb, [D(1, 1, 1), D(0, 1, 1)], abstract=flag)),
                  f"abstract flags ({flag})", ("abstract",))
    cd.abstract_positions(mb)
    # (the empty name is XML-representable: an attribute name="" and an element <var/> without text)
    for cls_, name in list(NAME_CLASSES.items()) + [("empty", "")]:
        cd.report("ENC", f"name:{cls_}", cd.roundtrip(name_model(mb, name)), f"feature named {name!r} ({cls_})",
                  ("name", "root", "parent", "relation", "constraint"))
    cd.report("ENC", "name:root-space", cd.roundtrip(name_model(mb, "two words", in_ctc=False, as_root=True)),
              "root named 'two words'", ("name", "root", "parent", "relation"))
    n, o = mb.node, mb.op
    fragment_ops = [op for op in BINARY_LOGICAL if op != "XOR"]
    for op in BINARY_LOGICAL:
        roots = operator_trees(mb, op)
        cd.report("VOC", f"operator:{op}", cd.roundtrip(ctc_model(mb, roots)), f"constraints over {op}",
                  ("constraint", "constraint-count"), fragment=(op in fragment_ops))
    cd.report("VOC", "operator:NOT", cd.roundtrip(ctc_model(mb, [("neg", n(o("NOT"), n(o("NOT"), n("A"))))])),
              "negation constraints", ("constraint", "constraint-count"))
    cd.report("RECORD", "single-literal", cd.roundtrip(ctc_model(mb, [("lit", n("B"))])),
              "a constraint that is a single literal", ("constraint", "constraint-count"))
    cd.report("RECORD", "no-constraints", cd.roundtrip(ctc_model(mb, [])), "a model without constraints",
              ("constraint", "constraint-count"))
    m1 = cd.cycle_and_return(fide_rich(mb), text_kind=bytes)
    if m1 is not None:
        cd.report("COMBINED", "rich-model", cd.last_rt, "model realising all dimensions at once",
                  ("type", "fcard", "attribute"), fragment=False)
    if ctx.tier == "thorough":
        cd.thorough_pairs(mb, [op for op in BINARY_LOGICAL if op != "XOR"], "VOC")
    from ..codec import stress_trees
    cd.report("VOC", "stress-shapes", cd.roundtrip(ctc_model(mb, stress_trees(mb))),
              "constraint shapes that stress normal forms", ("constraint", "constraint-count"))
    cd.large(mb, fragment_ops, mixed=False, cardinal=False)
    cd.polarity(mb, fragment_ops, "VOC")
    cd.writer_reuse(mb)
    cd.reader_reuse(mb)
    from ..interact import Fragment, sweep
    fr = Fragment(names=dict(NAME_CLASSES), ops=tuple(fragment_ops), cardinal=False, mutex=False)
    ctx.analysed.update({f"C07:pairwise-{k_}": v for k_, v in sweep(
        cd, mb, fr, ("name", "root", "parent", "relation", "constraint", "constraint-count", "abstract")).items()})
    cd.finish_unowned()
    ctx.analysed["C07:compositions"] = cd.n
    ctx.floor("C07", "obligations", len(ctx.obligations), 35)
