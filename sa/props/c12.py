"""C12 — serialisation is pure, deterministic and returns what it wrote (DESIGN §5 C12)."""
from __future__ import annotations

from typing import Any, Optional

from ..absint import AObj, AbsRaise, Interp
from ..antlrstubs import Console, install_antlr
from ..codec import same_content, PATH, new_interp, run_reader
from ..core import AnalysisError, Ctx, is_library_error, loc
from ..iostubs import VFS
from ..model import ModelBuilder, freeze_model, rich_model, snapshot
from ..pm import ClassInfo, ProgramModel
from ..xmlstubs import install_xml
from . import c06, c07, c08

NONDET = ["time.time", "time.time_ns", "time.monotonic", "time.perf_counter", "datetime.datetime.now",
          "datetime.datetime.today", "datetime.date.today", "random.random", "random.choice", "random.randint",
          "random.shuffle", "random.sample", "random.uniform", "os.getenv", "os.environ.get", "os.getpid",
          "os.urandom", "uuid.uuid4", "uuid.uuid1", "locale.getpreferredencoding", "locale.getlocale",
          "locale.getdefaultlocale", "sys.getdefaultencoding", "sys.getfilesystemencoding", "platform.system",
          "getpass.getuser", "socket.gethostname", "tempfile.mktemp"]


def writers(pm: ProgramModel) -> list[ClassInfo]:
    out = []
    for c in pm.classes.values():
        if c.unit.env or ".transformations." not in c.unit.mod + ".":
            continue
        if "ModelToText" in pm.base_names(c) and pm.method(c, "transform") is not None:
            out.append(c)
    return sorted(out, key=lambda c: c.name)


def model_for(mb: ModelBuilder, writer: str) -> AObj:
    if writer == "AFMWriter":
        return c06.afm_rich(mb)
    if writer == "FeatureIDEWriter":
        m = c07.fide_rich(mb)
        for f in _all_feats(m):
            if f._f["name"] == "q":
                f._f["name"] = "Größe"
        for c in m._f["ctcs"]:
            _rename(c._f["_ast"]._f["root"], {"q": "Größe"})
        return m
    if writer == "GlencoeWriter":
        m = c08.glencoe_rich(mb)
        for f in _all_feats(m):
            if f._f["name"] == "q":
                f._f["name"] = "Größe"
        for c in m._f["ctcs"]:
            _rename(c._f["_ast"]._f["root"], {"q": "Größe"})
        return m
    m = rich_model(mb)
    if writer in ("JSONWriter", "SPLOTWriter", "PLWriter", "ClaferWriter"):
        m._f["ctcs"] = [c for c in m._f["ctcs"] if c._f["name"] != "arith"]
    return _non_ascii(m)


def corner_model(mb: ModelBuilder, writer: str) -> Any:
    names = {"JSONWriter": ["tab\there", "cr\rhere", "line\nbreak"], "GlencoeWriter": ["tab\there", "cr\rhere", "line\nbreak"],
             "FeatureIDEWriter": ["tab\there", "cr\rhere", "line\nbreak"], "UVLWriter": ["tab\there"]}.get(writer, [])
    with_attrs = writer in ("UVLWriter", "JSONWriter", "ClaferWriter")
    if not names and not with_attrs:
        return None
    root = mb.feature("Root")
    plain = mb.feature("Plain")
    mb.relation(root, [plain], 0, 1)
    ctcs = []
    for i, nm in enumerate(names):
        f = mb.feature(nm)
        mb.relation(root, [f], 0, 1)
        ctcs.append(mb.constraint(f"c{i}", mb.node(mb.op("IMPLIES"), mb.node(nm), mb.node("Plain"))))
    if with_attrs:
        for an, av in (("flag", None), ("size", 6.0), ("code", "10"), ("on", True),
                       # containers inside values are the model's own objects too: nested maps whose keys would need quoting
                       # as names, lists of maps, a list inside a map
                       ("limits", {"max speed": 3, "plain": {"inner key": [1, {"deep one": "x"}]}}),
                       ("series", [1, [2, 3], {"k v": 2}])):
            if writer == "ClaferWriter" and isinstance(av, (dict, list)):
                continue                                   # (Clafer attributes are bool / int / float / str)
            plain._f["attributes"].append(mb.attribute(an, av, plain))
    if with_attrs:
        # one attribute name on several features with values of different kinds
        for i_, av_ in enumerate((3, "high", True, 2.5)):
            o_ = mb.feature(f"Kind{i_}")
            mb.relation(root, [o_], 0, 1)
            o_._f["attributes"].append(mb.attribute("level", av_, o_))
    return mb.model(root, ctcs)


def _non_ascii(m: AObj) -> AObj:
    """Rename two features (and their occurrences in constraints) to non-ASCII names: the value returned,
    the bytes written and the bytes read back must agree on them."""
    from ..roundtrip import features as all_features
    ren = {"solo": "Größe", "v": "Menú"}
    for f in all_features(m):
        if f._f["name"] in ren:
            f._f["name"] = ren[f._f["name"]]

    def walk(n: Any) -> None:
        if isinstance(n, AObj) and n._cls == "Node":
            if isinstance(n._f.get("data"), str) and n._f["data"] in ren:
                n._f["data"] = ren[n._f["data"]]
            walk(n._f.get("left"))
            walk(n._f.get("right"))
    for c in m._f["ctcs"]:
        walk(c._f["_ast"]._f["root"])
    return m


def _all_feats(m: AObj) -> list[AObj]:
    from ..roundtrip import features as all_features
    return all_features(m)


def _rename(n: Any, ren: dict[str, str]) -> None:
    if isinstance(n, AObj) and n._cls == "Node":
        if isinstance(n._f.get("data"), str) and n._f["data"] in ren:
            n._f["data"] = ren[n._f["data"]]
        _rename(n._f.get("left"), ren)
        _rename(n._f.get("right"), ren)


def setup(it: Interp, vfs: VFS) -> None:
    install_xml(it, vfs)
    install_antlr(it, vfs)
    for q in NONDET:
        def bad(*a: Any, _q: str = q, **k: Any) -> Any:
            raise AbsRaise(f"NONDETERMINISTIC-SOURCE {_q}")
        it.native[q] = bad
    it.native["builtins.id"] = None


def run(pm: ProgramModel, ci: ClassInfo, model: AObj, order: str) -> dict[str, Any]:
    from ..absint import AbsMutation
    vfs = VFS()
    it = new_interp(pm, vfs)
    setup(it, vfs)
    it.set_order = order
    out: dict[str, Any] = {"vfs": vfs, "raise": None, "mutation": None, "returned": None, "it": it}
    try:
        w = it.eval_call_class(ci, [PATH, model])
        out["returned"] = it.call(pm.method(ci, "transform"), [w])
    except AbsMutation as exc:
        out["mutation"] = (exc.what, exc.where)
    except AbsRaise as exc:
        out["raise"] = (exc.what, exc.where)
    out["written"] = vfs.files.get(PATH)
    return out


def check(pm: ProgramModel, ctx: Ctx) -> None:
    ctx.explanation = (
        "For every writer discovered by interface (package subclasses of ModelToText), transform() "
        "and everything it reaches - package helpers, model methods, the dependency's AST/CNF code "
        "read from source - is evaluated on an abstract model realising every relation kind, "
        "attribute and constraint class whose objects and containers are frozen: (PURE) any store "
        "into them is a finding and the model's structural snapshot must be unchanged; (RETURN) "
        "the value returned is the content written; (ENCODING) every text-mode open() and every "
        "ANTLR FileStream on the write and read-back paths names UTF-8 (defaults read from the "
        "dependency's source); (DETERMINISM) sets have no defined iteration order, so the "
        "evaluator imposes one and the whole transformation is decided under both extreme orders: "
        "differing output means the output depends on set iteration order, i.e. on "
        "PYTHONHASHSEED; calls of clock / random / environment / locale / default-encoding "
        "sources reachable from transform() are findings; repeated calls give identical output.")
    ctx.not_decided = ["process-state dependence through channels other than the listed sources (CPython "
                       "dict order, str()/repr of int/float, json defaults are taken as process-independent)"]
    ctx.assumptions = ["CPython semantics: dict insertion order, sorted(), str of int/float, json.dumps "
                       "defaults are process-independent"]
    mb = ModelBuilder(pm)
    ws = writers(pm)
    ctx.analysed["C12:writers"] = [c.name for c in ws]
    if len(ws) < 8:
        raise AnalysisError("C12", f"only {len(ws)} writers discovered (floor 8)")
    console = Console()
    with console:
        for ci in ws:
            where = loc(ci.unit.path, ci.node)
            m_asc, m_desc = model_for(mb, ci.name), model_for(mb, ci.name)
            before = snapshot(m_asc)
            freeze_model(m_asc)
            freeze_model(m_desc)
            a = run(pm, ci, m_asc, "asc")
            d = run(pm, ci, m_desc, "desc")
            if a["mutation"]:
                ctx.violation("C12-PURE", f"pure:{ci.name}", a["mutation"][1] or where,
                              f"{ci.name}.transform modifies the model it serialises: {a['mutation'][0]}")
                continue
            if a["raise"]:
                what = a["raise"][0]
                if what.startswith("NONDETERMINISTIC-SOURCE"):
                    ctx.violation("C12-NOSOURCES", f"source:{ci.name}", a["raise"][1] or where,
                                  f"{ci.name}.transform consults {what.split(' ', 1)[1]}: the output is not a "
                                  f"function of the model alone")
                elif is_library_error(pm, what):
                    # the writer declines the model with the library's own error (the abstract model may lie outside
                    # its format): nothing written, nothing returned - C12 has nothing to say; the export / round-trip
                    # properties decide which models a writer must accept
                    ctx.info("C12-TOTAL", f"declines:{ci.name}", a["raise"][1] or where,
                             f"{ci.name}.transform declines the abstract model: {what}")
                else:
                    ctx.violation("C12-TOTAL", f"raises:{ci.name}", a["raise"][1] or where,
                                  f"{ci.name}.transform raises on a well-formed model: {what}")
                continue
            ctx.ok("C12-PURE", f"pure:{ci.name}", where, "no store into the frozen model")
            ctx.check(snapshot(m_asc) == before, "C12-PURE", f"unchanged:{ci.name}", where,
                      "structural snapshot of the model unchanged",
                      bad=f"{ci.name}.transform leaves the model structurally changed")
            ctx.check(same_content(a["returned"], a["written"]), "C12-RETURN",
                      f"returned=written:{ci.name}", where, "value returned equals the content written",
                      bad=f"{ci.name}.transform returns {str(a['returned'])[:50]!r}... but writes "
                          f"{str(a['written'])[:50]!r}...")
            txt = [o for o in a["vfs"].opens if "w" in o["mode"] and "b" not in o["mode"]]
            binw = [o for o in a["vfs"].opens if "w" in o["mode"] and "b" in o["mode"]]
            ok_enc = all((o["encoding"] or "").lower().replace("-", "").replace("_", "") == "utf8" for o in txt)
            if binw:
                ok_enc = ok_enc and isinstance(a["written"], bytes) and _decodes_utf8(a["written"])
            ctx.check(ok_enc and (txt or binw), "C12-ENCODING", f"write:{ci.name}", where,
                      "the file is written as UTF-8",
                      bad=f"{ci.name} opens its output with encoding "
                          f"{[o['encoding'] for o in txt]} (locale/default-encoding dependent)")
            # determinism under set iteration order
            same = d["returned"] == a["returned"] and d["written"] == a["written"] and not d["raise"]
            nset = a["it"].set_iterations
            ctx.check(same, "C12-SETITER", f"order:{ci.name}", where,
                      f"output identical under both extreme set iteration orders ({nset} set iterations on "
                      f"the path)", bad=f"{ci.name}: the output depends on the iteration order of a Python "
                      f"set ({nset} set iterations on the path), hence on PYTHONHASHSEED: "
                      f"{_first_diff(a['written'], d['written'])}")
            # history: a different model with the same feature names, serialised after this one in the
            # same process, must come out as in a fresh process (no state keyed by names survives)
            from ..absint import reset_global_state
            from ..model import twin_model
            t1 = twin_model(model_for(mb, ci.name))
            after = run(pm, ci, t1, "asc")
            reset_global_state()
            fresh = run(pm, ci, twin_model(model_for(mb, ci.name)), "asc")
            ctx.check(after["returned"] == fresh["returned"] and after["raise"] == fresh["raise"], "C12-HISTORY",
                      f"history:{ci.name}", where,
                      "a second model serialised in the same process gives the output of a fresh process",
                      bad=f"{ci.name}: the output for a model depends on the model serialised before it in the "
                          f"same process (state kept across calls): {_first_diff(after['written'], fresh['written'])}")
            # repeated call on the same object graph
            a2 = run(pm, ci, m_asc, "asc")
            ctx.check(a2["returned"] == a["returned"], "C12-REPEAT", f"repeat:{ci.name}", where,
                      "a repeated call gives byte-identical output",
                      bad=f"{ci.name}: a second call on the same model gives different output")
            # corner model: names carrying a tab / carriage return / line break inside a constraint (where the format
            # can carry them) and attributes without value, with a None, integral-float and numeric-looking value
            # (where the format carries attributes): same obligations on it
            cm = corner_model(mb, ci.name)
            if cm is not None:
                cbefore = snapshot(cm)
                freeze_model(cm)
                c1 = run(pm, ci, cm, "asc")
                if c1["mutation"]:
                    ctx.violation("C12-PURE", f"pure:{ci.name}:corner-model", c1["mutation"][1] or where,
                                  f"{ci.name}.transform modifies the model it serialises: {c1['mutation'][0]}")
                elif c1["raise"]:
                    ctx.violation("C12-TOTAL", f"raises:{ci.name}:corner-model", c1["raise"][1] or where,
                                  f"{ci.name}.transform raises on a well-formed model (control characters in names, value-less "
                                  f"attributes): {c1['raise'][0]}")
                else:
                    c2 = run(pm, ci, cm, "asc")
                    c3 = run(pm, ci, cm, "desc")
                    ctx.check(c3["returned"] == c1["returned"], "C12-SETITER", f"order:{ci.name}:corner-model", where,
                              "on the corner model the output is the same under both extreme set iteration orders",
                              bad=f"{ci.name}: on the corner model (one attribute name with values of several kinds, control "
                                  f"characters in names) the output depends on the iteration order of a Python set, hence on "
                                  f"PYTHONHASHSEED: {_first_diff(c1['returned'], c3['returned'])}")
                    okc = snapshot(cm) == cbefore and same_content(c1["returned"], c1["written"]) \
                        and c2["returned"] == c1["returned"]
                    ctx.check(okc, "C12-RETURN", f"corner-model:{ci.name}", where,
                              "on the corner model too: model unchanged, returned = written, repeated call identical",
                              bad=f"{ci.name} on a model with control characters in names / value-less attributes: "
                                  f"model unchanged={snapshot(cm) == cbefore}, returned=written={same_content(c1['returned'], c1['written'])}, "
                                  f"repeat identical={c2['returned'] == c1['returned']} "
                                  f"({_first_diff(c1['returned'], c1['written']) if not same_content(c1['returned'], c1['written']) else _first_diff(c1['returned'], c2['returned'])})")
            # larger models (twelve siblings / members, twelve levels, thirteen constraints, long names): a fast path, a
            # threshold, an in-place sort of a long list or a cache with a bound only shows on these
            from ..codec import large_models
            for key_, lm, what_, _o in large_models(mb, ("AND", "OR", "IMPLIES"), negation=True):
                lbefore = snapshot(lm)
                freeze_model(lm)
                l1 = run(pm, ci, lm, "asc")
                if l1["mutation"]:
                    ctx.violation("C12-PURE", f"pure:{ci.name}:large-{key_}", l1["mutation"][1] or where,
                                  f"{ci.name}.transform modifies the model it serialises ({what_}): {l1['mutation'][0]}")
                    continue
                if l1["raise"]:
                    if is_library_error(pm, l1["raise"][0]):
                        ctx.info("C12-TOTAL", f"declines:{ci.name}:large-{key_}", l1["raise"][1] or where,
                                 f"{ci.name}.transform declines the model ({what_}): {l1['raise'][0]}")
                    else:
                        ctx.violation("C12-TOTAL", f"raises:{ci.name}:large-{key_}", l1["raise"][1] or where,
                                      f"{ci.name}.transform raises on a well-formed model ({what_}): {l1['raise'][0]}")
                    continue
                l2 = run(pm, ci, lm, "desc")
                okl = snapshot(lm) == lbefore and same_content(l1["returned"], l1["written"]) \
                    and l2["returned"] == l1["returned"] and not l2["raise"]
                ctx.check(okl, "C12-RETURN", f"large-{key_}:{ci.name}", where,
                          f"on a larger model too ({what_}): model unchanged, returned = written, repeated call under the "
                          f"other set order identical",
                          bad=f"{ci.name} on a larger model ({what_}): model unchanged={snapshot(lm) == lbefore}, "
                              f"returned=written={same_content(l1['returned'], l1['written'])}, repeat identical="
                              f"{l2['returned'] == l1['returned']} ({_first_diff(l1['returned'], l2['returned'])})")
        # read-back side: the streams the readers open
        readers_encoding(pm, ctx, mb)
    # one writer object used again: after the model was edited in place, pointed at another model, and after a call that
    # failed half-way (the returned value and the file are those of the model as it is at the time of the call)
    from ..codec import WriterOnly, writer_failed_then_reused, writer_reuse_check
    with console:
        for ci in ws:
            afm = ci.name == "AFMWriter"
            kw_ = {"op": "REQUIRES", "abstract": ci.name in ("UVLWriter", "JSONWriter", "FeatureIDEWriter")}
            wo = WriterOnly(pm, ctx, ci.name, "C12", wsetup=setup)
            writer_reuse_check(wo, mb, f"REUSE:{ci.name}", **kw_)
            writer_failed_then_reused(wo, mb, f"REUSE:{ci.name}", **kw_)

    ctx.floor("C12", "obligations", len(ctx.obligations), 40)


def _decodes_utf8(b: bytes) -> bool:
    try:
        b.decode("utf8")
        return b'encoding="UTF-8"' in b[:80].replace(b"'", b'"') or b"encoding=" not in b[:80]
    except UnicodeDecodeError:
        return False


def _first_diff(a: Any, b: Any) -> str:
    if not isinstance(a, (str, bytes)) or not isinstance(b, type(a)):
        return "outputs differ"
    la, lb = a.splitlines(), b.splitlines()
    for x, y in zip(la, lb):
        if x != y:
            return f"{str(x)[:70]!r} vs {str(y)[:70]!r}"
    return "different number of lines"


def readers_encoding(pm: ProgramModel, ctx: Ctx, mb: ModelBuilder) -> None:
    """Files are read back as UTF-8: every stream a text reader opens names UTF-8."""
    from ..codec import run_writer
    pairs = [("UVLWriter", "UVLReader", rich_model(mb)), ("AFMWriter", "AFMReader", c06.afm_rich(mb)),
             ("JSONWriter", "JSONReader", model_for(mb, "JSONWriter")),
             ("GlencoeWriter", "GlencoeReader", c08.glencoe_rich(mb))]
    for w, r, m in pairs:
        rc = pm.cls(r)
        where = loc(rc.unit.path, rc.node)
        wres = run_writer(pm, w, m, setup=setup)
        if wres["raise"]:
            continue
        before = len(wres["vfs"].opens)
        rres = run_reader(pm, r, wres["vfs"], setup=setup)
        opened = wres["vfs"].opens[before:]
        streams = [o for o in opened if o["mode"] in ("antlr-filestream",) or ("r" in o["mode"] and "b" not in o["mode"])]
        bad = [o for o in streams if (o["encoding"] or "").lower().replace("-", "").replace("_", "") != "utf8"]
        ctx.check(bool(streams) and not bad, "C12-ENCODING", f"read:{r}", where,
                  f"{r} decodes the file as UTF-8",
                  bad=f"{r} opens the file with encoding {[o['encoding'] for o in bad]} while the writer "
                      f"encodes UTF-8: non-ASCII content cannot be read back")
