"""C20 — equality and hashing of model elements obey the contract (DESIGN §5 C20)."""
from __future__ import annotations

import ast
from typing import Any, Optional

from ..absint import AObj, AbsRaise, EnumVal, Interp
from ..core import AnalysisError, Ctx, loc, src
from ..pm import ClassInfo, FuncInfo, ProgramModel
from ..model import ModelBuilder

CLASSES = ("Feature", "Relation", "Constraint", "FeatureModel")


def check(pm: ProgramModel, ctx: Ctx) -> None:
    ctx.explanation = (
        "Static decision of C20's contract on the source of __eq__/__hash__/__lt__: (EQSIG) field/"
        "normaliser signatures read from the method bodies: hash key fields are a subset of the "
        "equality fields with coarser-or-equal normalisers, every equality conjunct is symmetric, "
        "the fields the property names are compared, collections are compared order-free; "
        "(WITNESS) the bodies, read as formulas over abstract objects, are decided on witness "
        "pairs that realise each way two equal objects may differ in representation (distinct "
        "identity, every permutation class of children / relations / constraints, letter case of "
        "constraint text) and each single-point edit the property lists; sorting inside __eq__ is "
        "interpreted with the classes' own __lt__, so a sort key that is not invariant under "
        "equality is refuted.")
    ctx.not_decided = []
    for c in CLASSES:
        if not pm.has_cls(c):
            raise AnalysisError("C20", f"anchor class vanished: {c}")
    signatures(pm, ctx)
    witnesses(pm, ctx)
    ctx.floor("C20", "obligations", len(ctx.obligations), 30)


# ---- EQSIG --------------------------------------------------------------------------------------
NORM_RANK = {"identity": 0, "sorted": 1, "set": 2}      # coarser = higher
STR_RANK = {"identity": 0, "lower": 1}


def _norm_of(e: ast.expr, selfname: str) -> Optional[tuple[str, str, str]]:
    """e = N(self.<path>) -> (path, collection normaliser, string normaliser)."""
    coll, strn = "identity", "identity"
    cur = e
    while True:
        if isinstance(cur, ast.Call) and isinstance(cur.func, ast.Name) and len(cur.args) == 1 \
                and cur.func.id in ("sorted", "set", "frozenset", "str", "tuple", "list"):
            if cur.func.id == "sorted":
                coll = max(coll, "sorted", key=NORM_RANK.get)  # type: ignore[arg-type]
            elif cur.func.id in ("set", "frozenset"):
                coll = "set"
            cur = cur.args[0]
            continue
        if isinstance(cur, ast.Call) and isinstance(cur.func, ast.Attribute) \
                and cur.func.attr in ("lower", "casefold", "upper") and not cur.args:
            strn = "lower"
            cur = cur.func.value
            continue
        break
    # self.<attr>  |  self.<getter>()
    if isinstance(cur, ast.Call) and isinstance(cur.func, ast.Attribute) and not cur.args \
            and isinstance(cur.func.value, ast.Name) and cur.func.value.id == selfname:
        return (cur.func.attr + "()", coll, strn)
    if isinstance(cur, ast.Attribute) and isinstance(cur.value, ast.Name) and cur.value.id == selfname:
        return (cur.attr, coll, strn)
    return None


FIELD_ALIAS = {"get_features()": "features", "get_relations()": "relations",
               "get_constraints()": "constraints", "ctcs": "constraints", "_ast": "ast",
               "get_parent()": "parent"}


def _canon_field(p: str) -> str:
    return FIELD_ALIAS.get(p, p)


def eq_signature(fi: FuncInfo) -> Optional[dict[str, Any]]:
    body = [s for s in fi.node.body if not (isinstance(s, ast.Expr) and isinstance(s.value, ast.Constant))]
    if len(body) != 1 or not isinstance(body[0], ast.Return) or body[0].value is None:
        return None
    params = fi.params
    if len(params) != 2:
        return None
    me, other = params
    e = body[0].value
    conj = e.values if isinstance(e, ast.BoolOp) and isinstance(e.op, ast.And) else [e]
    sig: dict[str, Any] = {"guard": None, "fields": {}, "asym": []}
    for c in conj:
        if isinstance(c, ast.Call) and isinstance(c.func, ast.Name) and c.func.id == "isinstance" \
                and len(c.args) == 2 and isinstance(c.args[0], ast.Name) and c.args[0].id == other:
            sig["guard"] = src(c.args[1])
            continue
        if isinstance(c, ast.Compare) and len(c.ops) == 1 and isinstance(c.ops[0], ast.Eq):
            left = _norm_of(c.left, me)
            right = _norm_of(c.comparators[0], other)
            if left is None or right is None:
                l2 = _norm_of(c.left, other)
                r2 = _norm_of(c.comparators[0], me)
                if l2 is not None and r2 is not None:
                    left, right = r2, l2
            if left is None or right is None:
                return None
            if left != right:
                sig["asym"].append(src(c))
            sig["fields"][_canon_field(left[0])] = (left[1], left[2])
            continue
        return None
    return sig


def hash_signature(fi: FuncInfo) -> Optional[dict[str, tuple[str, str]]]:
    body = [s for s in fi.node.body if not (isinstance(s, ast.Expr) and isinstance(s.value, ast.Constant))]
    if len(body) != 1 or not isinstance(body[0], ast.Return) or body[0].value is None:
        return None
    e = body[0].value
    if not (isinstance(e, ast.Call) and isinstance(e.func, ast.Name) and e.func.id == "hash"
            and len(e.args) == 1):
        return None
    arg = e.args[0]
    elts = arg.elts if isinstance(arg, ast.Tuple) else [arg]
    out: dict[str, tuple[str, str]] = {}
    for x in elts:
        n = _norm_of(x, fi.params[0])
        if n is None:
            return None
        out[_canon_field(n[0])] = (n[1], n[2])
    return out


REQUIRED_EQ_FIELDS = {
    "Feature": {"name"},
    "Relation": {"parent", "children", "card_min", "card_max"},
    "Constraint": {"ast"},
    "FeatureModel": {"root", "features", "relations", "constraints"},
}
COLLECTION_FIELDS = {"children", "features", "relations", "constraints"}


def signatures(pm: ProgramModel, ctx: Ctx) -> None:
    for cname in CLASSES:
        ci = pm.cls(cname)
        eq = ci.methods.get("__eq__")
        hs = ci.methods.get("__hash__")
        if eq is None or hs is None:
            it0 = Interp(pm)
            it0.ensure_built(ci)
            de, dh = it0.class_lookup(ci, "__eq__"), it0.class_lookup(ci, "__hash__")
            if de is not None and dh is not None and not (dh[0] == "value" and dh[1] is None):
                # installed on the class when it is created (a class decorator, a base class): no signature to read
                ctx.unverified("C20-EQSIG", f"shape:{cname}", loc(ci.unit.path, ci.node),
                               "__eq__/__hash__ are not written in the class body; decided by the witness rules only")
                continue
            ctx.violation("C20-HASHEQ", f"defined:{cname}", loc(ci.unit.path, ci.node),
                          f"{cname} does not define both __eq__ and __hash__ (a class defining "
                          f"__eq__ alone is unhashable; neither: identity semantics)")
            continue
        es = eq_signature(eq)
        hsig = hash_signature(hs)
        if es is None or hsig is None or (REQUIRED_EQ_FIELDS[cname] - set(es["fields"])):
            # not (entirely) in the conjunctive `self.f == other.f` form - e.g. the comparison goes through a helper:
            # the signature reading gives no verdict; the witness rules (equal copies, single-point edits) decide
            ctx.unverified("C20-EQSIG", f"shape:{cname}", loc(eq.unit.path, eq.node),
                           "__eq__/__hash__ not in the conjunctive signature form; decided by the "
                           "witness rules only")
            continue
        ctx.check(es["guard"] == cname, "C20-SYMM", f"guard:{cname}", loc(eq.unit.path, eq.node),
                  f"{cname}.__eq__ is guarded by isinstance(other, {cname})",
                  bad=f"{cname}.__eq__ guard is {es['guard']!r}: comparing with another type is "
                      f"not symmetric / raises")
        ctx.check(not es["asym"], "C20-SYMM", f"conjuncts:{cname}", loc(eq.unit.path, eq.node),
                  "every conjunct applies the same normaliser to the same field on both sides",
                  bad=f"asymmetric conjunct(s): {es['asym']}")
        missing = REQUIRED_EQ_FIELDS[cname] - set(es["fields"])
        ctx.check(not missing, "C20-COVER", f"fields:{cname}", loc(eq.unit.path, eq.node),
                  f"{cname}.__eq__ compares {sorted(REQUIRED_EQ_FIELDS[cname])}",
                  bad=f"{cname}.__eq__ does not compare {sorted(missing)}")
        for f, (coll, strn) in es["fields"].items():
            if f in COLLECTION_FIELDS:
                ctx.check(NORM_RANK[coll] >= 1, "C20-ORDERFREE", f"{cname}.{f}",
                          loc(eq.unit.path, eq.node), f"{f} compared order-free ({coll})",
                          bad=f"{cname}.__eq__ compares {f} in stored order")
        extra = set(hsig) - set(es["fields"])
        ctx.check(not extra, "C20-HASHEQ", f"subset:{cname}", loc(hs.unit.path, hs.node),
                  f"hash key fields {sorted(hsig)} are equality fields",
                  bad=f"{cname}.__hash__ uses {sorted(extra)} which __eq__ ignores: equal objects "
                      f"may hash differently")
        for f, (coll, strn) in hsig.items():
            if f not in es["fields"]:
                continue
            ecoll, estrn = es["fields"][f]
            ok = NORM_RANK[coll] >= NORM_RANK[ecoll] and STR_RANK[strn] >= STR_RANK[estrn]
            ctx.check(ok, "C20-HASHEQ", f"normaliser:{cname}.{f}", loc(hs.unit.path, hs.node),
                      f"hash normaliser ({coll},{strn}) is coarser-or-equal to equality's "
                      f"({ecoll},{estrn})",
                      bad=f"{cname}.__hash__ normalises {f} by ({coll},{strn}) but __eq__ by "
                          f"({ecoll},{estrn}): equal objects may hash differently")


# ---- WITNESS --------------------------------------------------------------------------------------
def witnesses(pm: ProgramModel, ctx: Ctx) -> None:
    it = Interp(pm)
    mb = ModelBuilder(pm)

    def eq(a: AObj, b: AObj) -> Any:
        m = it.special(a, "__eq__")
        if m is None:
            return a is b
        try:
            return bool(it.truth(it.apply_value(m, [a, b], {}, ast.Constant(value=None), "", None)))
        except AbsRaise as exc:
            return ("raise", exc.what)

    def hk(a: AObj) -> Any:
        try:
            return it.hash_key(a)
        except AbsRaise as exc:
            return ("raise", exc.what, id(a))

    def must_equal(rule: str, key: str, a: AObj, b: AObj, what: str, where: str) -> None:
        r1, r2, r3, r4 = eq(a, b), eq(b, a), eq(a, a), eq(b, b)
        ctx.check(r1 is True and r2 is True and r3 is True and r4 is True, rule, f"equal:{key}",
                  where, f"{what}: equal, symmetric, reflexive",
                  bad=f"{what}: a==b is {r1}, b==a is {r2}, a==a is {r3}, b==b is {r4}")
        h1, h2 = hk(a), hk(b)
        ctx.check(h1 == h2 and not (isinstance(h1, tuple) and h1 and h1[0] == "raise"),
                  "C20-HASHEQ", f"hash:{key}", where, f"{what}: equal hash keys",
                  bad=f"{what}: equal objects with different hash keys ({str(h1)[:80]} vs "
                      f"{str(h2)[:80]})")

    def must_differ(key: str, a: AObj, b: AObj, what: str, where: str) -> None:
        r1, r2 = eq(a, b), eq(b, a)
        ctx.check(r1 is False and r2 is False, "C20-DISTINCT", f"differ:{key}", where,
                  f"{what}: unequal both ways", bad=f"{what}: a==b is {r1}, b==a is {r2}")

    # Feature -----------------------------------------------------------------------------------
    fw = _where(pm, "Feature")
    p1, p2 = mb.feature("P"), mb.feature("Q")
    a1 = mb.feature("A", parent=p1)
    a2 = mb.feature("A", parent=p2, is_abstract=True)
    mb.relation(a2, [mb.feature("x")], 1, 1)
    must_equal("C20-WITNESS", "Feature:same-name", a1, a2, "features with the same name", fw)
    must_differ("Feature:name", a1, mb.feature("B"), "features with different names", fw)
    must_differ("Feature:case", a1, mb.feature("a"), "features whose names differ in letter case", fw)
    r = eq(a1, "A")
    ctx.check(r is False, "C20-SYMM", "other-type:Feature", fw, "Feature == str is False",
              bad=f"Feature == 'A' gives {r}")
    # Relation ------------------------------------------------------------------------------------
    rw = _where(pm, "Relation")

    def rel(pname: str, names: list[str], lo: int, hi: int) -> AObj:
        p = mb.feature(pname)
        return mb.relation(p, [mb.feature(n) for n in names], lo, hi)
    for perm_key, perm in {"rot": ["b", "c", "a"], "rev": ["c", "b", "a"], "swap": ["b", "a", "c"]}.items():
        must_equal("C20-WITNESS", f"Relation:perm-{perm_key}", rel("P", ["a", "b", "c"], 1, 2),
                   rel("P", perm, 1, 2), f"relations with permuted children ({perm_key})", rw)
    base = rel("P", ["a", "b", "c"], 1, 2)
    must_differ("Relation:parent", base, rel("Q", ["a", "b", "c"], 1, 2), "relations of different owners", rw)
    must_differ("Relation:member", base, rel("P", ["a", "b", "d"], 1, 2), "relations with one member replaced", rw)
    must_differ("Relation:fewer", base, rel("P", ["a", "b"], 1, 2), "relations with one member removed", rw)
    must_differ("Relation:card_min", base, rel("P", ["a", "b", "c"], 0, 2), "relations differing in card_min", rw)
    must_differ("Relation:card_max", base, rel("P", ["a", "b", "c"], 1, 3), "relations differing in card_max", rw)
    must_differ("Relation:card_max-star", rel("P", ["a", "b", "c"], 1, -1), rel("P", ["a", "b", "c"], 1, 3),
                "relations [1..*] and [1..3] over three children", rw)
    must_differ("Relation:card_max-above-n", rel("P", ["a", "b", "c"], 1, 3), rel("P", ["a", "b", "c"], 1, 4),
                "relations differing in card_max beyond the number of children", rw)
    # twelve members: whatever looks at a prefix, a fixed number of members or a digest of a few of them is right for
    # every small group
    big = [f"n{i:02d}" for i in range(12)]
    for perm_key, perm in {"rev": big[::-1], "rot": big[5:] + big[:5], "swap-last-two": big[:10] + [big[11], big[10]],
                           "swap-ends": [big[11]] + big[1:11] + [big[0]]}.items():
        must_equal("C20-WITNESS", f"Relation:12-members:perm-{perm_key}", rel("P", big, 4, 7), rel("P", perm, 4, 7),
                   f"relations with twelve permuted children ({perm_key})", rw)
    must_differ("Relation:12-members:last-replaced", rel("P", big, 4, 7), rel("P", big[:11] + ["other"], 4, 7),
                "twelve-member relations whose last member differs", rw)
    must_differ("Relation:12-members:tenth-replaced", rel("P", big, 4, 7), rel("P", big[:9] + ["other"] + big[10:], 4, 7),
                "twelve-member relations whose tenth member differs", rw)
    must_differ("Relation:12-members:last-removed", rel("P", big, 4, 7), rel("P", big[:11], 4, 7),
                "a twelve-member relation and the same without its last member", rw)
    must_differ("Relation:two-digit-bounds", rel("P", big, 1, 11), rel("P", big, 1, 12),
                "twelve-member relations [1..11] and [1..12]", rw)
    must_differ("Relation:two-digit-bounds-min", rel("P", big, 10, 12), rel("P", big, 11, 12),
                "twelve-member relations [10..12] and [11..12]", rw)
    # sort key invariance: two equal relations are not strictly ordered either way
    lt = pm.method(pm.cls("Relation"), "__lt__")
    if lt is not None:
        for perm_key, perm in {"rot": ["b", "c", "a"], "swap": ["b", "a", "c"]}.items():
            x, y = rel("P", ["a", "b", "c"], 1, 2), rel("P", perm, 1, 2)
            try:
                l1, l2 = bool(it.call(lt, [x, y])), bool(it.call(lt, [y, x]))
            except AbsRaise as exc:
                l1 = l2 = ("raise", exc.what)  # type: ignore[assignment]
            ctx.check(l1 is False and l2 is False, "C20-SORTKEY", f"Relation:{perm_key}",
                      loc(lt.unit.path, lt.node),
                      "equal relations are not strictly ordered (sort key invariant under ==)",
                      bad=f"Relation.__lt__ orders two equal relations (a<b {l1}, b<a {l2}): its "
                          f"key depends on the stored order of children")
    # relations with ONE member and bounds other than [1..1] / [0..1] (UVL writes `[1..*]` over a single feature): the bounds
    # count there too
    rw_ = _where(pm, "Relation")
    for (lo1, hi1), (lo2, hi2) in (((1, -1), (0, -1)), ((1, 1), (1, -1)), ((0, 1), (0, -1)), ((0, 0), (1, 1)), ((1, 3), (1, 2))):
        pa_, pb_ = mb.feature("P"), mb.feature("P")
        ra_ = mb.relation(pa_, [mb.feature("only")], lo1, hi1)
        rb_ = mb.relation(pb_, [mb.feature("only")], lo2, hi2)
        must_differ(f"Relation:single-member:[{lo1}..{hi1}]/[{lo2}..{hi2}]", ra_, rb_,
                    f"one-member relations [{lo1}..{hi1}] and [{lo2}..{hi2}]", rw_)
        must_differ(f"FeatureModel:single-member:[{lo1}..{hi1}]/[{lo2}..{hi2}]", mb.model(pa_, []), mb.model(pb_, []),
                    f"models whose one-member relation is [{lo1}..{hi1}] / [{lo2}..{hi2}]", rw_)
    # Constraint ----------------------------------------------------------------------------------
    cw = _where(pm, "Constraint")
    op = mb.op
    c1 = mb.constraint("c1", mb.node(op("IMPLIES"), mb.node("A"), mb.node("B")))
    c2 = mb.constraint("other", mb.node(op("IMPLIES"), mb.node("A"), mb.node("B")))
    must_equal("C20-WITNESS", "Constraint:same-ast", c1, c2, "constraints with the same expression", cw)
    c3 = mb.constraint("c1", mb.node(op("IMPLIES"), mb.node("a"), mb.node("b")))
    must_equal("C20-WITNESS", "Constraint:case", c1, c3, "constraints differing only in letter case", cw)
    must_differ("Constraint:operator", c1, mb.constraint("c1", mb.node(op("EXCLUDES"), mb.node("A"), mb.node("B"))),
                "constraints with a different operator", cw)
    # "change one operator": every pair of distinct binary operators, over plain operands at the root of the constraint and
    # one level down (an equality that reads REQUIRES as IMPLIES, XOR as OR ... makes a changed operator go unnoticed)
    import itertools as _it2
    from ..logic import BINARY_LOGICAL as _BIN
    for o1_, o2_ in _it2.combinations(list(_BIN), 2):
        must_differ(f"Constraint:operator-pair:{o1_}/{o2_}",
                    mb.constraint("c", mb.node(op(o1_), mb.node("A"), mb.node("B"))),
                    mb.constraint("c", mb.node(op(o2_), mb.node("A"), mb.node("B"))),
                    f"constraints A {o1_} B and A {o2_} B", cw)
        must_differ(f"Constraint:operator-pair-nested:{o1_}/{o2_}",
                    mb.constraint("c", mb.node(op("AND"), mb.node(op(o1_), mb.node("A"), mb.node("B")), mb.node("C"))),
                    mb.constraint("c", mb.node(op("AND"), mb.node(op(o2_), mb.node("A"), mb.node("B")), mb.node("C"))),
                    f"constraints (A {o1_} B) & C and (A {o2_} B) & C", cw)
    must_differ("Constraint:operand", c1, mb.constraint("c1", mb.node(op("IMPLIES"), mb.node("A"), mb.node("C"))),
                "constraints with a different operand", cw)
    must_differ("Constraint:swap", c1, mb.constraint("c1", mb.node(op("IMPLIES"), mb.node("B"), mb.node("A"))),
                "constraints with swapped operands of =>", cw)
    must_differ("Constraint:shape", c1, mb.constraint("c1", mb.node(op("NOT"), mb.node("A"))),
                "constraints of different shape", cw)
    def sortkey(cname: str, key: str, x: AObj, y: AObj, why: str) -> None:
        ltm = pm.method(pm.cls(cname), "__lt__")
        if ltm is None or ltm.unit.env:
            return
        try:
            l1, l2 = bool(it.call(ltm, [x, y])), bool(it.call(ltm, [y, x]))
        except AbsRaise as exc:
            l1 = l2 = ("raise", exc.what)  # type: ignore[assignment]
        ctx.check(l1 is False and l2 is False, "C20-SORTKEY", f"{cname}:{key}",
                  loc(ltm.unit.path, ltm.node),
                  f"equal {cname}s are not strictly ordered (sort key invariant under ==)",
                  bad=f"{cname}.__lt__ orders two equal objects (a<b {l1}, b<a {l2}): {why}")
    sortkey("Constraint", "name", c1, c2, "its key depends on the constraint's name, which == ignores")
    sortkey("Constraint", "case", c1, c3, "its key depends on letter case, which == ignores")
    sortkey("Feature", "context", a1, a2, "its key depends on more than the name")
    # in-place edits after a first comparison / hash: equality must follow the current state ------------
    def edited_after_use(key: str, a: AObj, b: AObj, edit: Any, what: str, where: str) -> None:
        r0 = eq(a, b)
        hk(a), hk(b)
        edit(b)
        r1, r2 = eq(a, b), eq(b, a)
        fresh_same = hk(a) != hk(b)
        ctx.check(r0 is True and r1 is False and r2 is False, "C20-DISTINCT", f"edited-in-place:{key}", where,
                  f"{what}: equal before the edit, unequal after it",
                  bad=f"{what}: before the edit a==b is {r0}; after editing b in place a==b is {r1}, b==a is {r2} "
                      f"(a value computed before the edit is still used)")
    for wkey, (t1, t2) in {
            "sum-operand": (lambda: mb.node(op("GREATER"), mb.node(op("SUM"), mb.node("Price")), mb.node(10)),
                            lambda: mb.node(op("GREATER"), mb.node(op("SUM"), mb.node("Cost")), mb.node(10))),
            "avg-second-operand": (lambda: mb.node(op("LOWER"), mb.node(op("AVG"), mb.node("Price"), mb.node("Memory")), mb.node(5)),
                                   lambda: mb.node(op("LOWER"), mb.node(op("AVG"), mb.node("Price"), mb.node("Disk")), mb.node(5))),
            "len-operand": (lambda: mb.node(op("EQUALS"), mb.node(op("LEN"), mb.node("Label")), mb.node(3)),
                            lambda: mb.node(op("EQUALS"), mb.node(op("LEN"), mb.node("Vendor")), mb.node(3))),
            "arithmetic-operand": (lambda: mb.node(op("GREATER"), mb.node(op("ADD"), mb.node("A.x"), mb.node(1)), mb.node(2)),
                                   lambda: mb.node(op("GREATER"), mb.node(op("ADD"), mb.node("A.y"), mb.node(1)), mb.node(2))),
            "number-operand": (lambda: mb.node(op("GREATER"), mb.node("A.x"), mb.node(2)),
                               lambda: mb.node(op("GREATER"), mb.node("A.x"), mb.node(3)))}.items():
        must_differ(f"Constraint:{wkey}", mb.constraint("k", t1()), mb.constraint("k", t2()),
                    f"constraints differing in one operand ({wkey})", cw)
        must_equal("C20-WITNESS", f"Constraint:same:{wkey}", mb.constraint("k", t1()), mb.constraint("k2", t1()),
                   f"two constraints with the same expression ({wkey})", cw)
    k1 = mb.constraint("k", mb.node(op("IMPLIES"), mb.node("A"), mb.node("B")))
    k2 = mb.constraint("k", mb.node(op("IMPLIES"), mb.node("A"), mb.node("B")))
    edited_after_use("Constraint:operator", k1, k2,
                     lambda c: c._f["_ast"]._f["root"]._f.__setitem__("data", op("EXCLUDES")),
                     "constraint whose operator is changed in place", cw)
    k3 = mb.constraint("k", mb.node(op("IMPLIES"), mb.node("A"), mb.node("B")))
    k4 = mb.constraint("k", mb.node(op("IMPLIES"), mb.node("A"), mb.node("B")))
    edited_after_use("Constraint:operand", k3, k4,
                     lambda c: c._f["_ast"]._f["root"]._f["right"]._f.__setitem__("data", "C"),
                     "constraint whose operand is changed in place", cw)
    ra, rb = rel("P", ["a", "b"], 1, 2), rel("P", ["a", "b"], 1, 2)
    edited_after_use("Relation:card_max", ra, rb, lambda r: r._f.__setitem__("card_max", 1),
                     "relation whose card_max is changed in place", rw)
    rc, rd = rel("P", ["a", "b"], 1, 2), rel("P", ["a", "b"], 1, 2)
    edited_after_use("Relation:children", rc, rd, lambda r: r._f["children"].append(mb.feature("z")),
                     "relation that gets another child in place", rw)
    fa, fb = mb.feature("A"), mb.feature("A")
    edited_after_use("Feature:name", fa, fb, lambda f: f._f.__setitem__("name", "B"),
                     "feature renamed in place", fw)
    # FeatureModel ----------------------------------------------------------------------------------
    mw = _where(pm, "FeatureModel")

    def model(order: int, edit: Optional[str] = None) -> AObj:
        """root R with: mandatory M, optional O, group G=[x,y,z] (1..2) under M, alt [u,v] under R.
        `order` permutes children inside relations, relations inside features, constraints."""
        names = {"root": "R", "M": "M", "x": "x"}
        if edit == "rename":
            names["x"] = "x2"
        if edit == "root":
            names["root"] = "R2"
        R = mb.feature(names["root"])
        M, O = mb.feature(names["M"]), mb.feature("O")
        x, y, z = mb.feature(names["x"]), mb.feature("y"), mb.feature("z")
        u, v = mb.feature("u"), mb.feature("v")
        s1, s2, s3, s4 = (mb.feature(n) for n in ("a", "zz", "b", "c"))
        grp = [x, y, z]
        alt = [u, v]
        twin1, twin2 = [s1, s2], [s3, s4]      # two same-kind groups under one parent
        if order == 1:
            grp, alt, twin1 = [z, x, y], [v, u], [s2, s1]
        if order == 2:
            grp, alt, twin2 = [y, z, x], [u, v], [s4, s3]
        lo, hi = (1, 2)
        if edit == "card":
            hi = 3
        rels = [("m", M, 1, 1), ("o", O, 0 if edit != "regroup" else 1, 1)]
        rlist = []
        for _, f, a, b in rels:
            rlist.append((R, [f], a, b))
        if edit == "move":
            rlist.append((R, alt + [z], 1, 1))
            grp = [g for g in grp if g is not z]
        else:
            rlist.append((R, alt, 1, 1))
        if order in (1, 2):
            rlist = list(reversed(rlist))
        for (p, ch, a, b) in rlist:
            mb.relation(p, ch, a, b)
        mb.relation(M, grp, lo, hi)
        for tw in ([twin1, twin2] if order != 2 else [twin2, twin1]):
            mb.relation(O, tw, 1, 1)
        n1, n2 = ("k1", "k2") if order != 2 else ("k2", "k1")   # names are not part of equality
        k1 = mb.constraint(n1, mb.node(op("REQUIRES" if edit != "operator" else "EXCLUDES"),
                                       mb.node("x" if edit != "operand" else "y"), mb.node("u")))
        k2 = mb.constraint(n2, mb.node(op("OR"), mb.node(op("NOT"), mb.node("O")), mb.node("v")))
        ctcs = [k1, k2] if order == 0 else [k2, k1]
        if edit == "dropctc":
            ctcs = [k1]
        if edit in ("twice-first", "twice-second"):
            # a constraint stated twice (readers keep both): the two variants have the same distinct constraints
            # and the same number of constraints, and differ by a single-operand edit of one of them
            k3 = mb.constraint("k3", mb.node(op("REQUIRES"), mb.node("x"), mb.node("u"))) if edit == "twice-first" else \
                mb.constraint("k3", mb.node(op("OR"), mb.node(op("NOT"), mb.node("O")), mb.node("v")))
            ctcs = [k1, k3, k2] if order == 0 else [k2, k3, k1]
        return mb.model(R, ctcs)
    m0 = model(0)
    for o in (1, 2):
        must_equal("C20-WITNESS", f"FeatureModel:perm{o}", m0, model(o),
                   f"a model and its independently rebuilt, order-permuted copy (#{o})", mw)
    mm1, mm2 = model(0), model(1)
    edited_after_use("FeatureModel:constraint-operator", mm1, mm2,
                     lambda m: m._f["ctcs"][0]._f["_ast"]._f["root"]._f.__setitem__("data", op("EXCLUDES")),
                     "model one of whose constraints is changed in place", mw)
    must_equal("C20-WITNESS", "FeatureModel:repeated-constraint/perm", model(0, "twice-first"), model(1, "twice-first"),
               "a model with a constraint stated twice and its order-permuted copy", mw)
    must_differ("FeatureModel:which-constraint-is-repeated", model(0, "twice-first"), model(0, "twice-second"),
                "models with the same distinct constraints, a different one of them stated twice", mw)
    must_differ("FeatureModel:repeated-vs-once", model(0, "twice-first"), m0,
                "a model with a constraint stated twice vs once", mw)
    # a larger model: twelve single children, a twelve-member group, twelve constraints - permuted copy equal, an edit
    # of the last member / last constraint / a feature five levels down unequal
    def wide(order: int, edit: Optional[str] = None) -> AObj:
        R = mb.feature("R")
        hosts = [mb.feature(f"h{i:02d}") for i in range(12)]
        members = [mb.feature(f"g{i:02d}" if not (edit == "member" and i == 11) else "gXX") for i in range(12)]
        rl = [(R, [h], (i + 1) % 2, 1) for i, h in enumerate(hosts)]
        grp = members if order == 0 else members[7:] + members[:7]
        if order:
            rl = rl[::-1]
        for (p_, ch, a, b) in rl:
            mb.relation(p_, ch, a, b)
        mb.relation(hosts[0], grp, 4, 7)
        cur = hosts[1]
        for i in range(5):
            nxt = mb.feature(f"d{i}" if not (edit == "deep" and i == 4) else "dX")
            mb.relation(cur, [nxt], i % 2, 1)
            cur = nxt
        cs = [mb.constraint(f"k{i:02d}", mb.node(op("IMPLIES" if not (edit == "ctc" and i == 11) else "EXCLUDES"),
                                                 mb.node("h00"), mb.node(f"h{i:02d}"))) for i in range(1, 12)]
        if edit == "dropctc":
            cs = cs[:-1]
        return mb.model(R, cs if order == 0 else cs[4:] + cs[:4])
    must_equal("C20-WITNESS", "FeatureModel:wide/perm", wide(0), wide(1),
               "a model with twelve siblings, a twelve-member group and eleven constraints, and its order-permuted copy", mw)
    for edit in ("member", "deep", "ctc", "dropctc"):
        must_differ(f"FeatureModel:wide:{edit}", wide(1), wide(0, edit),
                    f"the larger model, permuted, vs edit '{edit}' (last group member renamed / feature five levels down "
                    f"renamed / operator of the last constraint / last constraint dropped)", mw)
    for edit in ("rename", "root", "card", "regroup", "move", "operator", "operand", "dropctc"):
        must_differ(f"FeatureModel:{edit}", m0, model(0, edit), f"models differing by edit '{edit}'", mw)
        must_differ(f"FeatureModel:{edit}/perm", model(1), model(0, edit),
                    f"permuted model vs edit '{edit}'", mw)
    # two models built one after the other through the constructor with its DEFAULT arguments (no list of constraints
    # given), a constraint then appended to the second one's own list: they differ in a constraint, and the first has none
    fmc = pm.cls("FeatureModel")

    def bare() -> AObj:
        r_ = mb.feature("R")
        mb.relation(r_, [mb.feature("A")], 0, 1)
        mb.relation(r_, [mb.feature("B")], 0, 1)
        return it.eval_call_class(fmc, [r_])
    try:
        d1, d2 = bare(), bare()
        lst = it.getattr(d2, "ctcs", ast.Constant(value=None), None)
        lst.append(mb.constraint("late", mb.node(mb.op("IMPLIES"), mb.node("A"), mb.node("B"))))
        first = it.getattr(d1, "ctcs", ast.Constant(value=None), None)
        ctx.check(len(first) == 0, "C20-DISTINCT", "differ:FeatureModel:default-arguments:own-list", mw,
                  "a model built with default arguments has a list of constraints of its own",
                  bad="a constraint appended to one model built with default arguments shows up in another model built "
                      "the same way: the two share one list")
        must_differ("FeatureModel:default-arguments:constraint-appended", d1, d2,
                    "a model built with default arguments vs a second one to which a constraint was appended", mw)
    except (AbsRaise, AttributeError) as exc:
        ctx.info("C20-DISTINCT", "differ:FeatureModel:default-arguments", mw,
                 f"models cannot be built with default arguments / have no list of constraints to append to: {exc}")


def _where(pm: ProgramModel, cname: str) -> str:
    ci = pm.cls(cname)
    m = ci.methods.get("__eq__")
    return loc(ci.unit.path, m.node if m else ci.node)
