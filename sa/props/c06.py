"""C06 — AFM round trip (DESIGN §5 C06)."""
from __future__ import annotations

from typing import Any

from ..absint import AObj
from ..antlrstubs import Console, install_antlr
from ..card import D, domain_wf, kind
from ..codec import Codec
from ..core import AnalysisError, Ctx, loc
from ..model import ModelBuilder
from ..pm import ProgramModel

W, R = "AFMWriter", "AFMReader"
OPS = ("AND", "OR", "IMPLIES", "EQUIVALENCE", "REQUIRES", "EXCLUDES")


def afm_model(mb: ModelBuilder, ds: list[D]) -> AObj:
    root = mb.feature("Root")
    for i, d in enumerate(ds):
        mb.relation(root, [mb.feature(f"F{i}x{j}") for j in range(d.n)], d.min, d.max)
    return mb.model(root, [])


def ctc_model(mb: ModelBuilder, roots: list[AObj]) -> AObj:
    root = mb.feature("Root")
    for nme in ("A", "B", "C"):
        mb.relation(root, [mb.feature(nme)], 0, 1)
    return mb.model(root, [mb.constraint(f"c{i}", r) for i, r in enumerate(roots)])


def afm_rich(mb: ModelBuilder) -> AObj:
    F = mb.feature
    root = F("Root")
    a, b, c = F("Alpha"), F("Beta2"), F("C")
    mb.relation(root, [a], 1, 1)
    mb.relation(root, [b], 0, 1)
    mb.relation(root, [c], 1, 1)
    mb.relation(a, [F("Xa"), F("Y1"), F("Zz")], 1, 3)
    mb.relation(a, [F("Am")], 1, 1)
    mb.relation(b, [F("U"), F("V")], 1, 1)
    mb.relation(c, [F("P"), F("Q"), F("R")], 2, 3)
    mb.relation(c, [F("Opt")], 0, 1)
    dom = AObj("Domain", range_list=[AObj("Range", min_value=0, max_value=10), AObj("Range", min_value=20, max_value=30)],
               element_list=[])
    a._f["attributes"].append(mb.attribute("cost", "5", a, domain=dom, null="0"))
    dom2 = AObj("Domain", range_list=[], element_list=["low", "high"])
    b._f["attributes"].append(mb.attribute("level", "low", b, domain=dom2, null="high"))
    n, o = mb.node, mb.op
    cs = [n(o("REQUIRES"), n("Xa"), n("U")), n(o("EXCLUDES"), n("P"), n("V")),
          n(o("AND"), n(o("OR"), n("Xa"), n("Y1")), n(o("NOT"), n("Q")))]
    return mb.model(root, [mb.constraint(f"c{i}", x) for i, x in enumerate(cs)])


def check(pm: ProgramModel, ctx: Ctx) -> None:
    ctx.explanation = (
        "CODEC closure for AFM by composing AFMWriter.transform and AFMReader.transform (and the "
        "dependency's get_tree, read from source), both evaluated from source with the generated "
        "AFM recogniser as grammar between them: per class of every dimension of the fragment "
        "(mandatory / optional children, [a,b] groups over the well-formed cardinality domain, "
        "several relations of any kind under one parent, integer-range and enumerated attribute "
        "domains with default and null values, each of NOT AND OR IMPLIES IFF REQUIRES EXCLUDES "
        "at every position including nestings that need parentheses) the model read back must "
        "equal the one written (constraints up to logical equivalence by truth table, ranges as "
        "integers); cycles are fixpoints with identical text; returned = written (UTF-8); reader "
        "output well-formed (unary operand first).")
    ctx.not_decided = ["names outside the AFM WORD token (the format cannot carry them)",
                       "three-way and higher interactions between dimensions (every two-way combination is in the pairwise family)"]
    mb = ModelBuilder(pm)
    cd = Codec(pm, ctx, W, R, "C06", diff_opts={"ctc_compare": "semantic", "ctc_names": False},
               wsetup=install_antlr, rsetup=install_antlr)
    console = Console()
    plain_roundtrip = cd.roundtrip

    def roundtrip(model: Any) -> dict[str, Any]:
        """The AFM recogniser recovers from syntax errors (it prints them and goes on): what it prints while the writer's
        text is read decides whether that text is AFM at all."""
        import re as _re
        pos = len(console.buf.getvalue())
        out = plain_roundtrip(model)
        errs = [ln for ln in console.buf.getvalue()[pos:].splitlines() if _re.match(r"line \d+:\d+ ", ln)]
        if errs and not out["w"]["raise"]:
            out["syntax"] = errs[:2]
        return out
    cd.roundtrip = roundtrip  # type: ignore[method-assign]
    with console:
        _run(pm, ctx, mb, cd)
    ctx.analysed["C06:compositions"] = cd.n
    ctx.floor("C06", "obligations", len(ctx.obligations), 40)


def _run(pm: ProgramModel, ctx: Ctx, mb: ModelBuilder, cd: Codec) -> None:
    tree = ("relation", "parent", "name")
    for d in [x for x in domain_wf(ctx.tier) if x.n <= 4 and x.min <= 4 and x.max <= 4 and x.max != -1]:
        k = kind(d)
        rt = cd.roundtrip(afm_model(mb, [d]))
        cd.report("KIND", f"kind:{k}" if cd.failed(rt, tree) else f"kind:{k}:{d}", rt, f"relation {d} ({k})", tree,
                  fragment=(k != "other1"))
    for ds in ([D(1, 1, 1), D(0, 1, 1), D(1, 2, 2)], [D(0, 1, 2), D(2, 3, 3), D(1, 1, 2)],
               [D(0, 1, 1), D(0, 1, 1), D(1, 1, 1)]):
        cd.report("KIND", "several:" + "+".join(kind(d) for d in ds), cd.roundtrip(afm_model(mb, ds)),
                  f"parent with relations {[str(d) for d in ds]}", tree)
    # attributes
    cases = {
        "int-range": (AObj("Domain", range_list=[AObj("Range", min_value=0, max_value=10)], element_list=[]), "5", "0"),
        "two-ranges": (AObj("Domain", range_list=[AObj("Range", min_value=0, max_value=3),
                                                  AObj("Range", min_value=7, max_value=9)], element_list=[]), "2", "0"),
        # bounds whose texts order differently from their values
        "int-range-5-to-10": (AObj("Domain", range_list=[AObj("Range", min_value=5, max_value=10)], element_list=[]), "7", "5"),
        "int-ranges-wide": (AObj("Domain", range_list=[AObj("Range", min_value=20, max_value=100),
                                                       AObj("Range", min_value=250, max_value=1000)], element_list=[]), "30", "20"),
        "enumerated": (AObj("Domain", range_list=[], element_list=["low", "mid", "high"]), "mid", "low"),
        "enumerated-one-element": (AObj("Domain", range_list=[], element_list=["only"]), "only", "only"),
        "int-range-one-value": (AObj("Domain", range_list=[AObj("Range", min_value=4, max_value=4)], element_list=[]), "4", "4"),
        "enumerated-quoted": (AObj("Domain", range_list=[], element_list=['"eco,sport"', '"a b"', "x1"]), '"a b"', "x1"),
        "enumerated-numbers": (AObj("Domain", range_list=[], element_list=["1", "2", "30"]), "2", "1"),
    }
    for key, (dom, dflt, null) in cases.items():
        root = mb.feature("Root")
        a = mb.feature("A")
        mb.relation(root, [a], 1, 1)
        a._f["attributes"].append(mb.attribute("cost", dflt, a, domain=dom, null=null))
        cd.report("FIELDS", f"attribute:{key}", cd.roundtrip(mb.model(root, [])), f"attribute with {key} domain",
                  ("attribute",))
    # constraints
    n, o = mb.node, mb.op
    cc = ("constraint", "constraint-count")
    for op in OPS:
        from ..codec import operator_trees
        roots = [t for _, t in operator_trees(mb, op)]
        cd.report("VOC", f"operator:{op}", cd.roundtrip(ctc_model(mb, roots)), f"constraints over {op}", cc)
    cd.report("UNARY", "operator:NOT", cd.roundtrip(ctc_model(mb, [n(o("NOT"), n("A")), n(o("OR"), n(o("NOT"), n("A")), n("B"))])),
              "negation", cc)
    nest = {
        "or-in-and": n(o("AND"), n(o("OR"), n("A"), n("B")), n("C")),
        "and-in-or": n(o("OR"), n("A"), n(o("AND"), n("B"), n("C"))),
        "implies-left": n(o("IMPLIES"), n(o("IMPLIES"), n("A"), n("B")), n("C")),
        "implies-right": n(o("IMPLIES"), n("A"), n(o("IMPLIES"), n("B"), n("C"))),
        "not-of-and": n(o("NOT"), n(o("AND"), n("A"), n("B"))),
        "iff-of-or": n(o("EQUIVALENCE"), n(o("OR"), n("A"), n("B")), n(o("NOT"), n("C"))),
        "requires-of-and": n(o("REQUIRES"), n(o("AND"), n("A"), n("B")), n("C")),
        "excludes-nested": n(o("OR"), n(o("EXCLUDES"), n("A"), n("B")), n("C")),
        "depth3": n(o("AND"), n(o("OR"), n("A"), n(o("NOT"), n(o("AND"), n("B"), n("C")))), n(o("IMPLIES"), n("C"), n("A"))),
    }
    for key, tree_ in nest.items():
        cd.report("GROUPING", f"nesting:{key}", cd.roundtrip(ctc_model(mb, [tree_])), f"nested constraint ({key})", cc)
    # names differing only in letter case are different features, each with children and attributes of its own
    root = mb.feature("Root")
    ab_, AB_ = mb.feature("Ab"), mb.feature("AB")
    mb.relation(root, [ab_], 1, 1)
    mb.relation(root, [AB_], 0, 1)
    mb.relation(ab_, [mb.feature("X1"), mb.feature("X2")], 1, 2)
    mb.relation(AB_, [mb.feature("Y1")], 1, 1)
    ab_._f["attributes"].append(mb.attribute("cost", "5", ab_, domain=AObj(
        "Domain", range_list=[AObj("Range", min_value=0, max_value=10)], element_list=[]), null="0"))
    AB_._f["attributes"].append(mb.attribute("level", "low", AB_, domain=AObj(
        "Domain", range_list=[], element_list=["low", "high"]), null="high"))
    cd.report("FIELDS", "names-differing-in-case-with-children", cd.roundtrip(mb.model(root, [])),
              "features Ab and AB, each with children and an attribute of its own", ("relation", "parent", "name", "attribute"))
    # names differing only in letter case are different features; equal constraints are both kept
    root = mb.feature("Root")
    for nme in ("Db", "DB", "Log"):
        mb.relation(root, [mb.feature(nme)], 0, 1)
    cs = [n(o("REQUIRES"), n("Db"), n("Log")), n(o("REQUIRES"), n("DB"), n("Log")), n(o("REQUIRES"), n("Db"), n("Log"))]
    cd.report("VOC", "case-variant-names+repeated-constraint",
              cd.roundtrip(mb.model(root, [mb.constraint(f"c{i}", c) for i, c in enumerate(cs)])),
              "constraints over names that differ only in letter case, one of them repeated",
              ("constraint", "constraint-count", "name"))
    m1 = cd.cycle_and_return(afm_rich(mb))
    if m1 is not None:
        cd.report("COMBINED", "rich-model", cd.last_rt, "model realising all dimensions at once",
                  ("abstract", "type", "fcard"), fragment=False)
    if ctx.tier == "thorough":
        cd.thorough_pairs(mb, OPS, "VOC", model_of=lambda trees: ctc_model(mb, [t for _, t in trees]))
        cd.thorough_kind_pairs(mb, [D(1, 1, 1), D(0, 1, 1), D(1, 1, 2), D(1, 2, 2), D(0, 1, 2), D(2, 3, 3), D(0, 2, 2)],
                               model_of=lambda ds: afm_model(mb, ds))
    from ..codec import stress_trees
    cd.report("VOC", "stress-shapes", cd.roundtrip(ctc_model(mb, [t for nm, t in stress_trees(mb) if nm != "triple_negation"])),
              "constraint shapes that stress normal forms", ("constraint", "constraint-count"))
    # the AFM WORD token: a capital letter followed by letters and digits
    cd.large(mb, OPS, rename=lambda s_: (s_[0].upper() + s_[1:]).replace("_", ""))
    cd.polarity(mb, OPS, "VOC", model_of=lambda trees: ctc_model(mb, [t for _, t in trees]))
    cd.writer_reuse(mb, abstract=False)
    cd.reader_reuse(mb, abstract=False)
    # PAIRS: every two-way combination of position, name shape inside the WORD token, attribute domain kind, role in a
    # constraint and operator on one feature
    from ..interact import Fragment, sweep

    def attach(mb_: ModelBuilder, f: AObj, vk: str, v: Any) -> None:
        dom_, dflt_, null_ = cases[vk]
        dom2 = AObj("Domain", range_list=[AObj("Range", min_value=r_._f["min_value"], max_value=r_._f["max_value"])
                                          for r_ in dom_._f["range_list"]], element_list=list(dom_._f["element_list"]))
        f._f["attributes"].append(mb_.attribute("cost", dflt_, f, domain=dom2, null=null_))
    afm_names = {"plain": "Alpha1", "single-letter": "Q", "all-capitals": "GPS", "digits-tail": "X86", "camel": "HighSpeed",
                 "operator-word-prefix": "ANDroid", "not-prefix": "Notes", "type-word-prefix": "Integers",
                 "case-variant": "ALPHA1", "long": "Component" + "Abcdefghij" * 4}
    fr = Fragment(names=afm_names, ops=tuple(OPS), abstract=False, mutex=True,
                  values={k_: None for k_ in cases}, attr=attach,
                  filler=lambda s_: (s_[0].upper() + s_[1:]).replace("_", "").replace("-", ""))
    ctx.analysed.update({f"C06:pairwise-{k_}": v for k_, v in sweep(
        cd, mb, fr, ("name", "root", "parent", "relation", "constraint", "constraint-count", "attribute")).items()})
    cd.finish_unowned()
