"""C08 — Glencoe round trip (DESIGN §5 C08)."""
from __future__ import annotations

from typing import Any

from ..absint import AObj
from ..card import D, domain_wf, kind
from ..codec import Codec, operator_trees, NAME_CLASSES, ctc_model, name_model
from ..core import AnalysisError, Ctx, loc
from ..logic import BINARY_LOGICAL
from ..model import ModelBuilder
from ..pm import ProgramModel

W, R = "GlencoeWriter", "GlencoeReader"


def ctc_equiv(t1: str, t2: str) -> bool:
    # REQUIRES is written as ImpliesTerm: equivalent, not identical
    return t1.replace("REQUIRES", "IMPLIES") == t2.replace("REQUIRES", "IMPLIES")


def group_model(mb: ModelBuilder, d: D, mandatory_singles: int = 0, optional_singles: int = 0) -> AObj:
    root = mb.feature("Root")
    g = mb.feature("G")
    mb.relation(root, [g], 1, 1)
    mb.relation(g, [mb.feature(f"g{j}") for j in range(d.n)], d.min, d.max)
    for i in range(mandatory_singles):
        mb.relation(g, [mb.feature(f"m{i}")], 1, 1)
    for i in range(optional_singles):
        mb.relation(g, [mb.feature(f"o{i}")], 0, 1)
    return mb.model(root, [])


def glencoe_rich(mb: ModelBuilder) -> AObj:
    F = mb.feature
    root = F("Root")
    a, b, c = F("A"), F("B"), F("C")
    mb.relation(root, [a], 1, 1)
    mb.relation(root, [b], 0, 1)
    mb.relation(root, [c], 1, 1)
    mb.relation(a, [F("x"), F("y"), F("z")], 1, 3)
    mb.relation(a, [F("am")], 1, 1)
    mb.relation(b, [F("u"), F("v")], 1, 1)
    mb.relation(c, [F("p"), F("q"), F("r")], 2, 3)
    n, o = mb.node, mb.op
    ctcs = [mb.constraint("k1", n(o("IMPLIES"), n("x"), n("u"))),
            mb.constraint("k2", n(o("EXCLUDES"), n("p"), n("v"))),
            mb.constraint("k3", n(o("XOR"), n("y"), n(o("AND"), n("z"), n(o("NOT"), n("q")))))]
    return mb.model(root, ctcs)


def check(pm: ProgramModel, ctx: Ctx) -> None:
    ctx.explanation = (
        "CODEC closure for Glencoe JSON by composing GlencoeWriter.transform and GlencoeReader."
        "transform, both evaluated from source: per class of every dimension of the fragment "
        "(parent contexts: mandatory/optional singles; one alternative / or / mutex / [a,b] group "
        "over the well-formed cardinality domain, alone and with mandatory singles; name shapes by "
        "the character classes the encoder observes, which are also the join keys between "
        "`features`, `tree` ids and FeatureTerm operands; the eight logical operators at every "
        "position; constraint names) the abstract model read back must equal the one written "
        "(relations as multisets, constraints up to REQUIRES=IMPLIES); further cycles are "
        "fixpoints; returned value = text written (UTF-8); reader output well-formed.")
    ctx.not_decided = ["documents not produced by the writer (C09)",
                       "three-way and higher interactions between dimensions (every two-way combination is in the pairwise family)"]
    mb = ModelBuilder(pm)
    # the property asks for logically equivalent constraints (an n-ary AndTerm may regroup operands)
    cd = Codec(pm, ctx, W, R, "C08", diff_opts={"ctc_compare": "semantic"})
    tree = ("relation", "parent", "name")
    # singles
    for ds, key in (((D(1, 1, 1),), "mandatory"), ((D(0, 1, 1),), "optional"),
                    ((D(1, 1, 1), D(0, 1, 1), D(1, 1, 1)), "mandatory+optional")):
        root = mb.feature("Root")
        for i, d in enumerate(ds):
            mb.relation(root, [mb.feature(f"s{i}")], d.min, d.max)
        cd.report("KIND", f"singles:{key}", cd.roundtrip(mb.model(root, [])), f"single children ({key})", tree)
    # one group
    for d in [x for x in domain_wf(ctx.tier) if 2 <= x.n <= 4 and x.max <= 4 and x.min <= 4 and x.max != -1]:
        k = kind(d)
        rt = cd.roundtrip(group_model(mb, d))
        cd.report("KIND", f"group:{k}" if cd.failed(rt, tree) else f"group:{k}:{d}", rt,
                  f"feature with one group {d} ({k})", tree)
    for d in (D(1, 1, 2), D(1, 3, 3), D(0, 1, 2), D(2, 3, 3)):
        rt = cd.roundtrip(group_model(mb, d, mandatory_singles=2))
        cd.report("KIND", f"group+mandatory:{kind(d)}", rt, f"group {d} accompanied by mandatory children", tree)
    # names (join keys)
    for cls_, name in NAME_CLASSES.items():
        rt = cd.roundtrip(name_model(mb, name))
        cd.report("JOIN", f"name:{cls_}", rt, f"feature named {name!r} ({cls_})",
                  ("name", "root", "parent", "relation", "constraint"))
    rt = cd.roundtrip(name_model(mb, "two words", in_ctc=False, as_root=True))
    cd.report("JOIN", "name:root-space", rt, "root named 'two words'", ("name", "root", "parent", "relation"))
    # operators
    n, o = mb.node, mb.op
    for op in BINARY_LOGICAL:
        roots = operator_trees(mb, op)
        cd.report("VOC", f"operator:{op}", cd.roundtrip(ctc_model(mb, roots)), f"constraints over {op}",
                  ("constraint", "constraint-count"))
    cd.report("VOC", "operator:NOT+literal",
              cd.roundtrip(ctc_model(mb, [("neg", n(o("NOT"), n(o("NOT"), n("A")))), ("single", n("B"))])),
              "negation and single-literal constraints", ("constraint", "constraint-count"))
    cd.report("FIELDS", "constraint-names",
              cd.roundtrip(ctc_model(mb, [("Constraint 1", n(o("OR"), n("A"), n("B"))), ("ñ", n("C"))])),
              "constraint names", ("constraint-name", "constraint-count"))
    # reader folds n-ary terms
    pa = pm.method(pm.cls(R), "_parse_ast_constraint")
    if pa is None:
        raise AnalysisError("C08-FOLD", "anchor vanished: GlencoeReader._parse_ast_constraint")
    from ..absint import AbsRaise, Interp
    from ..logic import names_of
    finfo = {k: {"name": k} for k in "ABCD"}
    t = lambda x: {"type": "FeatureTerm", "operands": [x]}  # noqa: E731
    for term in ("AndTerm", "OrTerm", "XorTerm"):
        it = Interp(pm)
        try:
            node = it.call(pa, [AObj(R), {"type": term, "operands": [t("A"), t("B"), t("C"), t("D")]}, finfo])
            got = sorted(names_of(node))
        except AbsRaise as exc:
            got = [f"raise {exc.what}"]
        ctx.check(got == ["A", "B", "C", "D"], "C08-FOLD", f"reader-nary:{term}", loc(pa.unit.path, pa.node),
                  f"a 4-operand {term} keeps all operands", bad=f"4-operand {term} read with operands {got}")
    # combined
    m1 = cd.cycle_and_return(glencoe_rich(mb))
    if m1 is not None:
        cd.report("COMBINED", "rich-model", cd.last_rt, "model realising all dimensions at once",
                  ("abstract", "type", "fcard", "attribute"), fragment=False)
    if ctx.tier == "thorough":
        cd.thorough_pairs(mb, BINARY_LOGICAL, "VOC")
    from ..codec import stress_trees
    cd.report("VOC", "stress-shapes", cd.roundtrip(ctc_model(mb, stress_trees(mb))),
              "constraint shapes that stress normal forms", ("constraint", "constraint-count"))
    cd.large(mb, BINARY_LOGICAL, mixed=False)
    cd.polarity(mb, BINARY_LOGICAL, "VOC")
    cd.writer_reuse(mb, abstract=False)
    cd.reader_reuse(mb, abstract=False)
    from ..interact import Fragment, sweep
    fr = Fragment(names=dict(NAME_CLASSES), ops=tuple(BINARY_LOGICAL), abstract=False)
    ctx.analysed.update({f"C08:pairwise-{k_}": v for k_, v in sweep(
        cd, mb, fr, ("name", "root", "parent", "relation", "constraint", "constraint-count")).items()})
    cd.finish_unowned()
    ctx.analysed["C08:compositions"] = cd.n
    ctx.floor("C08", "obligations", len(ctx.obligations), 40)
