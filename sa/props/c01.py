"""C01 — UVL round trip (DESIGN §5 C01)."""
from __future__ import annotations

from typing import Any

from ..absint import AObj, EnumVal
from ..antlrstubs import Console, install_antlr
from ..card import D, domain_wf, kind
from ..codec import Codec, operator_trees, ctc_model, kind_model, name_model
from ..core import AnalysisError, Ctx, loc
from ..model import ModelBuilder, rich_model
from ..pm import ProgramModel
from ..roundtrip import equivalent_or_identical

W, R = "UVLWriter", "UVLReader"

UVL_NAMES = {
    "plain": "Alpha_1", "space": "two words", "punct": "x-y+z", "unicode": "Raíz",
    "digit-first": "2fast", "underscore-first": "_u", "keyword": "or", "keyword-type": "Integer",
    "opword": "AND", "brackets": "a[1]{b}", "keyword-features": "features", "digits": "64",
    "number-like": "1e3", "case-variant": "alpha_1", "true": "true",
    "tab-inside": "tab\there", "leading-blank": " lead", "trailing-blank": "trail ", "double-blank": "two  blanks",
    "percent": "50% off", "percent-escape-look-alike": "a%22b%25",
    "apostrophe": "it's", "apostrophes-at-both-ends": "'q'", "apostrophes-around-two-words": "'a b'", "apostrophe-first": "'lead", "comma-colon": "a,b:c", "slashes": "a/b\\c", "hash-at": "#tag@home",
}


def check(pm: ProgramModel, ctx: Ctx) -> None:
    ctx.explanation = (
        "CODEC closure for UVL by composing UVLWriter.transform and UVLReader.transform, both "
        "evaluated from source; the dependency's generated UVL recogniser (part of the "
        "environment, like json) turns the text the writer's source produces into the parse tree "
        "the reader's source consumes. Per class of every dimension UVL carries (relation order "
        "types over the well-formed cardinality domain incl. '*', several relations per parent, "
        "feature types, feature cardinalities, abstract flag, attribute value kinds, name shapes "
        "by the character classes the quoting predicate and the lexer distinguish, every logical / "
        "comparison / arithmetic / aggregate operator at every position with nesting that needs "
        "parentheses) the model read back must equal the one written, constraints up to logical "
        "equivalence (truth table) or identical trees for non-logical ones; further cycles are "
        "fixpoints with byte-identical text; returned = written, UTF-8 on both sides.")
    ctx.not_decided = ["three-way and higher interactions between dimensions (every two-way combination is in the pairwise family)",
                       "the recogniser's conformance to the UVL language definition (dependency)"]
    mb = ModelBuilder(pm)
    cd = Codec(pm, ctx, W, R, "C01", diff_opts={"ctc_node_compare": equivalent_or_identical, "ctc_names": False},
               wsetup=install_antlr, rsetup=install_antlr)
    console = Console()
    with console:
        _run(pm, ctx, mb, cd)
    ctx.analysed["C01:compositions"] = cd.n
    ctx.analysed["C01:recogniser-console-lines"] = len(console.buf.getvalue().splitlines())
    ctx.floor("C01", "obligations", len(ctx.obligations), 60)


def _run(pm: ProgramModel, ctx: Ctx, mb: ModelBuilder, cd: Codec) -> None:
    tree = ("relation", "parent", "name")
    # KIND ----------------------------------------------------------------------------------------
    for d in [x for x in domain_wf(ctx.tier) if x.n <= 4 and x.min <= 4 and x.max <= 4]:
        k = kind(d)
        rt = cd.roundtrip(kind_model(mb, [d]))
        cd.report("KIND", f"kind:{k}" if cd.failed(rt, tree) else f"kind:{k}:{d}", rt, f"relation {d} ({k})", tree)
    for ds in [(D(1, 1, 1), D(0, 1, 1), D(1, 2, 2)), (D(0, 1, 2), D(2, 3, 3), D(1, 1, 2), D(1, -1, 3)),
               (D(0, 1, 1), D(0, 1, 1), D(1, 1, 1), D(1, 1, 1)), (D(1, 3, 3), D(1, 2, 2))]:
        cd.report("KIND", "several:" + "+".join(kind(d) for d in ds), cd.roundtrip(kind_model(mb, ds)),
                  f"parent with relations {[str(d) for d in ds]}", tree)
    # nesting depth 3
    root = mb.feature("Root")
    a, b, c = mb.feature("A"), mb.feature("B"), mb.feature("C")
    mb.relation(root, [a], 0, 1)
    mb.relation(a, [b, mb.feature("B2")], 1, 2)
    mb.relation(b, [c], 1, 1)
    mb.relation(root, [mb.feature("Z")], 1, 1)
    cd.report("KIND", "nesting", cd.roundtrip(mb.model(root, [])), "three levels of nesting", tree)
    # TYPES / FCARD / ABSTRACT ------------------------------------------------------------------------
    ft = pm.enum_members(pm.cls("FeatureType"))
    for k_, v in ft.items():
        root = mb.feature("Root")
        mb.relation(root, [mb.feature("T", ftype=EnumVal("FeatureType", k_, v))], 1, 1)
        cd.report("TYPES", f"type:{k_}", cd.roundtrip(mb.model(root, [])), f"feature of type {k_}", ("type",))
    for card in ((0, 3), (2, 2), (1, -1), (0, 1), (1, 1), (2, 10), (9, 11), (5, 100), (10, 12)):
        root = mb.feature("Root")
        mb.relation(root, [mb.feature("M", card=card)], 0, 1)
        cd.report("FIELDS", f"fcard:{card[0]}..{'*' if card[1] == -1 else card[1]}", cd.roundtrip(mb.model(root, [])),
                  f"feature cardinality {card}", ("fcard",))
    for flag in (True, False):
        root = mb.feature("Root", is_abstract=flag)
        mb.relation(root, [mb.feature("A", is_abstract=not flag)], 1, 1)
        cd.report("FIELDS", f"abstract={flag}", cd.roundtrip(mb.model(root, [])), f"abstract flag {flag}", ("abstract",))
    cd.abstract_positions(mb)

    def typed(f: AObj) -> None:
        f._f["feature_type"] = EnumVal("FeatureType", "REAL", ft.get("REAL"))

    def multi(f: AObj) -> None:
        f._f["feature_cardinality"] = AObj("Cardinality", min=0, max=-1)

    def attributed(f: AObj) -> None:
        f._f["attributes"].append(mb.attribute("note", "x y", f))
        f._f["attributes"].append(mb.attribute("zero", 0, f))
    cd.positions_sweep(mb, "TYPES", "type", ("type",), typed, "a Real feature type")
    cd.positions_sweep(mb, "FIELDS", "fcard", ("fcard",), multi, "feature cardinality [0..*]")
    cd.positions_sweep(mb, "VALUES", "attributes", ("attribute",), attributed, "attributes")
    # attribute + type + cardinality + abstract on one feature
    root = mb.feature("Root")
    f = mb.feature("All", is_abstract=True, ftype=EnumVal("FeatureType", "INTEGER", ft.get("INTEGER")), card=(0, 2))
    f._f["attributes"].append(mb.attribute("n", 3, f))
    mb.relation(root, [f], 1, 1)
    cd.report("FIELDS", "all-decorations", cd.roundtrip(mb.model(root, [])), "typed, abstract multi-feature with attribute",
              ("type", "fcard", "abstract", "attribute"))
    # ATTRIBUTE VALUES --------------------------------------------------------------------------------
    values = {"none": None, "true": True, "false": False, "int": 7, "zero": 0, "zero-float": 0.0,
              "empty-map": {}, "negative-int": -3, "float": 2.5,
              "str": "some text", "list": [1, 2.5, "a"], "list-with-bool": [1, True],
              "nested-map": {"k": 1, "inner": {"x": "y"}}, "empty-list": [],
              "numeric-string": "10", "exponent-string": "1e3", "bool-string": "true", "float-integral": 6.0}
    # containers by number and kind of items (a list of one item is not a shorter list of two)
    for sk, sv in (("int", 7), ("zero", 0), ("negative-int", -3), ("float", 2.5), ("bool", True), ("str", "a")):
        values[f"list-of-one:{sk}"] = [sv]
        values[f"list-in-list-of-one:{sk}"] = [[sv]]
        values[f"map-with-list-of-one:{sk}"] = {"k": [sv], "z": 1}
    values["list-of-lists"] = [[1, 2], [3]]
    # numbers at the edges of what a text carries exactly
    values.update({"float-17-digits": 0.30000000000000004, "float-third": 1 / 3, "float-next-after-one": 1.0000000000000002,
                   "int-beyond-2**53": 9007199254740993, "int-20-digits": 12345678901234567890, "negative-float": -0.5})
    # (floats that Python prints with an exponent - 1e+22, 1.5e-07 - are outside the property's "plain-decimal float")
    # text that looks like syntax of the value language, inside containers and alone
    values.update({"string-with-bracketed-int": "see [3]", "list-with-bracketed-int-string": ["see [3]", 2],
                   "map-with-bracketed-int-string": {"k": "[3]"}, "list-with-braces-string": ["{a}", "x, y"],
                   "list-of-look-alike-numbers": [1, 1.0, True, "1"]})
    values["map-with-key-abstract"] = {"abstract": None, "level": 2}
    values["map-with-key-abstract-true"] = {"kind": {"abstract": True}, "z": 1}
    values["list-of-maps-with-key-abstract"] = [{"abstract": None}, {"k": 1}]
    for vk, v in values.items():
        root = mb.feature("Root")
        a = mb.feature("A")
        mb.relation(root, [a], 1, 1)
        a._f["attributes"].append(mb.attribute("attr", v, a))
        a._f["attributes"].append(mb.attribute("second", 1, a))
        cd.report("VALUES", f"value:{vk}", cd.roundtrip(mb.model(root, [])), f"attribute value {v!r}", ("attribute",))
    from ..codec import lookalike_values_model
    cd.report("VALUES", "look-alike-values-across-features", cd.roundtrip(lookalike_values_model(mb)),
              "one attribute name on several features with values that are equal but of different kinds (True / 1 / 1.0 / '1')",
              ("attribute",))
    root = mb.feature("Root")
    a = mb.feature("A")
    mb.relation(root, [a], 1, 1)
    a._f["attributes"].append(mb.attribute("cost per unit", 5, a))
    cd.report("QUOTE", "attribute-name:space", cd.roundtrip(mb.model(root, [])), "attribute named 'cost per unit'", ("attribute",))
    # attribute names and the keys of nested maps are names too: the same classes as feature names (what is escaped or
    # quoted for one must be undone for all), also when a constraint refers to the attribute
    for cls_ in ("punct", "unicode", "digit-first", "keyword", "percent", "percent-escape-look-alike", "leading-blank", "opword"):
        nm_ = UVL_NAMES[cls_]
        root = mb.feature("Root")
        a = mb.feature("A")
        mb.relation(root, [a], 1, 1)
        a._f["attributes"].append(mb.attribute(nm_, 5, a))
        a._f["attributes"].append(mb.attribute("meta", {nm_: 1, "plain": {nm_ + " 2": "v"}}, a))
        cd.report("QUOTE", f"attribute-name:{cls_}", cd.roundtrip(mb.model(root, [])),
                  f"attribute and map key named {nm_!r} ({cls_})", ("attribute",))
    # NAMES ------------------------------------------------------------------------------------------
    names = ("name", "root", "parent", "relation", "constraint", "constraint-count")
    for cls_, name in UVL_NAMES.items():
        cd.report("QUOTE", f"name:{cls_}", cd.roundtrip(name_model(mb, name)), f"feature named {name!r} ({cls_})", names)
    cd.report("QUOTE", "name:root-space", cd.roundtrip(name_model(mb, "two words", in_ctc=False, as_root=True)),
              "root named 'two words'", names)
    # OPERATORS ----------------------------------------------------------------------------------------
    n, o = mb.node, mb.op
    cc = ("constraint", "constraint-count")
    for op in ("AND", "OR", "IMPLIES", "EQUIVALENCE", "REQUIRES", "EXCLUDES"):
        roots = operator_trees(mb, op)
        cd.report("OPS", f"operator:{op}", cd.roundtrip(ctc_model(mb, roots)), f"constraints over {op}", cc)
    cd.report("OPS", "operator:NOT", cd.roundtrip(ctc_model(mb, [
        ("neg", n(o("NOT"), n("A"))), ("negneg", n(o("NOT"), n(o("NOT"), n("A")))),
        ("negand", n(o("NOT"), n(o("AND"), n("A"), n("B")))), ("single", n("B"))])), "negations and a single literal", cc)
    cd.report("OPS", "precedence", cd.roundtrip(ctc_model(mb, [
        ("p1", n(o("AND"), n(o("OR"), n("A"), n("B")), n("C"))),
        ("p2", n(o("IMPLIES"), n(o("IMPLIES"), n("A"), n("B")), n("C"))),
        ("p3", n(o("OR"), n("A"), n(o("AND"), n("B"), n(o("EQUIVALENCE"), n("A"), n("C")))))])),
              "nestings that need parentheses", cc)
    for op in ("EQUALS", "LOWER", "GREATER", "LOWER_EQUALS", "GREATER_EQUALS", "NOT_EQUALS"):
        roots = [(f"c_{op}", n(o(op), n("A.cost"), n(5))), (f"f_{op}", n(o(op), n("A.cost"), n(2.5)))]
        cd.report("OPS", f"operator:{op}", cd.roundtrip(ctc_model(mb, roots)), f"comparison {op}", cc)
    for op in ("ADD", "SUB", "MUL", "DIV"):
        roots = [(f"c_{op}", n(o("GREATER"), n(o(op), n("A.cost"), n("B.cost")), n(2))),
                 (f"n_{op}", n(o("EQUALS"), n(o(op), n(o("ADD"), n("A.cost"), n(1)), n("B.cost")), n(0)))]
        cd.report("OPS", f"operator:{op}", cd.roundtrip(ctc_model(mb, roots)), f"arithmetic {op}", cc)
    for op in ("SUM", "AVG"):
        roots = [(f"c_{op}", n(o("GREATER"), n(o(op), n("cost"), n("A")), n(10)))]
        cd.report("OPS", f"operator:{op}", cd.roundtrip(ctc_model(mb, roots)), f"two-argument {op}", cc)
    cd.report("OPS", "string-literal", cd.roundtrip(ctc_model(mb, [("s", n(o("EQUALS"), n("A.label"), n("'lit one'")))])),
              "comparison with a string literal", cc)
    # COMBINED ---------------------------------------------------------------------------------------------
    m1 = cd.cycle_and_return(rich_model(mb))
    if m1 is not None:
        cd.report("COMBINED", "rich-model", cd.last_rt, "model realising all dimensions at once", ())
        fs = [o_ for o_ in cd.last_rt["r"]["interp"].__dict__.get("_unused", [])]
    # the reader must decode what the writer encodes: every stream the reader opens names UTF-8
    rt = cd.roundtrip(kind_model(mb, [D(1, 1, 1)]))
    if rt["r"] is not None:
        ro = [o_ for o_ in rt["w"]["vfs"].opens if o_["mode"] == "antlr-filestream"]
        rd = pm.cls(R)
        ctx.check(bool(ro) and all((o_["encoding"] or "").lower().replace("-", "") == "utf8" for o_ in ro),
                  "C01-ENCODING", "reader-utf8", loc(rd.unit.path, rd.node),
                  "the reader decodes the file as UTF-8",
                  bad=f"the reader opens the file with encoding {[o_['encoding'] for o_ in ro]} "
                      f"(writer: utf8)")
    if ctx.tier == "thorough":
        cd.thorough_pairs(mb, ("AND", "OR", "IMPLIES", "EQUIVALENCE", "REQUIRES", "EXCLUDES"), "OPS")
        cd.thorough_kind_pairs(mb, [D(1, 1, 1), D(0, 1, 1), D(1, 1, 2), D(1, 2, 2), D(0, 1, 2), D(2, 3, 3), D(0, 2, 2), D(1, -1, 2)])
    from ..codec import stress_trees
    cd.report("OPS", "stress-shapes", cd.roundtrip(ctc_model(mb, stress_trees(mb))),
              "constraint shapes that stress normal forms", ("constraint", "constraint-count"))
    cd.large(mb, ("AND", "OR", "IMPLIES", "EQUIVALENCE"))
    cd.polarity(mb, ("AND", "OR", "IMPLIES", "EQUIVALENCE", "REQUIRES", "EXCLUDES"), "OPS")
    cd.writer_reuse(mb, list_attr=True)
    cd.reader_reuse(mb, list_attr=True)
    # PAIRS: every two-way combination of classes of different dimensions on one feature ------------------------------
    from ..interact import Fragment, sweep
    pv = {k: values[k] for k in ("none", "true", "int", "negative-int", "float", "float-integral", "str", "numeric-string",
                                 "list", "list-of-one:int", "nested-map", "empty-list", "map-with-key-abstract")}
    fr = Fragment(names=UVL_NAMES, ops=("AND", "OR", "IMPLIES", "EQUIVALENCE", "REQUIRES", "EXCLUDES"),
                  types={k_: EnumVal("FeatureType", k_, v) for k_, v in ft.items() if k_ != "BOOLEAN"},
                  fcards=((0, 3), (1, -1), (2, 10)), values=pv, numeric=True,
                  # (a top-level attribute called `abstract` has no spelling in the grammar: not among the classes)
                  attr_names={"plain": "attr", "space": "cost per unit", "keyword": "cardinality", "type-word": "Integer",
                              "unicode": "pre\u00e7o", "digit-first": "2nd", "punct": "x-y", "like-a-value": "true"})
    ctx.analysed.update({f"C01:pairwise-{k_}": v for k_, v in sweep(
        cd, mb, fr, ("name", "root", "parent", "relation", "constraint", "constraint-count", "abstract", "type", "fcard",
                     "attribute")).items()})
    cd.finish_unowned()
