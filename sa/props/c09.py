"""C09 — third-party documents are read as their format defines (DESIGN §5 C09)."""
from __future__ import annotations

import itertools
import json
from typing import Any, Optional

from ..absint import AObj
from ..antlrstubs import Console, install_antlr
from ..codec import PATH, run_reader
from ..core import AnalysisError, Ctx, is_library_error, loc
from ..iostubs import VFS
from ..model import ModelBuilder
from ..pm import ProgramModel
from ..roundtrip import describe, diff, semantically_equal, wellformed
from ..xmlstubs import install_xml


def both(it: Any, vfs: VFS) -> None:
    install_xml(it, vfs)
    install_antlr(it, vfs)


def ref_model(mb: ModelBuilder) -> AObj:
    """Reference model in the intersection of the four formats' tree fragments."""
    F = mb.feature
    root = F("Shop")
    pay, cat, srch, sec = F("Payment"), F("Catalog"), F("Search"), F("Security")
    mb.relation(root, [pay], 1, 1)
    mb.relation(root, [cat], 1, 1)
    mb.relation(root, [srch], 0, 1)
    mb.relation(root, [sec], 0, 1)
    mb.relation(pay, [F("Card"), F("Cash"), F("Coin")], 1, 3)
    mb.relation(cat, [F("Grid"), F("List")], 1, 1)
    mb.relation(srch, [F("Basic")], 1, 1)
    mb.relation(srch, [F("Advanced")], 0, 1)
    n, o = mb.node, mb.op
    cs = [n(o("REQUIRES"), n("Card"), n("Security")), n(o("EXCLUDES"), n("Coin"), n("Advanced"))]
    return mb.model(root, [mb.constraint(f"C{i + 1}", c) for i, c in enumerate(cs)])


def ref_model_many_ctcs(mb: ModelBuilder) -> AObj:
    """Several constraints over the same pairs: both kinds on one ordered pair, the reversed pair, a
    repeated constraint - each element of the document is one constraint of the model."""
    m = ref_model(mb)
    n, o = mb.node, mb.op
    extra = [n(o("EXCLUDES"), n("Card"), n("Security")), n(o("REQUIRES"), n("Security"), n("Card")),
             n(o("REQUIRES"), n("Coin"), n("Advanced")), n(o("REQUIRES"), n("Card"), n("Security"))]
    m._f["ctcs"] = m._f["ctcs"] + [mb.constraint(f"C{i + 3}", c) for i, c in enumerate(extra)]
    return m


def read(pm: ProgramModel, reader: str, content: Any) -> dict[str, Any]:
    vfs = VFS()
    vfs.files[PATH] = content
    return run_reader(pm, reader, vfs, setup=both)


def compare(ctx: Ctx, rule: str, key: str, where: str, r: dict[str, Any], ref: AObj, what: str,
            sem: bool = True, names: bool = False) -> None:
    if r["raise"]:
        ctx.violation(rule, f"{key}:raises", r["raise"][1] or where, f"{what}: rejected with {r['raise'][0]}")
        return
    ds = diff(describe(ref), describe(r["model"]), ctc_names=names, ctc_compare="semantic" if sem else None)
    wf = wellformed(r["model"])
    if not ds and not wf:
        ctx.ok(rule, key, where, f"{what}: model read equals the model the document denotes")
        return
    for c in sorted({c for c, _ in ds}):
        first = next(t for cc, t in ds if cc == c)
        ctx.violation(rule, f"{key}:{c}", where, f"{what}: {first}")
    for c, t in wf[:2]:
        ctx.violation(rule, f"{key}:shape:{c}", where, f"{what}: {t}")


# ---- FeatureIDE ---------------------------------------------------------------------------------
def fide_rule(n: AObj) -> str:
    """A constraint tree as a FeatureIDE rule body (binary conj / disj / imp / eq, not, var)."""
    d = n._f["data"]
    if isinstance(d, str):
        return f"<var>{d}</var>"
    tag = {"AND": "conj", "OR": "disj", "IMPLIES": "imp", "REQUIRES": "imp", "EQUIVALENCE": "eq", "NOT": "not"}[d.name]
    inner = "".join(fide_rule(c) for c in (n._f["left"], n._f["right"]) if c is not None)
    return f"<{tag}>{inner}</{tag}>"


def fide_doc(ref: AObj, explicit_false: bool, graphics: bool, attr_order: bool, with_constraints: bool = True,
             description: bool = False, group_flags: bool = False, rules: Optional[list[str]] = None) -> str:
    """group_flags: FeatureIDE keeps the `mandatory` attribute on children of <or>/<alt> elements,
    where it has no meaning (the group decides): such children still belong to the group only."""
    def attrs(f: AObj, mandatory: Optional[bool]) -> str:
        items = []
        if mandatory is True:
            items.append('mandatory="true"')
        elif mandatory is False and explicit_false:
            items.append('mandatory="false"')
        if f._f["is_abstract"]:
            items.append('abstract="true"')
        elif explicit_false:
            items.append('abstract="false"')
        items.append(f'name="{f._f["name"]}"')
        if attr_order:
            items.reverse()
        return " ".join(items)

    def el(f: AObj, mandatory: Optional[bool], depth: int) -> list[str]:
        rels = f._f["relations"]
        tabs = "\t" * depth
        if not rels:
            if description:
                return [f"{tabs}<feature {attrs(f, mandatory)}>", f"{tabs}\t<description>About {f._f['name']}</description>",
                        f"{tabs}</feature>"]
            return [f"{tabs}<feature {attrs(f, mandatory)}/>"]
        tag = "and"
        if len(rels) == 1 and len(rels[0]._f["children"]) > 1:
            tag = "alt" if (rels[0]._f["card_min"], rels[0]._f["card_max"]) == (1, 1) else "or"
        out = [f"{tabs}<{tag} {attrs(f, mandatory)}>"]
        if graphics:
            out.append(f'{tabs}\t<graphics key="collapsed" value="false"/>')
        if description:
            out.append(f"{tabs}\t<description>About {f._f['name']}</description>")
        for r in rels:
            for c in r._f["children"]:
                m = None if tag != "and" else ((r._f["card_min"], r._f["card_max"]) == (1, 1))
                if tag != "and" and group_flags:
                    m = (len(out) % 2 == 0)          # alternate mandatory="true" / "false" on group children
                out.extend(el(c, m, depth + 1))
        out.append(f"{tabs}</{tag}>")
        return out
    lines = ['<?xml version="1.0" encoding="UTF-8" standalone="no"?>', "<featureModel>"]
    if graphics:
        lines.append('\t<properties><graphics key="legendautolayout" value="true"/></properties>')
    lines.append("\t<struct>")
    lines.extend(el(ref._f["root"], None, 2))
    lines.append("\t</struct>")
    if rules is not None:
        lines.append("\t<constraints>")
        lines.extend(f"\t\t<rule>{r_}</rule>" for r_ in rules)
        lines.append("\t</constraints>")
    elif with_constraints:
        lines.append("\t<constraints>")
        lines.append("\t\t<rule>" + ('<graphics key="x" value="y"/>' if graphics else "") +
                     "<imp><var>Card</var><var>Security</var></imp></rule>")
        lines.append("\t\t<rule><imp><var>Coin</var><not><var>Advanced</var></not></imp></rule>")
        lines.append("\t</constraints>")
    lines.append("</featureModel>")
    return "\n".join(lines)


def featureide(pm: ProgramModel, ctx: Ctx, mb: ModelBuilder) -> None:
    rd = pm.cls("FeatureIDEReader")
    where = loc(rd.unit.path, rd.node)
    ref = ref_model(mb)
    n = 0
    for explicit_false, graphics, attr_order in itertools.product([False, True], repeat=3):
        label = ",".join(k for k, v in (("explicit-false-attributes", explicit_false), ("graphics", graphics),
                                        ("attribute-order", attr_order)) if v) or "plain"
        r = read(pm, "FeatureIDEReader", fide_doc(ref, explicit_false, graphics, attr_order).encode("utf8"))
        n += 1
        key = "mandatory=false" if explicit_false else f"variant:{label}"
        compare(ctx, "C09-FIDE", key if r["raise"] or diff(describe(ref), describe(r["model"]), ctc_names=False,
                                                           ctc_compare="semantic") else f"variant:{label}",
                where, r, ref, f"FeatureIDE document ({label})")
    # mandatory flags on children of or/alt groups are meaningless and must not create relations
    for ef in (False, True):
        r = read(pm, "FeatureIDEReader", fide_doc(ref, ef, False, False, group_flags=True).encode("utf8"))
        compare(ctx, "C09-FIDE", f"group-children-with-mandatory-flag:explicit-false={ef}", where, r, ref,
                "FeatureIDE document whose or/alt children carry a mandatory attribute")
    # <description> elements (FeatureIDE >= 3) inside features and groups carry no model content
    for gr in (False, True):
        r = read(pm, "FeatureIDEReader", fide_doc(ref, False, gr, False, description=True).encode("utf8"))
        compare(ctx, "C09-FIDE", f"feature-descriptions:graphics={gr}", where, r, ref,
                "FeatureIDE document whose features carry <description> elements")
    # missing constraints section
    ref0 = ref_model(mb)
    ref0._f["ctcs"] = []
    r = read(pm, "FeatureIDEReader", fide_doc(ref0, False, False, False, with_constraints=False).encode("utf8"))
    compare(ctx, "C09-FIDE", "no-constraints-section", where, r, ref0, "FeatureIDE document without <constraints>")
    # n-ary rules
    nary = {
        "disj3": ("<disj><var>A</var><var>B</var><var>C</var></disj>", ("OR", "OR")),
        "conj4": ("<conj><var>A</var><var>B</var><var>C</var><var>D</var></conj>", ("AND", "AND", "AND")),
        "nested": ("<imp><conj><var>A</var><var>B</var><var>C</var></conj><disj><var>D</var><not><var>A</var></not>"
                   "<var>B</var></disj></imp>", None),
        "eq": ("<eq><var>A</var><disj><var>B</var><var>C</var></disj></eq>", None),
        "disj-in-conj": ("<conj><disj><var>A</var><var>B</var></disj><var>C</var><var>D</var></conj>", None),
        "conj-in-disj": ("<disj><var>D</var><conj><var>A</var><var>B</var></conj><var>C</var></disj>", None),
        "deep-mixed": ("<conj><var>A</var><disj><var>B</var><conj><var>C</var><var>D</var><var>A</var></conj>"
                       "<var>D</var></disj><var>B</var></conj>", None),
    }
    nary["bare-var"] = ("<var>A</var>", None)
    nary["bare-var-after-graphics"] = ('<graphics key="k" value="v"/><var>B</var>', None)
    nary["negated-var"] = ("<not><var>C</var></not>", None)
    nary["description-then-rule"] = ("<description>why</description><imp><var>A</var><var>B</var></imp>", None)
    for key, (xml, _) in nary.items():
        root = mb.feature("R")
        for nm in "ABCD":
            mb.relation(root, [mb.feature(nm)], 0, 1)
        nn, o = mb.node, mb.op
        expected = {
            "disj3": nn(o("OR"), nn(o("OR"), nn("A"), nn("B")), nn("C")),
            "conj4": nn(o("AND"), nn(o("AND"), nn(o("AND"), nn("A"), nn("B")), nn("C")), nn("D")),
            "nested": nn(o("IMPLIES"), nn(o("AND"), nn(o("AND"), nn("A"), nn("B")), nn("C")),
                         nn(o("OR"), nn(o("OR"), nn("D"), nn(o("NOT"), nn("A"))), nn("B"))),
            "eq": nn(o("EQUIVALENCE"), nn("A"), nn(o("OR"), nn("B"), nn("C"))),
            "disj-in-conj": nn(o("AND"), nn(o("AND"), nn(o("OR"), nn("A"), nn("B")), nn("C")), nn("D")),
            "conj-in-disj": nn(o("OR"), nn(o("OR"), nn("D"), nn(o("AND"), nn("A"), nn("B"))), nn("C")),
            "deep-mixed": nn(o("AND"), nn(o("AND"), nn("A"), nn(o("OR"), nn(o("OR"), nn("B"), nn(o("AND"), nn(o("AND"),
                          nn("C"), nn("D")), nn("A"))), nn("D"))), nn("B")),
            "bare-var": nn("A"), "bare-var-after-graphics": nn("B"), "negated-var": nn(o("NOT"), nn("C")),
            "description-then-rule": nn(o("IMPLIES"), nn("A"), nn("B")),
        }[key]
        refm = mb.model(root, [mb.constraint("1", expected)])
        doc = ('<featureModel><struct><and name="R">' + "".join(f'<feature name="{x}"/>' for x in "ABCD") +
               f"</and></struct><constraints><rule>{xml}</rule></constraints></featureModel>")
        r = read(pm, "FeatureIDEReader", doc.encode("utf8"))
        compare(ctx, "C09-FOLD", f"fide-nary:{key}", where, r, refm, f"FeatureIDE rule {key}")
    # unsupported rule -> library error
    doc = ('<featureModel><struct><and name="R"><feature name="A"/></and></struct><constraints><rule>'
           "<atmost1><var>A</var></atmost1></rule></constraints></featureModel>")
    r = read(pm, "FeatureIDEReader", doc.encode("utf8"))
    ctx.check(r["raise"] is not None and is_library_error(pm, r["raise"][0]),
              "C09-UNSUPPORTED", "fide-unknown-rule", where, "an unknown rule tag is reported as a library error",
              bad=f"unknown FeatureIDE rule tag: {r['raise'][0] if r['raise'] else 'a model is returned'} "
                  f"(expected a FlamaException)")
    # an element the library cannot represent (attributes of the extended FeatureIDE format): an error, not a feature
    doc = ('<featureModel><struct><and name="R"><feature name="A"><attribute name="cost" type="long" value="3"/></feature>'
           '<attribute name="weight" type="long" value="1"/><feature name="B"/></and></struct></featureModel>')
    r = read(pm, "FeatureIDEReader", doc.encode("utf8"))
    rootx = mb.feature("R")
    mb.relation(rootx, [mb.feature("A")], 0, 1)
    mb.relation(rootx, [mb.feature("B")], 0, 1)
    if r["raise"] and is_library_error(pm, r["raise"][0]):
        ctx.ok("C09-UNSUPPORTED", "fide-extended-attribute", where, "an <attribute> element is reported as a library error")
    else:
        compare(ctx, "C09-UNSUPPORTED", "fide-extended-attribute", where, r, mb.model(rootx, []),
                "FeatureIDE document with <attribute> elements of the extended format (either an error or the plain model)")
    ctx.analysed["C09:fide-variants"] = n


# ---- FaMa XML --------------------------------------------------------------------------------------
def fama_doc(ref: AObj, ctc_first: bool = False, extra: bool = False, card_after: bool = False,
             many_ctcs: bool = False, ctc_lines: Optional[list[str]] = None) -> str:
    cnt = itertools.count(1)

    def feat(f: AObj, tag: str, depth: int) -> list[str]:
        tabs = "\t" * depth
        out = [f'{tabs}<{tag} name="{f._f["name"]}">']
        for r in f._f["relations"]:
            kids = r._f["children"]
            card = f'{tabs}\t\t<cardinality min="{r._f["card_min"]}" max="{r._f["card_max"]}"/>'
            if len(kids) == 1:
                out.append(f'{tabs}\t<binaryRelation name="R-{next(cnt)}">')
                if not card_after:
                    out.append(card)
                out.extend(feat(kids[0], "solitaryFeature", depth + 2))
                if card_after:
                    out.append(card)
                out.append(f"{tabs}\t</binaryRelation>")
            else:
                out.append(f'{tabs}\t<setRelation name="R-{next(cnt)}">')
                if not card_after:
                    out.append(card)
                for k in kids:
                    out.extend(feat(k, "groupedFeature", depth + 2))
                if card_after:
                    out.append(card)
                out.append(f"{tabs}\t</setRelation>")
        out.append(f"{tabs}</{tag}>")
        return out
    ctcs = ['\t<requires name="C1" feature="Card" requires="Security"/>',
            '\t<excludes name="C2" feature="Coin" excludes="Advanced"/>']
    if many_ctcs:
        ctcs += ['\t<excludes name="C3" feature="Card" excludes="Security"/>',
                 '\t<requires name="C4" feature="Security" requires="Card"/>',
                 '\t<requires name="C5" feature="Coin" requires="Advanced"/>',
                 '\t<requires name="C6" feature="Card" requires="Security"/>']
    if ctc_lines is not None:
        ctcs = ctc_lines
    lines = ['<?xml version="1.0" encoding="UTF-8" ?>', "<feature-model>"]
    if extra:
        lines.append("\t<description>demo</description>")
    if ctc_first:
        lines.extend(ctcs)
    lines.extend(feat(ref._f["root"], "feature", 1))
    if not ctc_first:
        lines.extend(ctcs)
    lines.append("</feature-model>")
    return "\n".join(lines)


def fama(pm: ProgramModel, ctx: Ctx, mb: ModelBuilder) -> None:
    rd = pm.cls("XMLReader")
    where = loc(rd.unit.path, rd.node)
    ref = ref_model(mb)
    for extra, card_after in itertools.product([False, True], repeat=2):
        label = ",".join(k for k, v in (("extra-elements", extra), ("cardinality-last", card_after)) if v) or "plain"
        r = read(pm, "XMLReader", fama_doc(ref, extra=extra, card_after=card_after).encode("utf8"))
        compare(ctx, "C09-FAMA", f"variant:{label}", where, r, ref, f"FaMa XML document ({label})", sem=False, names=True)
    refm = ref_model_many_ctcs(mb)
    r = read(pm, "XMLReader", fama_doc(refm, many_ctcs=True).encode("utf8"))
    compare(ctx, "C09-FAMA", "several-constraints-on-one-pair", where, r, refm,
            "FaMa XML with requires and excludes on the same pair, a reversed pair and a repeated constraint",
            sem=False, names=True)
    # cardinalities as written, incl. [2..3] and [0..1] groups
    root = mb.feature("R")
    mb.relation(root, [mb.feature("A"), mb.feature("B"), mb.feature("C")], 2, 3)
    mb.relation(root, [mb.feature("D"), mb.feature("E")], 0, 1)
    mb.relation(root, [mb.feature("F")], 0, 1)
    refc = mb.model(root, [])
    doc = fama_doc(refc).replace('\t<requires name="C1" feature="Card" requires="Security"/>\n', "") \
        .replace('\t<excludes name="C2" feature="Coin" excludes="Advanced"/>\n', "")
    r = read(pm, "XMLReader", doc.encode("utf8"))
    compare(ctx, "C09-KEYFLOW", "fama-cardinalities", where, r, refc, "FaMa XML cardinalities [2..3], [0..1]", sem=False)
    # every set relation the format can state, bounds exactly as written, the cardinality element before and after the
    # children ([1..k] with k below the number of children looks like an or-group until the last child is counted)
    from ..card import domain_wf
    nset = 0
    for d in [x for x in domain_wf(ctx.tier) if 2 <= x.n <= 4 and x.max != -1 and x.max <= 4]:
        for card_after in (False, True):
            rootd = mb.feature("R")
            hostd = mb.feature("H")
            mb.relation(rootd, [hostd], 1, 1)
            mb.relation(hostd, [mb.feature(f"k{i}") for i in range(d.n)], d.min, d.max)
            mb.relation(hostd, [mb.feature("solo")], 0, 1)
            refd = mb.model(rootd, [])
            rr = read(pm, "XMLReader", fama_doc(refd, card_after=card_after, ctc_lines=[]).encode("utf8"))
            nset += 1
            compare(ctx, "C09-KEYFLOW", f"fama-set-relation:{d}:{'cardinality-last' if card_after else 'cardinality-first'}",
                    where, rr, refd, f"FaMa XML set relation {d}", sem=False)
    ctx.floor("C09-KEYFLOW", "fama set relations", nset, 20)
    # a constraint element before the feature element
    r = read(pm, "XMLReader", fama_doc(ref, ctc_first=True).encode("utf8"))
    if r["raise"] and is_library_error(pm, r["raise"][0]):
        ctx.ok("C09-FAMA", "constraint-before-feature", where, "reported as a library error")
    else:
        compare(ctx, "C09-FAMA", "constraint-before-feature", where, r, ref,
                "FaMa XML document listing the constraints before the feature tree", sem=False, names=True)
    # no feature at all
    r = read(pm, "XMLReader", b"<feature-model><description>empty</description></feature-model>")
    ctx.check(r["raise"] is not None and is_library_error(pm, r["raise"][0]),
              "C09-UNSUPPORTED", "fama-no-feature", where, "a document without feature is a library error",
              bad=f"FaMa XML without any feature: {r['raise'][0] if r['raise'] else 'a model is returned'} "
                  f"(expected a FlamaException)")


# ---- Glencoe ----------------------------------------------------------------------------------------
def glencoe_doc(ref: AObj, with_note: bool = True, ctcs: bool = True, trees: Optional[list[AObj]] = None) -> dict[str, Any]:
    feats: dict[str, Any] = {}
    ids: dict[int, str] = {}
    for i, f in enumerate(_all(ref._f["root"])):
        ids[id(f)] = f"id_{i}"

    def info(f: AObj, optional: bool) -> None:
        rels = f._f["relations"]
        grp = [r for r in rels if len(r._f["children"]) > 1]
        t = "FEATURE"
        d: dict[str, Any] = {"name": f._f["name"], "optional": optional}
        if grp:
            g = grp[0]
            lo, hi, nn = g._f["card_min"], g._f["card_max"], len(g._f["children"])
            if (lo, hi) == (1, 1):
                t = "XOR"
            elif lo == 1 and hi == nn:
                t = "OR"
            else:
                t = "GENOR"
                d["min"], d["max"] = lo, hi
        d["type"] = t
        if with_note:
            d["note"] = "n"
        feats[ids[id(f)]] = d
        for r in rels:
            for c in r._f["children"]:
                single = len(r._f["children"]) == 1
                info(c, optional=(not single) or (r._f["card_min"] == 0))

    def tree(f: AObj) -> dict[str, Any]:
        kids = [c for r in f._f["relations"] for c in r._f["children"]]
        d: dict[str, Any] = {"id": ids[id(f)]}
        if kids:
            d["children"] = [tree(k) for k in kids]
        return d
    info(ref._f["root"], False)
    name_id = {f._f["name"]: ids[id(f)] for f in _all(ref._f["root"])}
    ft = lambda nme: {"type": "FeatureTerm", "operands": [name_id[nme]]}  # noqa: E731
    cs = {"C1": {"type": "ImpliesTerm", "operands": [ft("Card"), ft("Security")]},
          "C2": {"type": "ExcludesTerm", "operands": [ft("Coin"), ft("Advanced")]}} if ctcs and trees is None else {}

    def term(n: AObj) -> dict[str, Any]:
        d = n._f["data"]
        if isinstance(d, str):
            return ft(d)
        t = {"AND": "AndTerm", "OR": "OrTerm", "IMPLIES": "ImpliesTerm", "REQUIRES": "ImpliesTerm", "EXCLUDES": "ExcludesTerm",
             "EQUIVALENCE": "EquivalentTerm", "NOT": "NotTerm", "XOR": "XorTerm"}[d.name]
        return {"type": t, "operands": [term(c) for c in (n._f["left"], n._f["right"]) if c is not None]}
    for i, t_ in enumerate(trees or []):
        cs[f"K{i + 1}"] = term(t_)
    return {"id": "m", "name": "m", "features": feats, "tree": tree(ref._f["root"]), "constraints": cs}


def _all(f: AObj) -> list[AObj]:
    out = [f]
    for r in f._f["relations"]:
        for c in r._f["children"]:
            out.extend(_all(c))
    return out


def glencoe(pm: ProgramModel, ctx: Ctx, mb: ModelBuilder) -> None:
    rd = pm.cls("GlencoeReader")
    where = loc(rd.unit.path, rd.node)
    ref = ref_model(mb)
    for note in (True, False):
        r = read(pm, "GlencoeReader", json.dumps(glencoe_doc(ref, note)))
        compare(ctx, "C09-GLENCOE", f"variant:note={note}", where, r, ref, "Glencoe document with ids distinct from names",
                names=True)
    # a document without the "constraints" section denotes a model without constraints
    ref_nc = ref_model(mb)
    ref_nc._f["ctcs"] = []
    doc_nc = glencoe_doc(ref_nc, ctcs=False)
    del doc_nc["constraints"]
    r = read(pm, "GlencoeReader", json.dumps(doc_nc))
    compare(ctx, "C09-GLENCOE", "no-constraints-section", where, r, ref_nc, "Glencoe document without a constraints section",
            names=True)
    # GENOR min/max as written; mandatory child inside a group feature
    root = mb.feature("R")
    g = mb.feature("G")
    mb.relation(root, [g], 1, 1)
    mb.relation(g, [mb.feature("A"), mb.feature("B"), mb.feature("C")], 1, 2)
    g2 = mb.feature("G2")
    mb.relation(root, [g2], 0, 1)
    mb.relation(g2, [mb.feature("D"), mb.feature("E"), mb.feature("F")], 2, 2)
    refg = mb.model(root, [])
    doc = glencoe_doc(refg, ctcs=False)
    r = read(pm, "GlencoeReader", json.dumps(doc))
    compare(ctx, "C09-KEYFLOW", "glencoe-genor", where, r, refg, "Glencoe GENOR groups min=1 max=2 / min=2 max=2 of 3")
    # every group cardinality the format can state, exactly as written (bounds 0 included)
    ngen = 0
    for nkids in (2, 3):
        for lo in range(0, nkids + 1):
            for hi in range(max(lo, 1) if lo else 0, nkids + 1):
                if hi < lo or (lo, hi) == (1, 1) or (lo == 1 and hi == nkids):
                    continue
                rootc = mb.feature("R")
                gc = mb.feature("G")
                mb.relation(rootc, [gc], 1, 1)
                mb.relation(gc, [mb.feature(f"k{i}") for i in range(nkids)], lo, hi)
                refc = mb.model(rootc, [])
                rr = read(pm, "GlencoeReader", json.dumps(glencoe_doc(refc, ctcs=False)))
                ngen += 1
                compare(ctx, "C09-KEYFLOW", f"glencoe-genor:min={lo},max={hi},n={nkids}", where, rr, refc,
                        f"Glencoe GENOR group min={lo} max={hi} of {nkids}")
    ctx.floor("C09-KEYFLOW", "glencoe GENOR cardinalities", ngen, 10)
    # unknown feature type -> library error, not a stale / undefined relation
    doc2 = json.loads(json.dumps(doc))
    for v in doc2["features"].values():
        if v["type"] == "GENOR":
            v["type"] = "MUTEX"
    r = read(pm, "GlencoeReader", json.dumps(doc2))
    ctx.check(r["raise"] is not None and is_library_error(pm, r["raise"][0]),
              "C09-UNSUPPORTED", "glencoe-unknown-type", where, "an unknown group type is a library error",
              bad=f"Glencoe feature of unknown type: {r['raise'][0] if r['raise'] else 'a model is returned'} "
                  f"(expected a FlamaException)")
    doc3 = json.loads(json.dumps(doc))
    doc3["constraints"] = {"C1": {"type": "AtMostTerm", "operands": []}}
    r = read(pm, "GlencoeReader", json.dumps(doc3))
    ctx.check(r["raise"] is not None and is_library_error(pm, r["raise"][0]),
              "C09-UNSUPPORTED", "glencoe-unknown-term", where, "an unknown term type is a library error",
              bad=f"Glencoe term of unknown type: {r['raise'][0] if r['raise'] else 'a model is returned'}")


# ---- AFM ----------------------------------------------------------------------------------------------
def afm(pm: ProgramModel, ctx: Ctx, mb: ModelBuilder) -> None:
    rd = pm.cls("AFMReader")
    where = loc(rd.unit.path, rd.node)
    ref = ref_model(mb)
    docs = {
        "compact": ("%Relationships\nShop: Payment Catalog [Search] [Security];\nPayment: [1,3]{Card Cash Coin};\n"
                    "Catalog: [1,1]{Grid List};\nSearch: Basic [Advanced];\n%Attributes\n%Constraints\n"
                    "Card REQUIRES Security;\nCoin EXCLUDES Advanced;\n"),
        "spaced": ("%Relationships\nShop :  Payment  Catalog  [Search]  [Security] ;\nSearch :  Basic  [Advanced] ;\n"
                   "Payment :  [1,3]{Card Cash Coin};\nCatalog :  [1,1]{Grid List};\n\n%Attributes\n\n%Constraints\n"
                   "(Card) REQUIRES (Security);\nCoin EXCLUDES Advanced;\n"),
    }
    with Console():
        for key, text in docs.items():
            r = read(pm, "AFMReader", text)
            compare(ctx, "C09-AFM", f"variant:{key}", where, r, ref, f"AFM document ({key})")
        # constraint forms
        nn, o = mb.node, mb.op
        root = mb.feature("R")
        for nm in "ABC":
            mb.relation(root, [mb.feature(nm)], 0, 1)
        cases = {
            "NOT A OR B": nn(o("OR"), nn(o("NOT"), nn("A")), nn("B")),
            "A IMPLIES (B AND C)": nn(o("IMPLIES"), nn("A"), nn(o("AND"), nn("B"), nn("C"))),
            "A IFF (NOT (B OR C))": nn(o("EQUIVALENCE"), nn("A"), nn(o("NOT"), nn(o("OR"), nn("B"), nn("C")))),
            "A AND B OR C": nn(o("OR"), nn(o("AND"), nn("A"), nn("B")), nn("C")),
        }
        for text, tree in cases.items():
            refm = mb.model(root, [mb.constraint("c", tree)])
            doc = f"%Relationships\nR: [A] [B] [C];\n%Attributes\n%Constraints\n{text};\n"
            r = read(pm, "AFMReader", doc)
            compare(ctx, "C09-AFM", f"constraint:{text}", where, r, refm, f"AFM constraint `{text}`")
        # names that differ only in letter case are different features: each owns its own children and attributes
        rc = mb.feature("R")
        ab, AB = mb.feature("Ab"), mb.feature("AB")
        mb.relation(rc, [ab], 1, 1)
        mb.relation(rc, [AB], 0, 1)
        mb.relation(ab, [mb.feature("X1")], 1, 1)
        mb.relation(AB, [mb.feature("Y1"), mb.feature("Y2")], 1, 1)
        AB._f["attributes"].append(mb.attribute("cost", "5", AB, domain=AObj(
            "Domain", range_list=[AObj("Range", min_value=0, max_value=10)], element_list=[]), null="0"))
        doc = ("%Relationships\nR: Ab [AB];\nAb: X1;\nAB: [1,1]{Y1 Y2};\n%Attributes\nAB.cost: Integer[0 to 10],5,0;\n"
               "%Constraints\n")
        r = read(pm, "AFMReader", doc)
        compare(ctx, "C09-AFM", "names-differing-in-case", where, r, mb.model(rc, []),
                "AFM document with features Ab and AB, each with children of its own")
        # attributes as written
        doc = ("%Relationships\nR: A;\n%Attributes\nA.cost: Integer[0 to 10],5,0;\nA.level: [low,high],low,high;\n"
               "%Constraints\n")
        r = read(pm, "AFMReader", doc)
        rr = mb.feature("R")
        a = mb.feature("A")
        mb.relation(rr, [a], 1, 1)
        a._f["attributes"].append(mb.attribute("cost", "5", a, domain=AObj(
            "Domain", range_list=[AObj("Range", min_value=0, max_value=10)], element_list=[]), null="0"))
        a._f["attributes"].append(mb.attribute("level", "low", a, domain=AObj(
            "Domain", range_list=[], element_list=["low", "high"]), null="high"))
        compare(ctx, "C09-KEYFLOW", "afm-attributes", where, r, mb.model(rr, []), "AFM attribute declarations")
        # unsupported: arithmetic / relational constraints -> library error
        doc = "%Relationships\nR: [A] [B];\n%Attributes\nA.cost: Integer[0 to 10],5,0;\n%Constraints\nA.cost > 3;\n"
        r = read(pm, "AFMReader", doc)
        ctx.check(r["raise"] is not None and is_library_error(pm, r["raise"][0]),
                  "C09-UNSUPPORTED", "afm-relational-constraint", where,
                  "a relational constraint (not representable by the reader) is a library error",
                  bad=f"AFM relational constraint: {r['raise'][0] if r['raise'] else 'a model is returned'}")


def large_documents(pm: ProgramModel, ctx: Ctx, mb: ModelBuilder) -> None:
    """Larger third-party documents (twelve siblings and twelve-member groups, two-digit bounds, twelve levels, thirteen
    rules with six-operand chains and nesting depth five, long names) through the same reference emitters."""
    from ..codec import large_models
    roots = lambda m: [c._f["_ast"]._f["root"] for c in m._f["ctcs"]]  # noqa: E731
    wf = loc(pm.cls("FeatureIDEReader").unit.path, pm.cls("FeatureIDEReader").node)
    for key, m, what, _ in large_models(mb, ("AND", "OR", "IMPLIES", "EQUIVALENCE"), mixed=False, cardinal=False):
        doc = fide_doc(m, False, False, False, rules=[fide_rule(t) for t in roots(m)])
        compare(ctx, "C09-FIDE", f"large:{key}", wf, read(pm, "FeatureIDEReader", doc.encode("utf8")), m,
                f"FeatureIDE document ({what})")
    wx = loc(pm.cls("XMLReader").unit.path, pm.cls("XMLReader").node)
    for key, m, what, _ in large_models(mb, ("REQUIRES", "EXCLUDES")):
        lines, kept = [], []
        for c in m._f["ctcs"]:
            t = c._f["_ast"]._f["root"]
            l_, r_ = t._f["left"], t._f["right"]
            if t._f["data"].name in ("REQUIRES", "EXCLUDES") and isinstance(l_._f["data"], str) and isinstance(r_._f["data"], str):
                tag = t._f["data"].name.lower()
                lines.append(f'\t<{tag} name="{c._f["name"]}" feature="{l_._f["data"]}" {tag}="{r_._f["data"]}"/>')
                kept.append(c)
        m._f["ctcs"] = kept                       # FaMa XML carries requires / excludes between two features only
        doc = fama_doc(m, ctc_lines=lines)
        compare(ctx, "C09-FAMA", f"large:{key}", wx, read(pm, "XMLReader", doc.encode("utf8")), m,
                f"FaMa XML document ({what})", sem=False, names=True)
    wg = loc(pm.cls("GlencoeReader").unit.path, pm.cls("GlencoeReader").node)
    for key, m, what, _ in large_models(mb, ("AND", "OR", "IMPLIES", "EQUIVALENCE", "EXCLUDES"), mixed=False):
        doc = glencoe_doc(m, trees=roots(m))
        compare(ctx, "C09-GLENCOE", f"large:{key}", wg, read(pm, "GlencoeReader", json.dumps(doc)), m,
                f"Glencoe document ({what})")
    wa = loc(pm.cls("AFMReader").unit.path, pm.cls("AFMReader").node)
    with Console():
        for key, m, what, _ in large_models(mb, ("AND", "OR", "IMPLIES", "EQUIVALENCE", "REQUIRES", "EXCLUDES"),
                                            rename=lambda s_: (s_[0].upper() + s_[1:]).replace("_", "")):
            compare(ctx, "C09-AFM", f"large:{key}", wa, read(pm, "AFMReader", afm_doc(m)), m, f"AFM document ({what})")


def polarity_documents(pm: ProgramModel, ctx: Ctx, mb: ModelBuilder) -> None:
    """Every binary operator of a format over A / !A and B / !B, negated, operands exchanged, as third-party documents (a
    reader with a shortcut for 'simple' constraints must not lose a negation or a direction)."""
    from ..codec import ctc_model, polarity_trees
    roots = lambda m: [c._f["_ast"]._f["root"] for c in m._f["ctcs"]]  # noqa: E731
    wf = loc(pm.cls("FeatureIDEReader").unit.path, pm.cls("FeatureIDEReader").node)
    for op in ("AND", "OR", "IMPLIES", "EQUIVALENCE"):
        m = ctc_model(mb, polarity_trees(mb, op))
        doc = fide_doc(m, False, False, False, rules=[fide_rule(t) for t in roots(m)])
        compare(ctx, "C09-FIDE", f"polarities:{op}", wf, read(pm, "FeatureIDEReader", doc.encode("utf8")), m,
                f"FeatureIDE rules with {op} over plain and negated operands")
    wg = loc(pm.cls("GlencoeReader").unit.path, pm.cls("GlencoeReader").node)
    for op in ("AND", "OR", "IMPLIES", "EQUIVALENCE", "EXCLUDES", "XOR"):
        m = ctc_model(mb, polarity_trees(mb, op))
        compare(ctx, "C09-GLENCOE", f"polarities:{op}", wg, read(pm, "GlencoeReader", json.dumps(glencoe_doc(m, trees=roots(m)))), m,
                f"Glencoe terms with {op} over plain and negated operands")
    wa = loc(pm.cls("AFMReader").unit.path, pm.cls("AFMReader").node)
    with Console():
        for op in ("AND", "OR", "IMPLIES", "EQUIVALENCE", "REQUIRES", "EXCLUDES"):
            m = ctc_model(mb, polarity_trees(mb, op))
            compare(ctx, "C09-AFM", f"polarities:{op}", wa, read(pm, "AFMReader", afm_doc(m)), m,
                    f"AFM constraints with {op} over plain and negated operands")


def nary_sweep(pm: ProgramModel, ctx: Ctx, mb: ModelBuilder) -> None:
    """n-ary terms with 2..13 operands (both parities, more than a power of two, two digits): every operand is kept."""
    wf = loc(pm.cls("FeatureIDEReader").unit.path, pm.cls("FeatureIDEReader").node)
    wg = loc(pm.cls("GlencoeReader").unit.path, pm.cls("GlencoeReader").node)
    nn, o = mb.node, mb.op
    for k in range(2, 14):
        names = [f"N{i:02d}" for i in range(k)]

        def model(opn: str) -> AObj:
            root = mb.feature("R")
            for nm in names:
                mb.relation(root, [mb.feature(nm)], 0, 1)
            cur = nn(names[0])
            for nm in names[1:]:
                cur = nn(o(opn), cur, nn(nm))
            return mb.model(root, [mb.constraint("1", cur)])
        for opn, tag in (("AND", "conj"), ("OR", "disj")):
            refm = model(opn)
            doc = ('<featureModel><struct><and name="R">' + "".join(f'<feature name="{x}"/>' for x in names) +
                   f"</and></struct><constraints><rule><{tag}>" + "".join(f"<var>{x}</var>" for x in names) +
                   f"</{tag}></rule></constraints></featureModel>")
            compare(ctx, "C09-FOLD", f"fide-nary:{tag}:{k}-operands", wf, read(pm, "FeatureIDEReader", doc.encode("utf8")), refm,
                    f"FeatureIDE <{tag}> rule with {k} operands")
        for opn, term in (("AND", "AndTerm"), ("OR", "OrTerm")):
            refm = model(opn)
            doc = glencoe_doc(refm, trees=[])
            ids = {v["name"]: k_ for k_, v in doc["features"].items()}
            doc["constraints"] = {"K1": {"type": term, "operands": [{"type": "FeatureTerm", "operands": [ids[x]]} for x in names]}}
            compare(ctx, "C09-FOLD", f"glencoe-nary:{term}:{k}-operands", wg, read(pm, "GlencoeReader", json.dumps(doc)), refm,
                    f"Glencoe {term} with {k} operands")


def afm_doc(m: AObj) -> str:
    """AFM text of a model: one line per parent (`P: M [O] [a,b]{X Y};`), fully parenthesised constraints."""
    lines = ["%Relationships"]
    for f in _all(m._f["root"]):
        parts = []
        for r in f._f["relations"]:
            kids = [c._f["name"] for c in r._f["children"]]
            lo, hi = r._f["card_min"], r._f["card_max"]
            if len(kids) == 1:
                parts.append(kids[0] if lo == 1 else f"[{kids[0]}]")
            else:
                parts.append(f"[{lo},{hi}]{{{' '.join(kids)}}}")
        if parts:
            lines.append(f"{f._f['name']}: {' '.join(parts)};")

    def ex(n: AObj) -> str:
        d = n._f["data"]
        if isinstance(d, str):
            return d
        if d.name == "NOT":
            return f"NOT ({ex(n._f['left'])})"
        word = {"AND": "AND", "OR": "OR", "IMPLIES": "IMPLIES", "EQUIVALENCE": "IFF", "REQUIRES": "REQUIRES",
                "EXCLUDES": "EXCLUDES"}[d.name]
        return f"({ex(n._f['left'])}) {word} ({ex(n._f['right'])})"
    lines += ["%Attributes", "%Constraints"] + [ex(c._f["_ast"]._f["root"]) + ";" for c in m._f["ctcs"]]
    return "\n".join(lines) + "\n"


def histories(pm: ProgramModel, ctx: Ctx, mb: ModelBuilder) -> None:
    """What a document denotes does not depend on what was read before it in the process: per reader, a document (with
    and without a constraints section) is read, the caller edits the model it was given (a constraint appended, a child
    attached, a flag flipped), and the same document is read again by a new reader object; then the file is replaced and
    the first reader object is asked again."""
    import json as _json
    from ..absint import AbsMutation, AbsRaise, reset_global_state
    from ..codec import new_interp
    ref = ref_model(mb)
    bare = ref_model(mb)
    bare._f["ctcs"] = []
    docs: dict[str, tuple[str, Any, Any]] = {
        "FeatureIDEReader": ("FIDE", fide_doc(ref, False, False, False).encode("utf8"),
                             fide_doc(bare, False, False, False, with_constraints=False).encode("utf8")),
        "XMLReader": ("FAMA", fama_doc(ref).encode("utf8"), fama_doc(bare).encode("utf8")),
        "GlencoeReader": ("GLENCOE", _json.dumps(glencoe_doc(ref)), _json.dumps(glencoe_doc(bare, ctcs=False))),
        "AFMReader": ("AFM", afm_doc(ref), afm_doc(bare)),
    }
    from .c02 import after_failure
    after_failure(pm, ctx, {r_: [("reference", v_[1], None)] for r_, v_ in docs.items() if pm.has_cls(r_)}, rule="C09-REUSE")
    for reader, (tag, with_ctcs, without) in docs.items():
        if not pm.has_cls(reader):
            continue
        ci = pm.cls(reader)
        tr = pm.method(ci, "transform")
        where = loc(ci.unit.path, ci.node)
        for variant, doc, other in (("with-constraints", with_ctcs, without), ("without-constraints", without, with_ctcs)):
            reset_global_state()
            vfs = VFS()
            vfs.put(PATH, doc)
            it = new_interp(pm, vfs)
            both(it, vfs)
            key = f"read-edit-read:{variant}"
            try:
                r1 = it.eval_call_class(ci, [PATH])
                m1 = it.call(tr, [r1])
                before = describe(m1)
                # the caller works on what it was given
                n_, o_ = mb.node, mb.op
                root = m1._f["root"]
                kids = [c for r in root._f["relations"] for c in r._f["children"]]
                m1._f["ctcs"].append(mb.constraint("mine", n_(o_("IMPLIES"), n_(kids[0]._f["name"]), n_(root._f["name"]))))
                mb.relation(root, [mb.feature("MineOnly")], 0, 1)
                kids[0]._f["is_abstract"] = not kids[0]._f.get("is_abstract")
                r2 = it.eval_call_class(ci, [PATH])
                m2 = it.call(tr, [r2])
                ds = diff(before, describe(m2), ctc_names=True)
                ctx.check(not ds and m2 is not m1, f"C09-{tag}", key, where,
                          "a document read again after the caller edited the first result denotes what it denoted before",
                          bad=f"{reader}: the same document, read again after the caller edited the model of the first reading, "
                              f"comes back changed: {ds[0][1] if ds else 'the very object handed out before'}")
            except (AbsRaise, AbsMutation) as exc:
                ctx.violation(f"C09-{tag}", key, where, f"{reader}: reading a valid document a second time raises {exc.what}")
                continue
            try:
                vfs.put(PATH, other)
                fresh = run_reader(pm, reader, vfs, setup=both)
                m3 = it.call(tr, [r1])
                if fresh["model"] is not None:
                    ds = diff(describe(fresh["model"]), describe(m3), ctc_names=True)
                    ctx.check(not ds, f"C09-{tag}", f"same-reader-object:file-replaced:{variant}", where,
                              "a reader object asked again after its file was replaced reads the document that is there now",
                              bad=f"{reader}: the reader object used before, asked again after the file was replaced, returns a "
                                  f"model the new document does not denote: {ds[0][1] if ds else ''}")
            except (AbsRaise, AbsMutation) as exc:
                ctx.info(f"C09-{tag}", f"same-reader-object:file-replaced:{variant}", where,
                         f"{reader}: a reader object asked to transform() a second time declines: {exc.what}")
    reset_global_state()


def check(pm: ProgramModel, ctx: Ctx) -> None:
    ctx.explanation = (
        "The four readers' transform() are evaluated from source on documents written by "
        "independent reference emitters (one per format, written against the format definitions: "
        "FeatureIDE XML, FaMa XML, Glencoe JSON, AFM text) from a reference abstract model, using "
        "the syntactic freedom of each format (optional attributes present/absent with either "
        "value, attribute order, graphics/description elements, cardinality element position, "
        "ids distinct from names, whitespace, parentheses). Decided per document: the abstract "
        "model read equals the model the document denotes (constraints by truth table) and is "
        "well-formed; n-ary and/or rules keep all operands; a missing constraints section means no "
        "constraints; cardinalities are read as written; constructs the library cannot represent "
        "(unknown rule / term / group type, relational AFM constraint, document without feature) "
        "reach a raise of FlamaException.")
    ctx.not_decided = ["the 1299 shipped FaMa XML files against their Betty .statistics (runtime corpus)",
                       "documents beyond the reference emitters' constructs"]
    mb = ModelBuilder(pm)
    featureide(pm, ctx, mb)
    fama(pm, ctx, mb)
    glencoe(pm, ctx, mb)
    afm(pm, ctx, mb)
    large_documents(pm, ctx, mb)
    nary_sweep(pm, ctx, mb)
    polarity_documents(pm, ctx, mb)
    histories(pm, ctx, mb)
    ctx.floor("C09", "obligations", len(ctx.obligations), 30)
