"""C17 — metrics report is total, self-consistent and agrees with the operations (DESIGN §5 C17)."""
from __future__ import annotations

import statistics
from typing import Any, Optional

from ..absint import AObj, AbsMutation, AbsRaise, Interp
from ..card import D, kind
from ..core import AnalysisError, Ctx, loc
from ..logic import names_of, opname
from ..model import ModelBuilder, rich_model
from ..pm import ProgramModel
from .c16 import TREES, build_tree, tree_stats

# metric -> the listing it is a share of (property statement / documentation of each metric)
SHARE_OF = {
    "Abstract features": "Features", "Concrete features": "Features", "Leaf features": "Features",
    "Compound features": "Features", "Concrete compound features": "Concrete features",
    "Concrete leaf features": "Concrete features", "Abstract compound features": "Abstract features",
    "Abstract leaf features": "Abstract features", "Root feature": "Features",
    "Top features": "Features", "Solitary features": "Features", "Grouped features": "Features",
    "Mandatory features": "Solitary features", "Optional features": "Solitary features",
    "Feature groups": "Tree relationships", "Alternative groups": "Feature groups",
    "Or groups": "Feature groups", "Mutex groups": "Feature groups",
    "Cardinality groups": "Feature groups", "Simple constraints": "Cross-tree constraints",
    "Requires constraints": "Simple constraints", "Excludes constraints": "Simple constraints",
    "Complex constraints": "Cross-tree constraints",
    "Pseudo-complex constraints": "Complex constraints",
    "Strict-complex constraints": "Complex constraints", "Features in constraints": "Features",
}
RATIO_PRECISION = {"Features in constraints": 2}


def features_of(fm: AObj) -> list[AObj]:
    out = [fm._f["root"]]
    i = 0
    while i < len(out):
        for r in out[i]._f["relations"]:
            out.extend(r._f["children"])
        i += 1
    return out


def rels_of(fm: AObj) -> list[AObj]:
    return [r for f in features_of(fm) for r in f._f["relations"]]


def dk(r: AObj) -> D:
    return D(int(r._f["card_min"]), int(r._f["card_max"]), len(r._f["children"]))


def own_relation(f: AObj) -> Optional[AObj]:
    p = f._f["parent"]
    if p is None:
        return None
    for r in p._f["relations"]:
        if any(c is f for c in r._f["children"]):
            return r
    return None


def reference(fm: AObj) -> dict[str, Any]:
    """Definitions computed directly on the abstract tree (names as sets / numbers)."""
    fs = features_of(fm)
    rs = rels_of(fm)
    nm = lambda xs: sorted(f._f["name"] for f in xs)  # noqa: E731
    leaf = [f for f in fs if not f._f["relations"]]
    comp = [f for f in fs if f._f["relations"]]
    abst = [f for f in fs if f._f["is_abstract"]]
    conc = [f for f in fs if not f._f["is_abstract"]]
    nonroot = [f for f in fs if f._f["parent"] is not None]
    grouped = [f for f in nonroot if len(own_relation(f)._f["children"]) > 1]   # type: ignore[union-attr]
    solitary = [f for f in nonroot if len(own_relation(f)._f["children"]) == 1]  # type: ignore[union-attr]
    depth = {}
    for f in fs:
        d, p = 0, f._f["parent"]
        while p is not None:
            d, p = d + 1, p._f["parent"]
        depth[id(f)] = d
    leaf_depths = [depth[id(f)] for f in leaf]
    nchild = lambda f: sum(len(r._f["children"]) for r in f._f["relations"])  # noqa: E731
    grp = lambda k: [f for f in fs if any(kind(dk(r)) == k for r in f._f["relations"])]  # noqa: E731
    ref: dict[str, Any] = {
        "Features": nm(fs), "Abstract features": nm(abst), "Concrete features": nm(conc),
        "Leaf features": nm(leaf), "Compound features": nm(comp),
        "Concrete compound features": nm([f for f in conc if f in comp]),
        "Concrete leaf features": nm([f for f in conc if f in leaf]),
        "Abstract compound features": nm([f for f in abst if f in comp]),
        "Abstract leaf features": nm([f for f in abst if f in leaf]),
        "Tree relationships": len(rs), "Root feature": fm._f["root"]._f["name"],
        "Top features": nm([c for r in fm._f["root"]._f["relations"] for c in r._f["children"]]),
        "Solitary features": nm(solitary), "Grouped features": nm(grouped),
        "Mandatory features": nm([f for f in nonroot if kind(dk(own_relation(f))) == "mandatory"]),  # type: ignore[arg-type]
        "Optional features": nm([f for f in nonroot if kind(dk(own_relation(f))) == "optional"]),  # type: ignore[arg-type]
        "Feature groups": nm([f for f in fs if any(len(r._f["children"]) > 1 for r in f._f["relations"])]),
        "Alternative groups": nm(grp("alternative")), "Or groups": nm(grp("or")),
        "Mutex groups": nm(grp("mutex")), "Cardinality groups": nm(grp("cardinal")),
        "Max children per feature": max(nchild(f) for f in fs),
        "Avg children per feature": round(sum(nchild(f) for f in fs) / len(fs), 2),
        "Depth of tree": max(leaf_depths), "Max depth of tree": max(leaf_depths),
        "Mean depth of tree": round(statistics.mean(leaf_depths), 2),
        "Median depth of tree": round(statistics.median(leaf_depths), 2),
        "Cross-tree constraints": len(fm._f["ctcs"]),
    }
    if comp:
        ref["Min children per feature"] = min(nchild(f) for f in comp)
        ref["Branching factor"] = round(sum(nchild(f) for f in comp) / len(comp), 2)
    per = []
    for f in fs:
        per.append(sum(1 for c in fm._f["ctcs"] if f._f["name"] in _ctc_names(c)))
    ref["Min constraints per feature"] = min(per)
    ref["Max constraints per feature"] = max(per)
    ref["Avg constraints per feature"] = round(statistics.mean(per), 2)
    ref["Features in constraints"] = sorted({n for c in fm._f["ctcs"] for n in _ctc_names(c)})
    return ref


def _ctc_names(c: AObj) -> set[str]:
    out = set()
    for n in names_of(c._f["_ast"]._f["root"]):
        if not n.startswith("'") and not n.lstrip("-").replace(".", "").isdigit():
            out.add(n)
    return out


# sizes that follow from the definitions for constraints whose class is beyond doubt: k13, k14, k15 convert to simple
# constraints; the three `S00 | Sxx` and k12 (a clause of three literals) do not
EXPECT_SIZES = {"twelve-constraints": {"Pseudo-complex constraints": 3, "Strict-complex constraints": 4,
                                       "Complex constraints": 7, "Simple constraints": 8}}


def models(mb: ModelBuilder) -> dict[str, AObj]:
    ms = {"rich": rich_model(mb), "rich-noctc": rich_model(mb, ctcs=False)}
    for k in ("root-only", "one-child", "bushy", "two-groups", "wide-12", "nested-groups", "five-groups", "deep-9"):
        ms[k] = mb.model(build_tree(mb, TREES[k]), [])
    # a model as a reader builds it (the FeatureIDE document flags the members of its groups `mandatory`, which means nothing)
    from .c16 import reader_models
    ms["read-by-FeatureIDEReader"] = reader_models(mb.pm, mb)["read-by-FeatureIDEReader"]
    # abstract and concrete features among leaves and compounds in different numbers (2 abstract compound, 3 abstract leaves,
    # 2 concrete compound, 4 concrete leaves): a share computed the wrong way round, or over the wrong listing, shows
    F_ = mb.feature
    ar = F_("AR", is_abstract=True)
    ac, cc1, cc2 = F_("AC", is_abstract=True), F_("CC1"), F_("CC2")
    mb.relation(ar, [ac], 1, 1)
    mb.relation(ar, [cc1], 0, 1)
    mb.relation(ar, [cc2], 0, 1)
    mb.relation(ac, [F_("al1", is_abstract=True), F_("al2", is_abstract=True), F_("cl1")], 1, 2)
    mb.relation(cc1, [F_("al3", is_abstract=True)], 1, 1)
    mb.relation(cc1, [F_("cl2")], 0, 1)
    mb.relation(cc2, [F_("cl3"), F_("cl4")], 1, 1)
    ms["abstract-mix"] = mb.model(ar, [])
    # twelve constraints of every class over a wide tree, one feature named in eleven of them (two-digit counts)
    hub = mb.feature("Hub")
    spokes = [mb.feature(f"S{i:02d}") for i in range(12)]
    for i, sp in enumerate(spokes):
        mb.relation(hub, [sp], 0, 1)
    n_, op_ = mb.node, mb.op
    many = [mb.constraint(f"k{i}", n_(op_(("REQUIRES", "EXCLUDES", "IMPLIES", "OR")[i % 4]), n_("S00"), n_(f"S{i:02d}")))
            for i in range(1, 12)]
    many.append(mb.constraint("k12", n_(op_("AND"), n_(op_("OR"), n_("S01"), n_(op_("NOT"), n_("S02"))),
                                        n_(op_("IMPLIES"), n_("S03"), n_(op_("AND"), n_("S04"), n_(op_("OR"), n_("S05"), n_("S06")))))))
    # conjunctions of simple constraints nested to either side (six conjuncts), and an implication of a conjunction: each
    # is convertible to a set of simple constraints, whatever the nesting
    simple = lambda i: n_(op_(("REQUIRES", "EXCLUDES", "IMPLIES")[i % 3]), n_(f"S{i:02d}"), n_(f"S{i + 1:02d}"))  # noqa: E731
    right = simple(5)
    for i in (4, 3, 2, 1, 0):
        right = n_(op_("AND"), simple(i), right)
    left = simple(0)
    for i in (1, 2, 3, 4, 5):
        left = n_(op_("AND"), left, simple(i))
    many += [mb.constraint("k13", right), mb.constraint("k14", left),
             mb.constraint("k15", n_(op_("IMPLIES"), n_("S01"), n_(op_("AND"), n_("S02"), n_("S03"))))]
    ms["twelve-constraints"] = mb.model(hub, many)
    # one feature carrying several group relations of different kinds (features with a group != group relations)
    r2 = mb.feature("Multi")
    mb.relation(r2, [mb.feature("a1"), mb.feature("a2")], 1, 1)
    mb.relation(r2, [mb.feature("b1"), mb.feature("b2")], 1, 1)
    mb.relation(r2, [mb.feature("o1"), mb.feature("o2"), mb.feature("o3")], 1, 3)
    h = mb.feature("Host")
    mb.relation(r2, [h], 0, 1)
    mb.relation(h, [mb.feature("m1"), mb.feature("m2")], 0, 1)
    mb.relation(h, [mb.feature("c1"), mb.feature("c2"), mb.feature("c3")], 2, 3)
    ms["several-groups-per-feature"] = mb.model(r2, [])
    # a parent with a mandatory child next to a group, and nothing else solitary
    r = mb.feature("R")
    mb.relation(r, [mb.feature("m")], 1, 1)
    mb.relation(r, [mb.feature("g1"), mb.feature("g2")], 1, 1)
    ms["mandatory-beside-group"] = mb.model(r, [])
    # groups that select all their members ([n..n] over n children) are groups: their members are grouped, not mandatory
    r = mb.feature("R")
    mb.relation(r, [mb.feature("and1"), mb.feature("and2")], 2, 2)
    hh = mb.feature("H")
    mb.relation(r, [hh], 1, 1)
    mb.relation(hh, [mb.feature("t1"), mb.feature("t2"), mb.feature("t3")], 3, 3)
    mb.relation(hh, [mb.feature("u1"), mb.feature("u2"), mb.feature("u3")], 1, -1)
    ms["select-all-groups"] = mb.model(r, [])
    # an even number of leaves whose two middle depths differ (the median lies between them), and four leaves 1,2,2,3
    r = mb.feature("R")
    mb.relation(r, [mb.feature("A")], 0, 1)
    b_ = mb.feature("B")
    mb.relation(r, [b_], 1, 1)
    mb.relation(b_, [mb.feature("C")], 1, 1)
    ms["leaf-depths-1-2"] = mb.model(r, [])
    r = mb.feature("R")
    mb.relation(r, [mb.feature("L1")], 0, 1)
    x_, y_ = mb.feature("X"), mb.feature("Y")
    mb.relation(r, [x_], 1, 1)
    mb.relation(x_, [mb.feature("L2")], 1, 1)
    mb.relation(x_, [y_], 0, 1)
    mb.relation(y_, [mb.feature("L3"), mb.feature("L4")], 1, 1)
    ms["leaf-depths-1-2-3-3"] = mb.model(r, [])
    # constraints that are equal under Constraint.__eq__ (same text up to case, or stated twice) are
    # still separate constraints of the model: each counts for the features it names
    app = mb.feature("App")
    mb.relation(app, [mb.feature("Log")], 0, 1)
    mb.relation(app, [mb.feature("Net")], 0, 1)
    mb.relation(app, [mb.feature("log")], 0, 1)
    mb.relation(app, [mb.feature("net")], 0, 1)
    mb.relation(app, [mb.feature("A")], 0, 1)
    mb.relation(app, [mb.feature("B")], 0, 1)
    n, o_ = mb.node, mb.op
    ms["look-alike-constraints"] = mb.model(app, [
        mb.constraint("c1", n(o_("IMPLIES"), n("Log"), n("Net"))),
        mb.constraint("c2", n(o_("IMPLIES"), n("log"), n("net"))),
        mb.constraint("c3", n(o_("IMPLIES"), n("A"), n("B"))),
        mb.constraint("c4", n(o_("IMPLIES"), n("A"), n("B")))])
    return ms


def check(pm: ProgramModel, ctx: Ctx) -> None:
    ctx.explanation = (
        "The whole report pipeline - FMMetrics, its 40 decorated metric methods discovered through "
        "the evaluated decorator, the dependency's Metrics.execute / get_ratio / construct_result "
        "read from source - is evaluated as one formula over abstract models (root-only, single "
        "edge, bushy tree, a model realising every relation kind / abstract features / every "
        "constraint class with and without constraints, a mandatory child beside a group). "
        "Decided on each: no metric raises; each name once; size = len(result); ratio = "
        "round(size / size(listing it is a share of), precision) and within [0,1]; the defining "
        "identities (abstract/concrete, leaf/compound, solitary/grouped with mandatory/optional "
        "inside solitary, requires/excludes within simple, simple/complex within logical, "
        "pseudo/strict within complex); every metric equals its definition computed on the "
        "abstract tree; duplicates of stand-alone operations agree with them; the filter selects "
        "by method name; a second analysis on the same object reports only the second model.")
    ctx.not_decided = ["numeric agreement on models outside the abstract family",
                       "pseudo/strict classification of individual constraints (C18)"]
    rule = "C17"
    fmm = pm.cls("FMMetrics")
    ex = pm.method(fmm, "execute")
    gr = pm.method(fmm, "get_result")
    if ex is None or gr is None:
        raise AnalysisError(rule, "anchor vanished: FMMetrics.execute/get_result")
    mb = ModelBuilder(pm)
    where_cls = loc(fmm.unit.path, fmm.node)
    metric_meths: list[str] = []

    def report(fm: AObj, flt: Optional[list[str]] = None) -> Any:
        it = Interp(pm, max_depth=60)
        try:
            op = it.eval_call_class(fmm)
            if flt is not None:
                it.call(pm.method(fmm, "only_these_metrics"), [op, flt])
            it.call(ex, [op, fm])
            res = it.call(gr, [op])
            if not isinstance(res, list) or not all(isinstance(e, dict) and {"name", "result", "size", "ratio"} <= set(e) for e in res):
                odd = res if not isinstance(res, list) else next(e for e in res if not (isinstance(e, dict) and {"name", "result", "size", "ratio"} <= set(e)))
                return ("raise", f"the report is not a list of metric entries (name / result / size / ratio): it holds {str(odd)[:80]}", "")
            return res
        except AbsRaise as exc:
            return ("raise", exc.what, exc.where)
        except AbsMutation as exc:
            return ("raise", "mutation " + exc.what, exc.where)

    # the metric methods: the decorated methods of the class that the report mechanism treats as metrics - marked by a
    # decorator named after metrics, or (whatever the decorator is called) answering a filter on their name with one entry
    probe = rich_model(mb)
    for meth in Interp(pm).class_names(fmm):                # the class's own methods and those of its package bases / mixins
        mfi = pm.method(fmm, meth)
        if mfi is None:
            continue
        decs = mfi.decorators()
        if not decs or meth.endswith(".setter") or set(decs) & {"staticmethod", "classmethod", "property", "abstractmethod"}:
            continue
        if any("metric" in d.split("(")[0] for d in decs):
            metric_meths.append(meth)
            continue
        r1 = report(probe, [meth])
        if isinstance(r1, list) and len(r1) == 1:
            metric_meths.append(meth)
    nmetrics = len(metric_meths)
    ctx.floor(rule, "metric methods", nmetrics, 36)
    for mname, fm in models(mb).items():
        rep = report(fm)
        if isinstance(rep, tuple):
            # find which metric raises: evaluate the metric methods one by one
            culprits = []
            for meth in metric_meths:
                if True:
                    r1 = report(fm, [meth])
                    if isinstance(r1, tuple):
                        culprits.append((meth, r1[1], r1[2]))
            if not culprits:
                culprits = [("report", rep[1], rep[2])]
            for meth, what, wh in culprits:
                ctx.violation("C17-TOTAL", f"raises:{meth}:{mname}", wh or where_cls,
                              f"metric {meth} raises on the well-formed model '{mname}': {what}")
            continue
        if not isinstance(rep, list) or not all(isinstance(e, dict) and {"name", "result", "size", "ratio"} <= set(e) for e in rep):
            odd = rep if not isinstance(rep, list) else [e for e in rep if not (isinstance(e, dict) and {"name", "result", "size", "ratio"} <= set(e))][:2]
            ctx.violation("C17-TOTAL", f"shape:{mname}", where_cls,
                          f"the report of '{mname}' is not a list of metric entries (name / result / size / ratio): {str(odd)[:120]}")
            continue
        ctx.ok("C17-TOTAL", f"no-raise:{mname}", where_cls, f"report of '{mname}' is produced "
               f"({len(rep)} entries)")
        by_name: dict[str, dict[str, Any]] = {}
        dup = []
        for e in rep:
            if e["name"] in by_name:
                dup.append(e["name"])
            by_name[e["name"]] = e
        ctx.check(not dup and len(rep) == nmetrics, "C17-NAMES", f"unique:{mname}", where_cls,
                  f"{len(rep)} metrics, each name once", bad=f"'{mname}': {len(rep)} entries for "
                  f"{nmetrics} metric methods, duplicated names {dup[:3]}")
        # size / ratio --------------------------------------------------------------------------
        bad_size, bad_ratio = [], []
        for name, e in by_name.items():
            res, size, ratio = e["result"], e["size"], e["ratio"]
            if isinstance(res, list):
                if size is not None and size != len(res):
                    bad_size.append(f"{name}: size {size} but {len(res)} listed")
                if size is None and name in SHARE_OF:
                    bad_size.append(f"{name}: listing without size")
            elif size is not None and name == "Root feature" and size != 1:
                bad_size.append(f"{name}: size {size}")
            if ratio is not None:
                if not (0 <= ratio <= 1):
                    bad_ratio.append(f"{name}: ratio {ratio} outside [0,1]")
                den = SHARE_OF.get(name)
                if den is None or den not in by_name:
                    bad_ratio.append(f"{name}: ratio given but the listing it is a share of is unknown")
                    continue
                dsize = by_name[den]["size"]
                ssize = size if size is not None else (len(res) if isinstance(res, list) else 1)
                exp = 0.0 if not dsize else float(round(ssize / dsize, RATIO_PRECISION.get(name, 4)))
                if abs(ratio - exp) > 1e-9:
                    bad_ratio.append(f"{name}: ratio {ratio}, but size {ssize} / size of '{den}' "
                                     f"{dsize} = {exp}")
            elif name in SHARE_OF:
                bad_ratio.append(f"{name}: no ratio reported")
        for b in bad_size:
            ctx.violation("C17-SIZE", f"size:{b.split(':')[0]}", where_cls, f"'{mname}': {b}")
        if not bad_size:
            ctx.ok("C17-SIZE", f"size:{mname}", where_cls, "every listing's size is its length")
        for b in bad_ratio:
            ctx.violation("C17-RATIO", f"ratio:{b.split(':')[0]}", where_cls, f"'{mname}': {b}")
        if not bad_ratio:
            ctx.ok("C17-RATIO", f"ratio:{mname}", where_cls,
                   "every ratio = size / size of the listing it is a share of, within [0,1]")
        # identities --------------------------------------------------------------------------------
        S = lambda n: set(by_name[n]["result"]) if n in by_name and isinstance(by_name[n]["result"], list) else None  # noqa: E731
        L = lambda n: by_name[n]["result"] if n in by_name else None  # noqa: E731

        def split(whole: Any, a: str, b: str, key: str) -> None:
            A, B = S(a), S(b)
            if A is None or B is None or whole is None:
                ctx.violation("C17-SPLITS", f"split:{key}", where_cls, f"'{mname}': metric missing for {key}")
                return
            ok = (A | B) == set(whole) and not (A & B) and len(L(a)) + len(L(b)) == len(whole)
            ctx.check(ok, "C17-SPLITS", f"split:{key}:{mname}" if ok else f"split:{key}", where_cls,
                      f"{a} and {b} split {key}",
                      bad=f"'{mname}': {a} {sorted(A)} and {b} {sorted(B)} do not split {key} "
                          f"{sorted(set(whole))}")

        def inside(a: str, b: str) -> None:
            A, B = S(a), S(b)
            if A is None or B is None:
                return
            ok = A <= B
            ctx.check(ok, "C17-SPLITS", f"inside:{a}<{b}:{mname}" if ok else f"inside:{a}<{b}", where_cls,
                      f"{a} lies inside {b}", bad=f"'{mname}': {a} {sorted(A - B)} not inside {b}")
        feats = L("Features")
        split(feats, "Abstract features", "Concrete features", "features(abstract/concrete)")
        split(feats, "Leaf features", "Compound features", "features(leaf/compound)")
        root_name = L("Root feature")
        nonroot = [f for f in (feats or []) if f != root_name]
        split(nonroot, "Solitary features", "Grouped features", "non-root(solitary/grouped)")
        inside("Mandatory features", "Solitary features")
        inside("Optional features", "Solitary features")
        split(L("Simple constraints"), "Requires constraints", "Excludes constraints", "simple(requires/excludes)")
        inside("Pseudo-complex constraints", "Complex constraints")
        inside("Strict-complex constraints", "Complex constraints")
        inside("Simple constraints", "Cross-tree constraints")
        inside("Complex constraints", "Cross-tree constraints")
        if S("Simple constraints") is not None and S("Complex constraints") is not None:
            ok = not (S("Simple constraints") & S("Complex constraints"))
            ctx.check(ok, "C17-SPLITS", f"disjoint:simple/complex:{mname}" if ok else "disjoint:simple/complex",
                      where_cls, "simple and complex are disjoint",
                      bad=f"'{mname}': constraints both simple and complex")
        for name_, want_ in EXPECT_SIZES.get(mname, {}).items():
            got_ = by_name.get(name_, {}).get("size")
            ctx.check(got_ == want_, "C17-DEF", f"class-size:{name_}:{mname}" if got_ == want_ else f"class-size:{name_}", where_cls,
                      f"'{mname}': {want_} {name_.lower()}",
                      bad=f"'{mname}': {name_} has size {got_!r}, by definition {want_} (conjunctions of six simple constraints "
                          f"nested to the left and to the right and `a => b & c` convert to simple constraints; `a | b` and a "
                          f"three-literal clause do not)")
        # definitions ---------------------------------------------------------------------------------
        ref = reference(fm)
        for name, want in ref.items():
            if name not in by_name:
                ctx.violation("C17-DEF", f"missing:{name}", where_cls, f"metric '{name}' is not reported")
                continue
            got = by_name[name]["result"]
            if isinstance(want, list):
                okd = isinstance(got, list) and sorted(map(str, got)) == sorted(want)
            elif name in ("Tree relationships", "Cross-tree constraints"):
                okd = isinstance(got, list) and len(got) == want
            else:
                okd = got == want and not isinstance(got, bool)
            ctx.check(okd, "C17-DEF", f"def:{name}:{mname}" if okd else f"def:{name}", where_cls,
                      f"'{name}' equals its definition on '{mname}'",
                      bad=f"'{mname}': metric '{name}' reports {_short(got)}, its definition on the "
                          f"tree gives {_short(want)}")
    # duplicates of operations ------------------------------------------------------------------------
    dup_ops(pm, ctx, mb, report)
    # state: caches are re-assigned before use ------------------------------------------------------------
    calc = pm.method(fmm, "calculate_metamodel_metrics")
    if calc is None:
        raise AnalysisError(rule, "anchor vanished: FMMetrics.calculate_metamodel_metrics")
    try:
        it = Interp(pm, max_depth=60)
        op = it.eval_call_class(fmm)
        it.call(calc, [op, rich_model(mb)])
        second = it.call(calc, [op, models(mb)["one-child"]])
        it2 = Interp(pm, max_depth=60)
        fresh = it2.call(calc, [it2.eval_call_class(fmm), models(mb)["one-child"]])
        entry = lambda a: (a["name"], a["result"], a["size"], a["ratio"]) if isinstance(a, dict) else ("not an entry", a)  # noqa: E731
        same = [entry(a) for a in second] == [entry(a) for a in fresh]
        diff = [entry(a)[0] for a, b in zip(second, fresh) if entry(a) != entry(b)]
    except (AbsRaise, AbsMutation) as exc:
        same, diff = False, [f"raises {exc.what}"]
    ctx.check(same, "C17-STATE", "caches-reassigned", loc(calc.unit.path, calc.node),
              "analysing a second model with the same object gives the report of a fresh object",
              bad=f"metrics of a second model depend on the model analysed before: {diff[:4]}")
    # history: same feature names in another shape, analysed later in the same process -----------------------
    from ..absint import reset_global_state
    from ..model import same_names_pair, twin_model

    def key(rep: Any) -> Any:
        return [(e["name"], e["result"], e["size"], e["ratio"]) for e in rep] if isinstance(rep, list) else rep
    for label, (first, second_of) in {
            "chain-then-flat": (same_names_pair(mb)[0], lambda: same_names_pair(mb)[1]),
            "rich-then-regrouped": (rich_model(mb), lambda: twin_model(rich_model(mb)))}.items():
        report(first)
        after = key(report(second_of()))
        reset_global_state()
        fresh = key(report(second_of()))
        diffn = [a[0] for a, b in zip(after, fresh) if a != b] if isinstance(after, list) and isinstance(fresh, list) else ["raises"]
        ctx.check(after == fresh, "C17-STATE", f"history:{label}", where_cls,
                  "a model with the same feature names analysed later in the process gets the report of a fresh process",
                  bad=f"metrics of a model depend on a model with the same feature names analysed before it: {diffn[:4]}")
    # filter ---------------------------------------------------------------------------------------------
    fm = rich_model(mb)
    rep = report(fm, ["leaf_features", "or_groups"])
    okf = isinstance(rep, list) and sorted(e["name"] for e in rep) == ["Leaf features", "Or groups"]
    ctx.check(okf, "C17-FILTER", "filter", where_cls, "a metric filter selects exactly the named metrics",
              bad=f"filter ['leaf_features','or_groups'] reports "
                  f"{[e['name'] for e in rep] if isinstance(rep, list) else rep}")
    # a filter set once on an operation object applies to every model it is given afterwards, and is the caller's list
    itf = Interp(pm, max_depth=60)
    try:
        opf = itf.eval_call_class(fmm)
        mine = ["leaf_features", "or_groups"]
        itf.call(pm.method(fmm, "only_these_metrics"), [opf, mine])
        seq = []
        for mdl in (rich_model(mb), same_names_pair(mb)[0], rich_model(mb)):
            itf.call(ex, [opf, mdl])
            res_ = itf.call(gr, [opf])
            seq.append(sorted(e["name"] for e in res_) if isinstance(res_, list) else res_)
        ctx.check(all(x == ["Leaf features", "Or groups"] for x in seq),
                  "C17-FILTER", "filter:same-object-three-models", where_cls,
                  "a filter set once selects the named metrics for every model analysed afterwards with the same object",
                  bad=f"one operation object with the filter ['leaf_features', 'or_groups'] over three models reports {seq}")
    except (AbsRaise, AbsMutation) as exc:
        ctx.violation("C17-FILTER", "filter:same-object-three-models", where_cls, f"raises {exc.what}")
    # every metric requested alone is the entry of the full report (nothing it needs is skipped by the filter)
    full = report(fm)
    full_by = {e["name"]: (e["result"], e["size"], e["ratio"]) for e in full} if isinstance(full, list) else {}
    seen_names: dict[str, str] = {}
    nalone = 0
    for meth in metric_meths:
        nalone += 1
        r1 = report(fm, [meth])
        if isinstance(r1, tuple):
            ctx.violation("C17-FILTER", f"alone:{meth}", r1[2] or where_cls,
                          f"metric {meth} requested alone raises: {r1[1]}")
            continue
        ok1 = len(r1) == 1 and r1[0]["name"] in full_by and r1[0]["name"] not in seen_names and \
            (r1[0]["result"], r1[0]["size"], r1[0]["ratio"]) == full_by[r1[0]["name"]]
        if len(r1) == 1:
            seen_names.setdefault(r1[0]["name"], meth)
        ctx.check(ok1, "C17-FILTER", f"alone:{meth}", where_cls,
                  f"metric {meth} requested alone equals its entry in the full report",
                  bad=f"metric {meth} requested alone reports {_short([(e['name'], e['result'], e['size'], e['ratio']) for e in r1])}, "
                      f"the full report has {_short(full_by.get(r1[0]['name']) if len(r1) == 1 else None)}")
    ctx.floor("C17-FILTER", "metrics requested alone", nalone, 36)
    # produced "without error" on every well-formed model, deep ones included: the nesting of calls must not grow with
    # the depth of the tree (see C16-DEPTH-INDEPENDENT)
    seen_d = []
    for n_ in (6, 12):
        r_ = mb.feature("c0")
        cur = r_
        for i in range(1, n_):
            nxt = mb.feature(f"c{i}")
            mb.relation(cur, [nxt], 1 if i % 2 else 0, 1)
            cur = nxt
        itd = Interp(pm, max_depth=60)
        try:
            opd = itd.eval_call_class(fmm)
            itd.call(ex, [opd, mb.model(r_, [])])
            seen_d.append(itd.deepest)
        except AbsRaise as exc:
            seen_d.append(("raise", exc.what))
    ctx.check(len(seen_d) == 2 and seen_d[0] == seen_d[1] and not isinstance(seen_d[0], tuple), "C17-DEPTH-INDEPENDENT",
              "nesting:report", where_cls, f"the report nests calls {seen_d[0]} deep on a chain of 6 and of 12 features alike",
              bad=f"the report nests calls {seen_d[0]} deep on a chain of 6 features and {seen_d[1]} on a chain of 12: the nesting "
                  f"grows with the depth of the tree, so a deep enough well-formed model ends in RecursionError")
    from .c19 import op_sequences
    op_sequences(pm, ctx, ModelBuilder(pm), [pm.cls(n_) for n_ in ('FMMetrics',) if pm.has_cls(n_)], "C17")
    ctx.floor(rule, "obligations", len(ctx.obligations), 60)


def _short(v: Any) -> str:
    s = repr(v)
    return s if len(s) < 100 else s[:90] + "..."


def dup_ops(pm: ProgramModel, ctx: Ctx, mb: ModelBuilder, report: Any) -> None:
    pairs = {"Leaf features": ("get_leaf_features", "fm_leaf_features", lambda v: sorted(f._f["name"] for f in v)),
             "Branching factor": ("average_branching_factor", "fm_average_branching_factor", lambda v: v),
             "Max depth of tree": ("max_depth_tree", "fm_max_depth_tree", lambda v: v)}
    for mname in ("rich", "bushy", "one-child"):
        fm = models(mb)[mname]
        rep = report(fm)
        if isinstance(rep, tuple):
            continue
        by = {e["name"]: e for e in rep}
        for metric, (fn, unit, norm) in pairs.items():
            f = pm.func(fn, unit)
            try:
                v = norm(Interp(pm).call(f, [fm]))
            except AbsRaise as exc:
                v = ("raise", exc.what)
            got = by.get(metric, {}).get("result")
            if isinstance(got, list):
                got = sorted(got)
            ok = got == v
            ctx.check(ok, "C17-DUP", f"dup:{metric}:{mname}" if ok else f"dup:{metric}",
                      loc(f.unit.path, f.node), f"metric '{metric}' reports the value of {fn}",
                      bad=f"'{mname}': metric '{metric}' = {_short(got)} but {fn} = {_short(v)}")
