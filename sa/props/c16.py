"""C16 — tree-shape operations match their definitions on every model (DESIGN §5 C16)."""
from __future__ import annotations

import ast
import itertools
from typing import Any, Optional

from ..absint import AObj, AbsRaise, Interp
from ..card import D, domain_wf, kind
from ..core import AnalysisError, Ctx, loc
from ..model import ModelBuilder
from ..pm import ProgramModel
from ..steps import check_wrapper, returned_name, run_block, split_while, worklist_name

REP = [D(1, 1, 1), D(0, 1, 1), D(1, 1, 2), D(1, 2, 2), D(0, 1, 2), D(2, 2, 2), D(2, 3, 3)]


def build_tree(mb: ModelBuilder, spec: Any, name: str = "root", look_alike: bool = False, decorate: bool = False) -> AObj:
    """spec: list of relations; relation = (min, max, [child specs]); child spec = same list.
    look_alike: sibling names differ only in letter case or in a leading / trailing blank (a, A, "a ", " a", b, ...):
    legal, distinct names."""
    if decorate and name != "root":
        # fields the structural definitions do not speak of vary from feature to feature: feature cardinalities with and
        # without a zero lower bound, abstract flags - on mandatory children, group members and compound features alike
        lo_, hi_, ab_ = ((0, 4, True), (2, 2, False), (0, 1, True), (1, -1, False), (1, 1, True))[sum(map(ord, name)) % 5]
        f = mb.feature(name, is_abstract=ab_, card=(lo_, hi_))
    else:
        f = mb.feature(name)
    k = 0
    for i, (lo, hi, kids) in enumerate(spec):
        ch = []
        for j, kid in enumerate(kids):
            if look_alike:
                letter = chr(ord("a") + k // 4)
                cname = f"{name}." + (letter, letter.upper(), letter + " ", " " + letter)[k % 4]
            else:
                cname = f"{name}.{i}.{j}"
            k += 1
            ch.append(build_tree(mb, kid, cname, look_alike, decorate))
        mb.relation(f, ch, lo, hi)
    return f


TREES: dict[str, Any] = {
    "root-only": [],
    "one-child": [(1, 1, [[]])],
    "chain3": [(1, 1, [[(0, 1, [[(1, 1, [[]])]])]])],
    # deepest leaf neither first nor last; 7 children over 3 branches -> 2.33
    "bushy": [(0, 1, [[]]), (1, 2, [[], [(1, 1, [[(1, 1, [[], []])]])]]), (1, 1, [[]])],
    "two-groups": [(1, 1, [[], [], []]), (0, 1, [[], [(0, 1, [[]])]])],
    # 5 children under 3 non-leaf features: 1.666... must round UP to 1.67
    "ratio-rounds-up": [(1, 1, [[(1, 2, [[(1, 1, [[], []])], []])]])],
    # 8 children under 3 non-leaf features: 2.666... -> 2.67
    "ratio-rounds-up-2": [(1, 1, [[], [], [(0, 1, [[(1, 3, [[], [], []])], []])]])],
}


def _leafs(n: int) -> list[Any]:
    return [[] for _ in range(n)]


def _chain(n: int, bottom: Any) -> Any:
    spec = bottom
    for i in range(n):
        spec = [(i % 2, 1, [spec])]
    return spec


# larger and oddly shaped members of the family: code with a fast path, a threshold, a slice or a lexicographic order
# that only shows from the tenth element on is right on every small tree
TREES.update({
    # a 12-member [4..7] group, an alternative and an or-group beside 11 single relations: 14 relations on one parent
    "wide-12": [(4, 7, _leafs(12)), (1, 1, _leafs(2)), (1, 2, _leafs(2))] + [(i % 2, 1, [[]]) for i in range(11)],
    # a group inside a group inside a group, members that are groups' hosts themselves
    "nested-groups": [(1, 2, [[(2, 2, [[(1, 3, [[], [(0, 1, [[(1, 1, [[], []])]])], []])], []])], []])],
    # five groups of different kinds under one parent
    "five-groups": [(1, 1, _leafs(2)), (1, 2, _leafs(3)), (2, 3, _leafs(3)), (1, 5, _leafs(5)), (3, 4, _leafs(4))],
    # 37 children under 3 non-leaf features: a ratio above ten that needs rounding (12.333... -> 12.33)
    "ratio-above-ten": [(1, 1, [[(1, 3, _leafs(17))]]), (0, 1, [[(2, 5, _leafs(18))]])],
    # nine levels, an or-group at the bottom
    "deep-9": _chain(8, [(1, 2, [[], []])]),
})
# sibling names that differ only in case: a mandatory beside an optional look-alike, two look-alike group
# members that are both variation points, look-alike leaves at different depths
LOOK_ALIKE = [(1, 1, [[(0, 1, [[]])]]),            # a   mandatory, itself a variation point
              (0, 1, [[(1, 2, [[], []])]]),        # A   optional, a variation point with two variants
              (1, 1, [[]]),                        # "a " mandatory leaf
              (0, 1, [[]]),                        # " a" optional leaf
              (1, 1, [[(0, 1, [[]])], [(1, 2, [[], []])]])]   # b / B: group members, both variation points


def edit_in_place(mb: ModelBuilder, m: AObj) -> None:
    """Edit a model in place the way the readers build it: one more member in the first group found, a new
    mandatory child under the root (attached with add_relation), and a mandatory child under that one."""
    stack = [m._f["root"]]
    groups = []
    while stack:
        f = stack.pop(0)
        for r in f._f["relations"]:
            if len(r._f["children"]) > 1:
                groups.append(r)
            stack.extend(r._f["children"])
    # a group that does not hang from the root, if there is one (the root gets a relation of its own below)
    grp = next((g for g in groups if g._f["parent"] is not m._f["root"]), groups[0] if groups else None)
    if grp is not None:
        extra = mb.feature("Extra.member", parent=grp._f["parent"])
        grp._f["children"].append(extra)
    em = mb.feature("Extra.mandatory")
    mb.relation(m._f["root"], [em], 1, 1)
    mb.relation(em, [mb.feature("Extra.mandatory.child")], 1, 1)


def tree_models(mb: ModelBuilder, decorated: bool = False) -> dict[str, AObj]:
    ms = {k: mb.model(build_tree(mb, spec), []) for k, spec in TREES.items()}
    if decorated:
        for k in ("one-child", "chain3", "bushy", "two-groups"):
            ms[f"{k}:decorated"] = mb.model(build_tree(mb, TREES[k], decorate=True), [])
    ms["look-alike-names"] = mb.model(build_tree(mb, LOOK_ALIKE, "root", True), [])
    # the same kind of tree built the way the FaMa XML reader builds it: empty relations filled child by child
    inc = ModelBuilder(mb.pm, style="incremental")
    ms["built-incrementally"] = inc.model(build_tree(inc, TREES["bushy"]), [])
    ms.update(reader_models(mb.pm, mb))
    return ms


def reader_models(pm: ProgramModel, mb: ModelBuilder) -> dict[str, AObj]:
    """Models as the readers build them (evaluated from source on reference documents): whatever a reader leaves on the
    objects besides the tree - a hint, a cache, a flag copied from the document - is there when the operations run.
    The FeatureIDE document carries `mandatory` attributes on the members of its or / alternative groups, where the
    format gives them no meaning."""
    import json as _json
    from . import c09
    ref = c09.ref_model(mb)
    docs = {
        "read-by-FeatureIDEReader": ("FeatureIDEReader", c09.fide_doc(ref, False, False, False, group_flags=True).encode("utf8")),
        "read-by-XMLReader": ("XMLReader", c09.fama_doc(ref).encode("utf8")),
        "read-by-GlencoeReader": ("GlencoeReader", _json.dumps(c09.glencoe_doc(ref))),
        "read-by-AFMReader": ("AFMReader", c09.afm_doc(ref)),
    }
    out: dict[str, AObj] = {}
    from ..antlrstubs import Console
    with Console():
        for key, (reader, content) in docs.items():
            r = c09.read(pm, reader, content)
            if r["model"] is None:
                raise AnalysisError("C16", f"{reader} does not read its reference document: {r['raise']}")
            out[key] = r["model"]
    return out


def tree_stats(spec: Any, depth: int = 0) -> dict[str, Any]:
    kids = [k for (_, _, ks) in spec for k in ks]
    st = {"leaves": 0 if kids else 1, "depth": depth, "branches": 1 if kids else 0,
          "children": len(kids)}
    for k in kids:
        s = tree_stats(k, depth + 1)
        st["leaves"] += s["leaves"]
        st["depth"] = max(st["depth"], s["depth"])
        st["branches"] += s["branches"]
        st["children"] += s["children"]
    return st


def check(pm: ProgramModel, ctx: Ctx) -> None:
    ctx.explanation = (
        "Static decision of the shape of the six tree operations: each helper, read as a formula "
        "over abstract trees, is (i) decided against its definition on a family of abstract trees "
        "that realises every distinguishing situation (root-only, single edge, chain, deepest "
        "leaf in the middle, several relations per parent, a children/branches ratio that needs "
        "rounding), with no `raise`/division by zero/empty aggregate reachable on the root-only "
        "model; (ii) the ancestors loop is checked to be branch-free and decided on parent chains "
        "of length 0..4 in order; (iii) variation points are verified by a Hoare-style step check "
        "of the worklist loop over all well-formed cardinalities; (iv) every leaf predicate site "
        "is formula-equal to Feature.is_leaf.")
    ctx.not_decided = ["numeric agreement with reference implementations on the shipped corpus",
                       "trees beyond the abstract family for the aggregate operations (depth, "
                       "branching factor): their bodies are aggregate/map compositions whose "
                       "behaviour is decided on the family, not proved for all trees"]
    rule = "C16"
    mb = ModelBuilder(pm)
    cl = pm.func("count_leaf_features", "fm_count_leafs")
    gl = pm.func("get_leaf_features", "fm_leaf_features")
    md = pm.func("max_depth_tree", "fm_max_depth_tree")
    ab = pm.func("average_branching_factor", "fm_average_branching_factor")
    ga = pm.func("get_feature_ancestors", "fm_feature_ancestors")
    vp = pm.func("variation_points", "fm_variation_points")

    def ev(fn: Any, args: list[Any]) -> Any:
        it = Interp(pm)
        it.native["statistics.mean"] = _mean
        try:
            return it.call(fn, args)
        except AbsRaise as exc:
            return ("raise", exc.what)

    family = list(TREES.items()) + [("look-alike-names", LOOK_ALIKE)] + \
        [(f"{k_}:decorated", TREES[k_]) for k_ in ("one-child", "chain3", "bushy", "two-groups")]
    for tname, spec in family:
        st = tree_stats(spec)
        root = build_tree(mb, spec, "root", tname == "look-alike-names", tname.endswith(":decorated"))
        fm = mb.model(root, [])
        total_key = "root-only" if tname == "root-only" else "trees"
        # leaves
        v = ev(cl, [fm])
        ctx.check(v == st["leaves"] and not isinstance(v, tuple), "C16-LEAF", f"count:{tname}",
                  loc(cl.unit.path, cl.node), f"leaf count of '{tname}' is {st['leaves']}",
                  bad=f"count_leaf_features on abstract tree '{tname}' gives {v!r}, definition gives "
                      f"{st['leaves']}")
        v = ev(gl, [fm])
        exp_l = _leaves(root)
        okl = isinstance(v, list) and len(v) == len(exp_l) and all(any(x is y for y in exp_l) for x in v) \
            and len({id(x) for x in v}) == len(v)
        ctx.check(okl, "C16-LEAF", f"list:{tname}", loc(gl.unit.path, gl.node),
                  f"leaf listing of '{tname}' is the {len(exp_l)} features without children",
                  bad=f"get_leaf_features on '{tname}' gives {str(v)[:100]}, expected the features "
                      f"without children {exp_l!r}")
        # depth
        v = ev(md, [fm])
        r_ = "C16-TOTAL" if (isinstance(v, tuple) and tname == "root-only") else "C16-DEPTH"
        ctx.check(v == st["depth"] and not isinstance(v, (tuple, bool)), r_,
                  f"depth:{tname}" if r_ == "C16-DEPTH" else "depth:root-only",
                  loc(md.unit.path, md.node), f"max depth of '{tname}' is {st['depth']} edges",
                  bad=f"max_depth_tree on '{tname}' gives {v!r}, longest root-to-leaf path has "
                      f"{st['depth']} edges")
        # branching factor
        v = ev(ab, [fm])
        if tname == "root-only":
            ctx.check(not isinstance(v, tuple) and isinstance(v, (int, float)), "C16-TOTAL",
                      "branching:root-only", loc(ab.unit.path, ab.node),
                      "average branching factor returns a value on the root-only model",
                      bad=f"average_branching_factor on the root-only model: {v!r}")
        else:
            exp = round(st["children"] / st["branches"], 2)
            ctx.check(v == exp and not isinstance(v, tuple), "C16-BRANCH", f"branching:{tname}",
                      loc(ab.unit.path, ab.node), f"branching factor of '{tname}' is {exp}",
                      bad=f"average_branching_factor on '{tname}' gives {v!r}, definition "
                          f"(children per non-leaf feature, 2 decimals) gives {exp}")
    # ancestors: branch-free loop, chains 0..4 ------------------------------------------------------
    loops = [n for n in ast.walk(ga.node) if isinstance(n, (ast.While, ast.For))]
    branchy = any(isinstance(n, (ast.If, ast.IfExp, ast.Try)) for lp in loops for s in lp.body
                  for n in ast.walk(s))
    for ln in range(0, 5):
        chain = [mb.feature(f"a{i}") for i in range(ln + 1)]
        for i in range(ln):
            mb.relation(chain[i], [chain[i + 1]], i % 2, 1)
        v = ev(ga, [chain[-1]])
        exp = list(reversed(chain[:-1]))
        ok = isinstance(v, list) and len(v) == len(exp) and all(a is b for a, b in zip(v, exp))
        ctx.check(ok, "C16-ANCESTORS", f"chain:{ln}", loc(ga.unit.path, ga.node),
                  f"ancestors of a feature at depth {ln}: its {ln} parents, nearest first",
                  bad=f"get_feature_ancestors at depth {ln} gives {v!r}, expected {exp!r} "
                      f"(parent chain from the feature up to the root, in that order)")
    ctx.check(not branchy, "C16-ANCESTORS", "uniform-loop", loc(ga.unit.path, ga.node),
              "the ancestor loop has no branch: every iteration applies the same transfer, so the "
              "chains decide it", bad="the ancestor loop branches on the feature: chains 0..4 do not "
              "decide it")
    # history: a second model with the same feature names but another shape, analysed in the same
    # process, must be answered as in a fresh process (Feature hashes by name: name-keyed caches lie)
    from ..absint import reset_global_state
    from ..model import same_names_pair

    def canon(v: Any) -> Any:
        if isinstance(v, AObj):
            return (v._cls, v._f.get("name"), id(v))
        if isinstance(v, (list, tuple)):
            return [canon(x) for x in v]
        if isinstance(v, dict):
            return sorted((repr(canon(k)), repr(canon(x))) for k, x in v.items())
        return v
    helpers = {"count_leaf_features": cl, "get_leaf_features": gl, "max_depth_tree": md,
               "average_branching_factor": ab, "variation_points": vp}
    for hname, fnx in list(helpers.items()) + [("get_feature_ancestors", ga)]:
        first, second = same_names_pair(mb)
        arg1 = first if hname != "get_feature_ancestors" else _leaves(first._f["root"])[0]
        arg2 = second if hname != "get_feature_ancestors" else _leaves(second._f["root"])[-1]
        ev(fnx, [arg1])
        after = canon(ev(fnx, [arg2]))
        reset_global_state()
        fresh = canon(ev(fnx, [arg2]))
        ctx.check(after == fresh, "C16-HISTORY", f"history:{hname}", loc(fnx.unit.path, fnx.node),
                  f"{hname} on a second model (same names, other shape) answers as in a fresh process",
                  bad=f"{hname}: the answer for a model depends on a model with the same feature names analysed "
                      f"before it in the same process: {str(after)[:100]} vs fresh {str(fresh)[:100]}")
    # depth-independence: "returns a value, without raising, on every well-formed model" includes deep models. A
    # function that calls itself (directly or through others) once per tree level nests calls in proportion to the
    # depth of the tree and ends in RecursionError on a deep enough chain. Decided by evaluating each operation on two
    # chains, one twice as deep: the deepest nesting of calls reached must be the same.
    def chain(n: int) -> AObj:
        r_ = mb.feature("c0")
        cur = r_
        for i in range(1, n):
            nxt = mb.feature(f"c{i}")
            mb.relation(cur, [nxt], 1 if i % 2 else 0, 1)
            cur = nxt
        return mb.model(r_, [])
    for hname, fnx in (("count_leaf_features", cl), ("get_leaf_features", gl), ("max_depth_tree", md),
                       ("average_branching_factor", ab), ("get_feature_ancestors", ga), ("variation_points", vp)):
        seen = []
        for n_ in (6, 12):
            m_ = chain(n_)
            arg = m_ if hname != "get_feature_ancestors" else _leaves(m_._f["root"])[0]
            it_ = Interp(pm, max_depth=60)
            try:
                it_.call(fnx, [arg])
                seen.append(it_.deepest)
            except AbsRaise as exc:
                seen.append(("raise", exc.what))
        ok_ = len(seen) == 2 and seen[0] == seen[1] and not isinstance(seen[0], tuple)
        ctx.check(ok_, "C16-DEPTH-INDEPENDENT", f"nesting:{hname}", loc(fnx.unit.path, fnx.node),
                  f"{hname} nests calls {seen[0]} deep on a chain of 6 and of 12 features alike",
                  bad=f"{hname} nests calls {seen[0]} deep on a chain of 6 features and {seen[1]} deep on a chain of 12: the "
                      f"nesting grows with the depth of the tree (a function on its path recurses once per level), so a "
                      f"deep enough well-formed model ends in RecursionError instead of a value")
    # a chain deeper than any limit a function may have in mind (the interpreter's recursion limit is 1000)
    deep = chain(1100)
    leaf_d = _leaves(deep._f["root"])[0]
    it_ = Interp(pm, max_depth=60)
    try:
        anc = it_.call(ga, [leaf_d])
        dep = it_.call(md, [deep])
        okd = isinstance(anc, list) and len(anc) == 1099 and anc[-1] is deep._f["root"] and anc[0] is leaf_d._f["parent"] \
            and dep == 1099
        badd = f"ancestors of the deepest feature: {len(anc) if isinstance(anc, list) else anc} entries" \
               f"{'' if not isinstance(anc, list) or not anc else ' ending at ' + str(anc[-1]._f.get('name'))}, depth {dep}"
    except AbsRaise as exc:
        okd, badd = False, f"raises {exc.what}"
    ctx.check(okd, "C16-ANCESTORS", "deep-chain:1100", loc(ga.unit.path, ga.node),
              "on a chain of 1100 features the deepest one has 1099 ancestors up to the root and the depth is 1099",
              bad=f"chain of 1100 features (expected 1099 ancestors ending at the root, depth 1099): {badd}")
    # leaf predicate sites ---------------------------------------------------------------------------
    leaf_sites(pm, ctx, mb)
    # variation points: step check --------------------------------------------------------------------
    try:
        variation_points(pm, ctx, mb, vp)
    except AnalysisError as exc:
        ctx.unverified("C16-VP", "step-shape", loc(vp.unit.path, vp.node), f"step check not applicable: {exc.reason}")
        variation_points_whole(pm, ctx, mb, vp)
    check_wrapper(pm, ctx, "C16-WRAP", "FMCountLeafs", "count_leaf_features", "fm_count_leafs")
    check_wrapper(pm, ctx, "C16-WRAP", "FMLeafFeatures", "get_leaf_features", "fm_leaf_features")
    check_wrapper(pm, ctx, "C16-WRAP", "FMMaxDepthTree", "max_depth_tree", "fm_max_depth_tree")
    check_wrapper(pm, ctx, "C16-WRAP", "FMAverageBranchingFactor", "average_branching_factor",
                  "fm_average_branching_factor")
    check_wrapper(pm, ctx, "C16-WRAP", "FMVariationPoints", "variation_points", "fm_variation_points")
    # ancestors wrapper takes the feature from a setter: the result is the ancestors of the feature set for the current
    # execution (decided by evaluation: two features at different depths of one tree, one after the other)
    anc = pm.cls("FMFeatureAncestors")
    it = Interp(pm, max_depth=60)
    r0, x1, x2, x3 = mb.feature("r"), mb.feature("x1"), mb.feature("x2"), mb.feature("x3")
    mb.relation(r0, [x1], 1, 1)
    mb.relation(x1, [x2], 0, 1)
    mb.relation(x2, [x3], 1, 1)
    fm0 = mb.model(r0, [])
    try:
        op = it.eval_call_class(anc)
        it.call(pm.method(anc, "set_feature"), [op, x1])
        it.call(pm.method(anc, "execute"), [op, fm0])
        it.call(pm.method(anc, "set_feature"), [op, x3])
        it.call(pm.method(anc, "execute"), [op, fm0])
        r = it.call(pm.method(anc, "get_result"), [op])
        want = it.call(ga, [x3])
    except AbsRaise as exc:
        r, want = ("raise", exc.what), None
    okw = isinstance(r, list) and isinstance(want, list) and len(r) == len(want) == 3 and all(a is b for a, b in zip(r, want))
    ctx.check(okw, "C16-WRAP", "wrap:FMFeatureAncestors",
              loc(anc.unit.path, anc.node), "the ancestors operation reports the ancestors of the "
              "feature set for the current execution", bad=f"FMFeatureAncestors returns {r!r}")
    from .c19 import op_sequences
    op_sequences(pm, ctx, ModelBuilder(pm), [pm.cls(n_) for n_ in ('FMFeatureAncestors',) if pm.has_cls(n_)], "C16")
    ctx.floor(rule, "obligations", len(ctx.obligations), 40)


def _mean(xs: Any) -> Any:
    xs = list(xs)
    if not xs:
        raise AbsRaise("StatisticsError: mean requires at least one data point")
    return sum(xs) / len(xs)


def _leaves(f: AObj) -> list[AObj]:
    out, stack = [], [f]
    while stack:                       # pre-order, left to right, without recursion (deep chains)
        x = stack.pop()
        kids = [c for r in x._f["relations"] for c in r._f["children"]]
        if not kids:
            out.append(x)
        stack.extend(reversed(kids))
    return out


def leaf_sites(pm: ProgramModel, ctx: Ctx, mb: ModelBuilder) -> None:
    """Feature.is_leaf is the reference; its formula: no relations."""
    isl = pm.method(pm.cls("Feature"), "is_leaf")
    if isl is None:
        raise AnalysisError("C16-LEAF", "anchor vanished: Feature.is_leaf")
    bad = []
    for nrel in (0, 1, 2):
        f = mb.feature("f")
        for i in range(nrel):
            mb.relation(f, [mb.feature(f"c{i}")], 1, 1)
        try:
            v = Interp(pm).call(isl, [f])
        except AbsRaise as exc:
            v = ("raise", exc.what)
        if v is not (nrel == 0):
            bad.append(f"{nrel} relations -> {v}")
    ctx.check(not bad, "C16-LEAF", "pred:Feature.is_leaf", loc(isl.unit.path, isl.node),
              "is_leaf == 'has no relations'", bad=f"Feature.is_leaf: {bad}")


def variation_points(pm: ProgramModel, ctx: Ctx, mb: ModelBuilder, fn: Any) -> None:
    rule = "C16-VP"
    pre, loop, post = split_while(fn, rule)
    W = worklist_name(loop)
    R = returned_name(post)
    if W is None or R is None:
        raise AnalysisError(rule, "cannot identify worklist / result of variation_points",
                            loc(fn.unit.path, fn.node))
    param = fn.params[0]
    from ..steps import extra_loop_state
    extra = extra_loop_state(pre, loop, {W, R, param})
    if extra:
        raise AnalysisError(rule, f"the loop carries further state {extra}: step check not applicable",
                            loc(fn.unit.path, fn.node))
    root = mb.feature("root")
    mb.relation(root, [mb.feature("m")], 0, 1)
    env: dict[str, Any] = {param: mb.model(root, [])}
    it = Interp(pm)
    run_block(it, pre, env, fn)
    ok = isinstance(env.get(W), list) and len(env[W]) == 1 and env[W][0] is root \
        and isinstance(env.get(R), dict) and not env[R]
    ctx.check(ok, rule, "init", loc(fn.unit.path, fn.node),
              "worklist starts as [root], result as {}", bad=f"init: worklist={env.get(W)!r} "
              f"result={env.get(R)!r}")
    contexts: list[tuple[D, ...]] = [(d,) for d in domain_wf(ctx.tier) if d.n <= 4]
    contexts += list(itertools.product(REP, repeat=2))
    bad: list[str] = []
    n = 0
    for ds in contexts:
        for arrangement in (0, 1):
            f = mb.feature("f")
            rels = []
            for i, d in enumerate(ds):
                ch = [mb.feature(f"r{i}c{j}") for j in range(d.n)]
                rels.append(mb.relation(f, ch, d.min, d.max))
            g = mb.feature("g")
            prev = mb.feature("prev")
            prev_v = [mb.feature("pv")]
            work = [g, f] if arrangement == 0 else [f, g]
            env = {param: mb.model(mb.feature("rt"), []), W: list(work), R: _IdDict([(prev, prev_v)])}
            it = Interp(pm)
            try:
                run_block(it, loop.body, env, fn)
            except AbsRaise as exc:
                bad.append(f"loop body raises {exc.what}")
                continue
            n += 1
            w2, r2 = env[W], env[R]
            label = f"relations {[str(d) for d in ds]}"
            popped = [x for x in work if not any(x is y for y in w2)]
            if len(popped) != 1:
                bad.append(f"{label}: one iteration must pop exactly one feature")
                continue
            x = popped[0]
            kids = [c for r_ in rels for c in r_._f["children"]] if x is f else []
            variants = [c for r_, d in zip(rels, ds) if kind(d) != "mandatory"
                        for c in r_._f["children"]] if x is f else []
            pushed = [y for y in w2 if not any(y is z for z in work)]
            if sorted(map(id, pushed)) != sorted(map(id, kids)):
                bad.append(f"{label}: worklist must be fed with all children of the popped feature "
                           f"(pushed {pushed!r})")
            if r2.get(prev) is not prev_v or len(prev_v) != 1:
                bad.append(f"{label}: entries of other features were changed")
            got = r2.get(x)
            if variants:
                if not (isinstance(got, list) and sorted(map(id, got)) == sorted(map(id, variants))):
                    bad.append(f"{label}: variants of the feature are {got!r}, expected the children "
                               f"of its non-mandatory relations {variants!r}")
            elif got is not None:
                bad.append(f"{label}: a feature without non-mandatory relation is reported as "
                           f"variation point ({got!r})")
            if len(r2) != 1 + (1 if variants else 0):
                bad.append(f"{label}: unexpected keys in the result")
    variation_points_whole(pm, ctx, mb, fn)
    ctx.analysed["C16-VP:step-evaluations"] = n
    ctx.check(not bad, rule, "step", loc(fn.unit.path, loop),
              f"each iteration maps the popped feature to the children of its non-mandatory "
              f"relations (iff any) and pushes all its children ({n} abstract states)",
              bad="; ".join(bad[:2]))


def variation_points_whole(pm: ProgramModel, ctx: Ctx, mb: ModelBuilder, fn: Any) -> None:
    rule = "C16-VP"
    # whole function on the tree family
    from ..model import rich_model
    from ..roundtrip import features as all_features
    models = tree_models(mb, decorated=True)
    models["rich"] = rich_model(mb)
    work = []
    for name, m in models.items():
        work.append((name, m, False))
        if name in ("bushy", "rich", "two-groups"):
            work.append((name + ":edited-in-place", m, True))      # same object, edited after the first analysis
    it_ = Interp(pm)
    for name, m, edit in work:
        if edit:
            edit_in_place(mb, m)
        try:
            got = it_.call(fn, [m])
        except AbsRaise as exc:
            got = ("raise", exc.what)
        want = {}
        for f in all_features(m):
            vs = [c for r in f._f["relations"]
                  if kind(D(int(r._f["card_min"]), int(r._f["card_max"]), len(r._f["children"]))) != "mandatory"
                  for c in r._f["children"]]
            if vs:
                want[f._f["name"]] = sorted(c._f["name"] for c in vs)
        gotn = {k._f["name"]: sorted(c._f["name"] for c in v) for k, v in got.items()} if isinstance(got, dict) else got
        ctx.check(gotn == want, rule, f"tree:{name}", loc(fn.unit.path, fn.node),
                  f"variation points of abstract tree '{name}' match the definition",
                  bad=f"variation_points on '{name}' gives {str(gotn)[:120]}, definition gives {str(want)[:120]}")


class _IdDict(dict):  # type: ignore[type-arg]
    """dict keyed by abstract objects (identity)."""
