"""C03 — model queries agree with the feature tree they describe (DESIGN §5 C03)."""
from __future__ import annotations

import ast
import itertools
from typing import Any, Optional

from ..absint import AObj, AbsRaise, EnumVal, Interp, OrdInt
from ..card import D, KINDS, Log, adaptive, domain, domain_wf, kind, mk_feature, mk_parent_context, \
    mk_relation, wf, wf_strict
from ..core import AnalysisError, Ctx, loc, src
from ..pm import FuncInfo, ProgramModel
from ..shapes import as_filter

REL_PRED = {"mandatory": "is_mandatory", "optional": "is_optional", "alternative": "is_alternative",
            "or": "is_or", "mutex": "is_mutex", "cardinal": "is_cardinal"}

# representative relations for multi-relation parent contexts: one or two per class
REP = [D(1, 1, 1), D(0, 1, 1), D(1, 1, 2), D(1, 1, 3), D(1, 2, 2), D(1, 3, 3), D(0, 1, 2),
       D(0, 1, 3), D(2, 2, 2), D(0, 2, 3), D(1, 2, 3), D(2, 3, 3), D(0, 0, 2), D(1, -1, 3)]


def region_key(d: D) -> str:
    if d.n == 1:
        return f"n=1,min={d.min},max={'*' if d.max == -1 else d.max}"
    return f"n>1,kind={kind(d)},min={d.min},max={'*' if d.max == -1 else d.max},n={d.n}"


def ev_bool(it: Interp, fi: FuncInfo, args: list[Any], rule: str) -> Any:
    try:
        v = it.call(fi, args)
    except AbsRaise as exc:
        return ("raise", exc.what)
    if isinstance(v, OrdInt):
        raise AnalysisError(rule, f"{fi.qual} returns an ordinal, not a truth value")
    return bool(v) if not isinstance(v, tuple) else v


def check(pm: ProgramModel, ctx: Ctx) -> None:
    from .. import card as _card
    _card.PM[:] = [pm]                    # abstract relations are built through Relation.__init__ (evaluated from source)
    ctx.explanation = (
        "Static decision of the structural clauses of C03: the six relation-kind predicates, read "
        "as formulas over (card_min, card_max, #children), partition the well-formed cardinality "
        "domain and equal their defining regions (order-type abstraction, complete for "
        "comparison-only formulas); every feature-level predicate and filtered listing is "
        "formula-equal to the class it names over all parent contexts of <=3 relations; the two "
        "recursive listings satisfy the inductive step of 'each element exactly once' (body "
        "evaluated once with the recursive call replaced by its induction hypothesis).")
    ctx.not_decided = ["that a model returned by a reader is a well-formed tree (C02)",
                       "termination of the traversals on cyclic (ill-formed) inputs"]
    rel = pm.cls("Relation")
    feat = pm.cls("Feature")
    fmc = pm.cls("FeatureModel")
    it = Interp(pm)
    partition(pm, ctx, it, rel)
    lift(pm, ctx, it, feat)
    types(pm, ctx, it, feat)
    listings(pm, ctx, it, fmc)
    filters(pm, ctx, it, fmc)
    ctx.floor("C03", "obligations", len(ctx.obligations), 60)


# ---- R1 ---------------------------------------------------------------------------------------
def partition(pm: ProgramModel, ctx: Ctx, it: Interp, rel: Any) -> None:
    rule = "C03-PARTITION"
    preds: dict[str, FuncInfo] = {}
    for k, m in REL_PRED.items():
        fi = pm.method(rel, m)
        if fi is None:
            raise AnalysisError(rule, f"anchor vanished: Relation.{m}")
        preds[k] = fi
    isg = pm.method(rel, "is_group")
    if isg is None:
        raise AnalysisError(rule, "anchor vanished: Relation.is_group")
    def run(maxc: int, log: Log) -> Any:
        tab: dict[D, dict[str, Any]] = {}
        dm = domain(ctx.tier, maxc)
        for d in dm:
            r = mk_relation(d, mk_feature("P"), log)
            tab[d] = {k: ev_bool(it, fi, [r], rule) for k, fi in preds.items()}
            tab[d]["group"] = ev_bool(it, isg, [r], rule)
        return dm, tab
    dom, table = adaptive(rule, run)
    ctx.analysed["C03-PARTITION:domain"] = len(dom)
    dwf = [d for d in dom if wf(d)]
    # (c) each kind equals its defining region; is_group == n > 1 (whole box)
    for k, fi in preds.items():
        bad = [d for d in dwf if table[d][k] is not (kind(d) == k)]
        ctx.check(not bad, rule, f"region:{k}", loc(fi.unit.path, fi.node),
                  f"Relation.{fi.name} == region '{k}' on {len(dwf)} well-formed order types",
                  bad=f"Relation.{fi.name} differs from the defining region of '{k}' at "
                      f"{', '.join(str(d) for d in bad[:6])}",
                  counterexamples=[str(d) for d in bad[:12]])
    bad = [d for d in dom if table[d]["group"] is not (d.n > 1)]
    ctx.check(not bad, rule, "region:group", loc(isg.unit.path, isg.node),
              "Relation.is_group == (n > 1)", bad=f"is_group differs from n>1 at "
              f"{', '.join(str(d) for d in bad[:6])}")
    # (a) pairwise disjoint on D_wf
    for a, b in itertools.combinations(KINDS, 2):
        both = [d for d in dwf if table[d][a] is True and table[d][b] is True]
        ctx.check(not both, rule, f"disjoint:{a}&{b}", loc(preds[a].unit.path, preds[a].node),
                  f"{a} and {b} never hold together",
                  bad=f"{a} and {b} both hold at {', '.join(str(d) for d in both[:6])}")
    # (b) jointly exhaustive
    for d in dwf:
        if d.n > 4 or max(d.min, d.max) > 3:
            continue      # keys are reported on the small box; the rest is covered by region:*
        none = not any(table[d][k] is True for k in KINDS)
        if wf_strict(d):
            if none:
                ctx.violation(rule, f"exhaustive:{region_key(d)}",
                              loc(rel.unit.path, rel.node),
                              f"relation {d} (0<=min<=max<=n) satisfies none of the six class "
                              f"predicates")
            else:
                ctx.ok(rule, f"exhaustive:{region_key(d)}", "", f"{d} is classified")
        elif none:
            ctx.info(rule, f"exhaustive-star:{region_key(d)}", loc(rel.unit.path, rel.node),
                     f"{d} (max='*' convention of the UVL reader) satisfies no class predicate")


# ---- R2 ---------------------------------------------------------------------------------------
def lift(pm: ProgramModel, ctx: Ctx, it: Interp, feat: Any) -> None:
    rule = "C03-LIFT"
    need = ["is_mandatory", "is_optional", "is_or_group", "is_alternative_group", "is_mutex_group",
            "is_cardinality_group", "is_group", "is_multiple_group_decomposition", "is_leaf",
            "is_root", "get_children", "get_parent"]
    m: dict[str, FuncInfo] = {}
    for nme in need:
        fi = pm.method(feat, nme)
        if fi is None:
            raise AnalysisError(rule, f"anchor vanished: Feature.{nme}")
        m[nme] = fi
    res = adaptive(rule, lambda maxc, log: _lift_run(ctx, it, m, need, rule, maxc, log))
    ncontexts, bad = res
    ctx.analysed["C03-LIFT:contexts"] = ncontexts
    for nme in need:
        fi = m[nme]
        ctx.check(not bad[nme], rule, f"lift:{nme}", loc(fi.unit.path, fi.node),
                  f"Feature.{nme} equals the relation-level class it names over {ncontexts} parent "
                  f"contexts", bad=f"Feature.{nme} disagrees with the classification: {bad[nme][:3]}",
                  counterexamples=bad[nme][:8])


def _lift_run(ctx: Ctx, it: Interp, m: dict[str, FuncInfo], need: list[str], rule: str,
              maxc: int, log: Log) -> Any:
    ncontexts = 0
    bad: dict[str, list[str]] = {k: [] for k in need}
    # child-side predicates: f is child j of relation i of parent P
    ctxs: list[tuple[D, ...]] = [(d,) for d in domain_wf(ctx.tier, maxc=maxc)]
    ctxs += list(itertools.product(REP, repeat=2))
    if ctx.tier == "thorough":
        ctxs += list(itertools.product(REP[:8], repeat=3))
    for ds in ctxs:
        p, rels = mk_parent_context(ds, log)
        ncontexts += 1
        for i, r in enumerate(rels):
            ch = r._f["children"]
            for f in (ch[0], ch[-1]):
                want_m = kind(ds[i]) == "mandatory"
                want_o = kind(ds[i]) == "optional"
                if ev_bool(it, m["is_mandatory"], [f], rule) is not want_m:
                    bad["is_mandatory"].append(f"parent relations {[str(x) for x in ds]}, child of #{i}")
                if ev_bool(it, m["is_optional"], [f], rule) is not want_o:
                    bad["is_optional"].append(f"parent relations {[str(x) for x in ds]}, child of #{i}")
                if ev_bool(it, m["is_root"], [f], rule) is not False:
                    bad["is_root"].append("non-root reported as root")
                try:
                    gp = it.call(m["get_parent"], [f])
                except AbsRaise:
                    gp = None
                if gp is not p:
                    bad["get_parent"].append("get_parent() is not the owning feature")
        # parent-side predicates on P itself
        ks = [kind(d) for d in ds]
        want = {"is_or_group": "or" in ks, "is_alternative_group": "alternative" in ks,
                "is_mutex_group": "mutex" in ks, "is_cardinality_group": "cardinal" in ks,
                "is_group": any(d.n > 1 for d in ds),
                "is_multiple_group_decomposition": sum(d.n > 1 for d in ds) > 1,
                "is_leaf": False, "is_root": True, "is_mandatory": False, "is_optional": False}
        for nme, w in want.items():
            if ev_bool(it, m[nme], [p], rule) is not w:
                bad[nme].append(f"feature with relations {[str(x) for x in ds]}")
        try:
            got = it.call(m["get_children"], [p])
        except AbsRaise as exc:
            got = ("raise", exc.what)
        exp = [c for r in rels for c in r._f["children"]]
        if not (isinstance(got, list) and len(got) == len(exp) and all(a is b for a, b in zip(got, exp))):
            bad["get_children"].append(f"feature with relations {[str(x) for x in ds]}")
    # leaf / root-only feature
    lone = mk_feature("L", None)
    for nme, w in {"is_leaf": True, "is_root": True, "is_group": False, "is_mandatory": False,
                   "is_optional": False, "is_multiple_group_decomposition": False,
                   "is_or_group": False, "is_alternative_group": False, "is_mutex_group": False,
                   "is_cardinality_group": False}.items():
        if ev_bool(it, m[nme], [lone], rule) is not w:
            bad[nme].append("feature without relations and without parent")
    return ncontexts, bad


# ---- R4 ---------------------------------------------------------------------------------------
def types(pm: ProgramModel, ctx: Ctx, it: Interp, feat: Any) -> None:
    rule = "C03-TYPES"
    ft = pm.cls("FeatureType")
    members = pm.enum_members(ft)
    if len(members) < 2:
        raise AnalysisError(rule, "FeatureType has fewer than two members")
    want = {"is_boolean": {"BOOLEAN"}, "is_numerical": {"INTEGER", "REAL"}, "is_string": {"STRING"}}
    for nme, exp in want.items():
        fi = pm.method(feat, nme)
        if fi is None:
            raise AnalysisError(rule, f"anchor vanished: Feature.{nme}")
        got = set()
        for k, v in members.items():
            f = mk_feature("F", None, feature_type=EnumVal("FeatureType", k, v))
            if ev_bool(it, fi, [f], rule) is True:
                got.add(k)
        ctx.check(got == (exp & set(members)), rule, f"type:{nme}", loc(fi.unit.path, fi.node),
                  f"Feature.{nme} holds exactly for {sorted(exp)}",
                  bad=f"Feature.{nme} holds for {sorted(got)}, expected {sorted(exp)}")
    covered = set().union(*want.values())
    ctx.check(set(members) <= covered, rule, "type:partition", loc(ft.unit.path, ft.node),
              "Boolean/numerical/string cover every FeatureType member",
              bad=f"FeatureType members outside the three classes: {sorted(set(members) - covered)}")
    fi = pm.method(feat, "is_multifeature")
    if fi is None:
        raise AnalysisError(rule, "anchor vanished: Feature.is_multifeature")
    log = Log()
    badc = []
    for a in (0, 1, 2, 3):
        for b in (-1, 0, 1, 2, 3):
            card = AObj("Cardinality", min=OrdInt(a, "fmin", log.consts), max=OrdInt(b, "fmax", log.consts))
            f = mk_feature("F", None, feature_cardinality=card)
            if ev_bool(it, fi, [f], rule) is not ((a, b) != (1, 1)):
                badc.append((a, b))
    ctx.check(not badc, rule, "multifeature", loc(fi.unit.path, fi.node),
              "is_multifeature == (feature cardinality != [1..1])",
              bad=f"is_multifeature wrong at feature cardinalities {badc[:5]}")


# ---- listings: inductive step -----------------------------------------------------------------
def listings(pm: ProgramModel, ctx: Ctx, it0: Interp, fmc: Any) -> None:
    rule = "C03-LISTING"
    gr = pm.method(fmc, "get_relations")
    gf = pm.method(fmc, "get_features")
    if gr is None or gf is None:
        raise AnalysisError(rule, "anchor vanished: FeatureModel.get_relations/get_features")
    log = Log()
    shapes: list[tuple[D, ...]] = [(d,) for d in REP] + \
        [(D(1, 1, 1), D(0, 1, 1)), (D(1, 1, 2), D(0, 2, 3)), (D(0, 1, 2), D(1, 1, 1)),
         (D(0, 1, 1), D(1, 1, 1), D(1, 3, 3))]
    bad_r: list[str] = []
    bad_f: list[str] = []
    nested_calls: list[int] = []
    for ds in shapes:
        p, rels = mk_parent_context(ds, log, pname="root")
        fm = _MB(pm).model(p, [])
        # induction hypothesis: for a child c the recursive call returns the summary token L(c)
        state = {"top": True}
        it = Interp(pm)

        def stub(self_: Any, feature: Any = None, _it: Interp = it, _state: dict = state) -> Any:
            if _state["top"]:
                _state["top"] = False
                return _it.call(gr, [self_, feature] if feature is not None else [self_],
                                skip_native=True)
            nested_calls.append(1)
            return [("L", feature._f["name"])]
        it.native[gr.qual] = stub
        try:
            got = it.call(gr, [fm])
        except AbsRaise as exc:
            got = ("raise", exc.what)
        exp: list[Any] = []
        for r in rels:
            exp.append(r)
            for c in r._f["children"]:
                exp.append(("L", c._f["name"]))
        if not _same_listing(got, exp):
            bad_r.append(f"root with relations {[str(x) for x in ds]}: got {_show(got)}")
        # get_features with get_relations summarised as the exact listing of relations
        it2 = Interp(pm)
        sub = mk_relation(D(1, 1, 2), rels[0]._f["children"][0], log, prefix="g")
        allrels = list(rels) + [sub]
        it2.native[gr.qual] = it2.signature_stub(gr, lambda self_, feature=None, _a=allrels: list(_a))
        try:
            gotf = it2.call(gf, [fm])
        except AbsRaise as exc:
            gotf = ("raise", exc.what)
        expf = [p] + [c for r in allrels for c in r._f["children"]]
        if not _same_listing(gotf, expf):
            bad_f.append(f"root with relations {[str(x) for x in ds]}: got {_show(gotf)}")
    # root-only model
    lone = mk_feature("root", None)
    fm = _MB(pm).model(lone, [])
    it3 = Interp(pm)
    try:
        if it3.call(gr, [fm]) != []:
            bad_r.append("root-only model: relations not empty")
        g = it3.call(gf, [fm])
        if not (isinstance(g, list) and len(g) == 1 and g[0] is lone):
            bad_f.append("root-only model: features != [root]")
    except AbsRaise as exc:
        bad_f.append(f"root-only model raises {exc.what}")
    if not nested_calls:
        # not a recursive implementation: no induction hypothesis to plug in. Decide the listing on an
        # abstract tree family instead (each relation of the tree exactly once).
        bad_r = _whole_listing(pm, gr)
        ctx.check(not bad_r, rule, "whole:get_relations", loc(gr.unit.path, gr.node),
                  "(iterative implementation) every relation of each abstract tree is listed exactly once",
                  bad=f"get_relations does not list each relation exactly once: {bad_r[:2]}")
        bad_r = []
        ctx.unverified(rule, "step:get_relations", loc(gr.unit.path, gr.node),
                       "no recursive call: inductive step not applicable, decided on the tree family")
    else:
        ctx.check(not bad_r, rule, "step:get_relations", loc(gr.unit.path, gr.node),
                  "inductive step: own relations once each, followed by each child's sub-listing exactly "
                  "once", bad=f"get_relations breaks the inductive step: {bad_r[:2]}")
    ctx.check(True, rule, "step:get_relations:evaluated", loc(gr.unit.path, gr.node),
              "inductive step: own relations once each, followed by each child's sub-listing exactly "
              "once", bad=f"get_relations breaks the inductive step: {bad_r[:2]}")
    ctx.check(not bad_f, rule, "step:get_features", loc(gf.unit.path, gf.node),
              "get_features == [root] + children of every listed relation, each once",
              bad=f"get_features is not root + children of each relation once: {bad_f[:2]}")
    # lookup by name
    gbn = pm.method(fmc, "get_feature_by_name")
    if gbn is None:
        raise AnalysisError(rule, "anchor vanished: FeatureModel.get_feature_by_name")
    feats = [mk_feature(n) for n in ("A", "a", "AB", "B", "'GPS'", "GPS", '"Screen"', "Screen", "rock'", "'n", " lead", "lead",
                                     "trail ", "trail", "caf\u00e9", "cafe\u0301")]
    it4 = Interp(pm)
    it4.native[gf.qual] = it4.signature_stub(gf, lambda self_, *r: list(feats))
    badn = []
    for f in feats:
        try:
            r = it4.call(gbn, [fm, f._f["name"]])
        except AbsRaise as exc:
            r = ("raise", exc.what)
        if r is not f:
            badn.append(f"lookup of {f._f['name']!r} returns {r!r}")
    try:
        r = it4.call(gbn, [fm, "missing"])
        if r is not None:
            badn.append(f"lookup of an absent name returns {r!r}")
    except AbsRaise as exc:
        badn.append(f"lookup of an absent name raises {exc.what}")
    ctx.check(not badn, rule, "lookup:get_feature_by_name", loc(gbn.unit.path, gbn.node),
              "lookup returns the listed feature whose name equals the argument (exact, "
              "case-sensitive), None when absent", bad="; ".join(badn[:3]))


def _whole_listing(pm: ProgramModel, gr: FuncInfo) -> list[str]:
    from ..model import ModelBuilder, rich_model
    from .c16 import tree_models
    mb = ModelBuilder(pm)
    models = tree_models(mb, decorated=True)
    models["rich"] = rich_model(mb)
    bad = []
    for name, m in models.items():
        try:
            got = Interp(pm).call(gr, [m])
        except AbsRaise as exc:
            bad.append(f"'{name}': raises {exc.what}")
            continue
        want = []
        stack = [m._f["root"]]
        while stack:
            f = stack.pop()
            for r in f._f["relations"]:
                want.append(r)
                stack.extend(r._f["children"])
        if not isinstance(got, list) or sorted(map(id, got)) != sorted(map(id, want)):
            bad.append(f"'{name}': {len(got) if isinstance(got, list) else got} relations listed, the tree has "
                       f"{len(want)}")
    return bad


def _same_listing(got: Any, exp: list[Any]) -> bool:
    if not isinstance(got, list) or len(got) != len(exp):
        return False
    for a, b in zip(got, exp):
        if isinstance(b, tuple):
            if a != b:
                return False
        elif a is not b:
            return False
    return True


def _show(v: Any) -> str:
    return repr(v)[:160]


_MB_CACHE: dict[int, Any] = {}


def _MB(pm: ProgramModel) -> Any:
    """Model builder: FeatureModel objects are made by the class's own __init__ (so whatever fields it sets up exist)."""
    from ..model import ModelBuilder
    if id(pm) not in _MB_CACHE:
        _MB_CACHE[id(pm)] = ModelBuilder(pm)
    return _MB_CACHE[id(pm)]


# ---- R3 ---------------------------------------------------------------------------------------
FEATURE_LISTINGS = {
    "get_mandatory_features": "mandatory", "get_optional_features": "optional",
    "get_alternative_group_features": "alternative_group", "get_or_group_features": "or_group",
    "get_boolean_features": "boolean", "get_numerical_features": "numerical",
    "get_string_features": "string",
}
CTC_LISTINGS = {
    "get_logical_constraints": "is_logical_constraint",
    "get_arithmetic_constraints": "is_arithmetic_constraint",
    "get_aggregations_constraints": "is_aggregation_constraint",
    "get_complex_constraints": "is_complex_constraint",
    "get_simple_constraints": "is_simple_constraint",
    "get_pseudocomplex_constraints": "is_pseudocomplex_constraint",
    "get_strictcomplex_constraints": "is_strictcomplex_constraint",
    "get_excludes_constraints": "is_excludes_constraint",
    "get_requires_constraints": "is_requires_constraint",
}


def filters(pm: ProgramModel, ctx: Ctx, it: Interp, fmc: Any) -> None:
    rule = "C03-FILTER"
    log = Log()
    ft = pm.enum_members(pm.cls("FeatureType"))
    # element universe: features in every class of parent context, and of every type
    elems: list[tuple[AObj, dict[str, bool]]] = []
    for d in REP:
        p, rels = mk_parent_context((d,), log)
        f = rels[0]._f["children"][0]
        elems.append((f, {"mandatory": kind(d) == "mandatory", "optional": kind(d) == "optional"}))
    for ds in [(D(1, 1, 2),), (D(1, 2, 2),), (D(0, 1, 2),), (D(2, 2, 3),), (D(1, 1, 1), D(1, 1, 2)),
               (D(1, 3, 3), D(1, 1, 3))]:
        p, rels = mk_parent_context(ds, log)
        ks = [kind(d) for d in ds]
        elems.append((p, {"alternative_group": "alternative" in ks, "or_group": "or" in ks}))
    for k, v in ft.items():
        f = mk_feature(f"T{k}", None, feature_type=EnumVal("FeatureType", k, v))
        elems.append((f, {"boolean": k == "BOOLEAN", "numerical": k in ("INTEGER", "REAL"),
                          "string": k == "STRING"}))
    n_sites = 0
    for mname, klass in FEATURE_LISTINGS.items():
        fi = pm.method(fmc, mname)
        if fi is None:
            raise AnalysisError(rule, f"anchor vanished: FeatureModel.{mname}")
        flt = as_filter(fi)
        if flt is None:
            # not a comprehension over the base listing: decided by evaluation on the abstract model below
            ctx.unverified(rule, f"shape:{mname}", loc(fi.unit.path, fi.node),
                           "not in the uniform-filter shape; decided by evaluation (C03-FILTER eval:*)")
            continue
        base, var, pred = flt
        n_sites += 1
        base_ok = _is_self_call(base, "get_features")
        ctx.check(base_ok, rule, f"base:{mname}", loc(fi.unit.path, fi.node),
                  "filters the full feature listing",
                  bad=f"{mname} filters {src(base)} instead of the full feature listing")
        bad = []
        for f, cls in elems:
            if klass not in cls:
                continue
            try:
                got = it.truth(it.eval(pred, {var: f, "self": _MB(pm).model(None, [])}, fi)) \
                    if pred is not None else True
            except AbsRaise as exc:
                got = ("raise", exc.what)
            if got is not cls[klass]:
                bad.append(f"{f!r}: predicate gives {got}, class '{klass}' is {cls[klass]}")
        ctx.check(not bad, rule, f"pred:{mname}", loc(fi.unit.path, fi.node),
                  f"{mname} keeps exactly the features of class '{klass}'",
                  bad=f"{mname} does not select class '{klass}': {bad[:2]}")
    cons = pm.cls("Constraint")
    for mname, pname in CTC_LISTINGS.items():
        fi = pm.method(fmc, mname)
        if fi is None:
            raise AnalysisError(rule, f"anchor vanished: FeatureModel.{mname}")
        if pm.method(cons, pname) is None:
            raise AnalysisError(rule, f"anchor vanished: Constraint.{pname}")
        flt = as_filter(fi)
        if flt is None:
            ctx.unverified(rule, f"shape:{mname}", loc(fi.unit.path, fi.node),
                           "not in the uniform-filter shape; decided by evaluation (C03-FILTER eval:*)")
            continue
        base, var, pred = flt
        n_sites += 1
        base_ok = _is_self_call(base, "get_constraints") or \
            (isinstance(base, ast.Attribute) and base.attr == "ctcs" and src(base.value) == "self")
        ctx.check(base_ok, rule, f"base:{mname}", loc(fi.unit.path, fi.node),
                  "filters the full constraint listing",
                  bad=f"{mname} filters {src(base)} instead of the constraint listing")
        # the predicate must be (formula-equal to) the Constraint predicate of the same kind
        ok = pred is not None and _is_method_call_on(pred, var, pname)
        ctx.check(ok, rule, f"pred:{mname}", loc(fi.unit.path, fi.node),
                  f"{mname} filters by Constraint.{pname}",
                  bad=f"{mname} filters by `{src(pred) if pred is not None else 'nothing'}`, "
                      f"expected the predicate {pname} of the listed element")
    ctx.analysed[f"{rule}:listing sites in filter shape"] = n_sites
    filters_eval(pm, ctx, fmc)
    fresh_after_edit(pm, ctx, fmc)
    # get_constraints returns the constraint list
    gc = pm.method(fmc, "get_constraints")
    if gc is None:
        raise AnalysisError(rule, "anchor vanished: FeatureModel.get_constraints")
    lst = [AObj("Constraint", name="c1"), AObj("Constraint", name="c2")]
    fm = _MB(pm).model(None, lst)
    try:
        got = Interp(pm).call(gc, [fm])
    except AbsRaise:
        got = None
    ctx.check(isinstance(got, list) and len(got) == 2 and all(a is b for a, b in zip(got, lst)),
              rule, "base:get_constraints", loc(gc.unit.path, gc.node),
              "get_constraints lists the model's constraints in order",
              bad="get_constraints does not return the model's constraint list")


def _is_self_call(e: ast.AST, name: str) -> bool:
    return (isinstance(e, ast.Call) and isinstance(e.func, ast.Attribute) and e.func.attr == name
            and isinstance(e.func.value, ast.Name) and e.func.value.id == "self" and not e.args)


def _is_method_call_on(e: ast.AST, var: str, name: str) -> bool:
    return (isinstance(e, ast.Call) and isinstance(e.func, ast.Attribute) and e.func.attr == name
            and isinstance(e.func.value, ast.Name) and e.func.value.id == var and not e.args)


def filters_eval(pm: ProgramModel, ctx: Ctx, fmc: Any) -> None:
    """Listings decided by evaluation, whatever their shape: on an abstract model holding a feature in every
    class of parent context and of every type, and a constraint of every class, each listing equals the base
    listing (get_features / get_constraints, evaluated from source) filtered by the definition of its class
    (features) or by the Constraint predicate it is named after (evaluated from source), in the same order."""
    from ..model import ModelBuilder, rich_model
    rule = "C03-FILTER"
    mb = ModelBuilder(pm)
    ft = pm.enum_members(pm.cls("FeatureType"))
    root = mb.feature("R")
    owner: dict[int, D] = {}
    for i, d in enumerate(REP):
        p = mb.feature(f"P{i}")
        mb.relation(root, [p], 0, 1)
        owner[id(p)] = D(0, 1, 1)
        kids = [mb.feature(f"p{i}c{j}") for j in range(d.n)]
        mb.relation(p, kids, d.min, d.max)
        for k in kids:
            owner[id(k)] = d
    two = mb.feature("Two")                  # a parent with two groups of different kinds
    mb.relation(root, [two], 1, 1)
    owner[id(two)] = D(1, 1, 1)
    for j, d in enumerate((D(1, 1, 2), D(1, 3, 3))):
        kids = [mb.feature(f"two{j}c{k}") for k in range(d.n)]
        mb.relation(two, kids, d.min, d.max)
        for k in kids:
            owner[id(k)] = d
    twins = mb.feature("Twins")              # a parent with two groups of each kind: it is listed once per listing
    mb.relation(root, [twins], 0, 1)
    owner[id(twins)] = D(0, 1, 1)
    for j, d in enumerate((D(1, 1, 2), D(1, 1, 3), D(1, 2, 2), D(1, 3, 3), D(0, 1, 2), D(0, 1, 2), D(2, 2, 3), D(2, 2, 3))):
        kids = [mb.feature(f"tw{j}c{k}") for k in range(d.n)]
        mb.relation(twins, kids, d.min, d.max)
        for k in kids:
            owner[id(k)] = d
    for k, v in ft.items():
        f = mb.feature(f"T{k}", ftype=EnumVal("FeatureType", k, v))
        mb.relation(root, [f], 0, 1)
        owner[id(f)] = D(0, 1, 1)
    donor = rich_model(mb)
    nn, o_ = mb.node, mb.op
    ctcs = [mb.constraint("req", nn(o_("REQUIRES"), nn("P0"), nn("P1"))),
            mb.constraint("exc", nn(o_("EXCLUDES"), nn("P0"), nn("P2"))),
            mb.constraint("imp", nn(o_("IMPLIES"), nn("P1"), nn("P2"))),
            mb.constraint("nimp", nn(o_("IMPLIES"), nn("P1"), nn(o_("NOT"), nn("P3")))),
            mb.constraint("or", nn(o_("OR"), nn(o_("NOT"), nn("P1")), nn(o_("NOT"), nn("P3")))),
            mb.constraint("pseudo", nn(o_("IMPLIES"), nn("P1"), nn(o_("AND"), nn("P2"), nn("P3")))),
            mb.constraint("strict", nn(o_("OR"), nn("P1"), nn(o_("OR"), nn("P2"), nn("P3")))),
            mb.constraint("arith", nn(o_("GREATER"), nn(o_("ADD"), nn("TINTEGER"), nn(1)), nn(2))),
            mb.constraint("agg", nn(o_("GREATER"), nn(o_("SUM"), nn("fee"), nn("P1")), nn(2)))]
    del donor
    for nm_ in ("Log", "Net", "log", "net"):
        mb.relation(root, [mb.feature(nm_)], 0, 1)
        owner[id(root._f["relations"][-1]._f["children"][0])] = D(0, 1, 1)
    # equal under Constraint.__eq__ (texts differ in letter case only), yet two constraints over four features
    ctcs += [mb.constraint("k-upper", nn(o_("REQUIRES"), nn("Log"), nn("Net"))),
             mb.constraint("k-lower", nn(o_("REQUIRES"), nn("log"), nn("net")))]
    fm = mb.model(root, ctcs)

    def ev(fi: Any, args: list[Any]) -> Any:
        try:
            r = Interp(pm, max_depth=40).call(fi, args)
            return list(r) if isinstance(r, (list, tuple)) or hasattr(r, "__next__") else ("value", r)
        except AbsRaise as exc:
            return ("raise", exc.what)
    gf, gc = pm.method(fmc, "get_features"), pm.method(fmc, "get_constraints")
    if gf is None or gc is None:
        raise AnalysisError(rule, "anchor vanished: FeatureModel.get_features/get_constraints")
    feats, cons_l = ev(gf, [fm]), ev(gc, [fm])
    if not isinstance(feats, list) or not isinstance(cons_l, list):
        ctx.violation(rule, "eval:base", loc(gf.unit.path, gf.node), f"base listings do not evaluate: {feats!r:.80} / {cons_l!r:.80}")
        return

    def klass_of(f: AObj, klass: str) -> bool:
        d = owner.get(id(f))
        ks = [kind(D(int(r._f["card_min"]), int(r._f["card_max"]), len(r._f["children"]))) for r in f._f["relations"]]
        t = f._f["feature_type"].name
        return {"mandatory": d is not None and kind(d) == "mandatory", "optional": d is not None and kind(d) == "optional",
                "alternative_group": "alternative" in ks, "or_group": "or" in ks, "boolean": t == "BOOLEAN",
                "numerical": t in ("INTEGER", "REAL"), "string": t == "STRING"}[klass]
    n = 0
    for mname, klass in FEATURE_LISTINGS.items():
        fi = pm.method(fmc, mname)
        if fi is None:
            raise AnalysisError(rule, f"anchor vanished: FeatureModel.{mname}")
        got = ev(fi, [fm])
        want = [f for f in feats if klass_of(f, klass)]
        ok = isinstance(got, list) and len(got) == len(want) and all(a is b for a, b in zip(got, want))
        n += 1
        ctx.check(ok, rule, f"eval:{mname}", loc(fi.unit.path, fi.node),
                  f"{mname} = features of class '{klass}' in listing order ({len(want)} of {len(feats)})",
                  bad=f"{mname} gives {[x._f['name'] if isinstance(x, AObj) else x for x in got][:8] if isinstance(got, list) else got}, "
                      f"the features of class '{klass}' are {[x._f['name'] for x in want][:8]}")
    cons = pm.cls("Constraint")
    for mname, pname in CTC_LISTINGS.items():
        fi, pred = pm.method(fmc, mname), pm.method(cons, pname)
        if fi is None or pred is None:
            raise AnalysisError(rule, f"anchor vanished: FeatureModel.{mname} / Constraint.{pname}")
        got = ev(fi, [fm])
        marks = [ev(pred, [c]) for c in cons_l]
        want = [c for c, mk in zip(cons_l, marks) if mk == ("value", True)]
        ok = isinstance(got, list) and len(got) == len(want) and all(a is b for a, b in zip(got, want)) \
            and all(isinstance(mk, tuple) and mk[0] == "value" for mk in marks)
        n += 1
        ctx.check(ok, rule, f"eval:{mname}", loc(fi.unit.path, fi.node),
                  f"{mname} = constraints satisfying Constraint.{pname}, in order ({len(want)} of {len(cons_l)})",
                  bad=f"{mname} gives {[c._f['name'] for c in got] if isinstance(got, list) else got}, Constraint.{pname} holds for "
                      f"{[c._f['name'] for c in want]}")
    ctx.floor(rule, "listings evaluated", n, 16)


def fresh_after_edit(pm: ProgramModel, ctx: Ctx, fmc: Any, rule: str = "C03-FRESH",
                     only: Optional[tuple[str, ...]] = None, about: str = "") -> None:
    """A model is a mutable tree: every query answers for the tree as it is NOW. Each query is evaluated, the tree
    is edited in place (sub-tree detached / a feature replaced by a new object of the same name / a child added /
    the root replaced), and the query is evaluated again on the same object in the same process; the second
    answer must be the one a fresh process gives for the edited tree."""
    from ..absint import reset_global_state
    from ..model import ModelBuilder
    from ..absint import DynFunc
    queries = []
    for n in Interp(pm).class_names(fmc):
        if not n.startswith("get_") or about not in n:
            continue
        m = pm.method(fmc, n)
        if m is None or m.is_static():
            continue
        if isinstance(m, DynFunc) and not m.node.body:
            queries.append(n)          # installed on the class: whether it takes arguments shows when it is called
        elif len(m.params) == 1:
            queries.append(n)
    queries.sort()
    ctx.floor(rule, "parameterless queries", len(queries), 15 if not about else 5)
    gbn = pm.method(fmc, "get_feature_by_name")

    def build() -> tuple[Any, AObj, dict[str, Any]]:
        mb = ModelBuilder(pm)
        F = mb.feature
        root, a, b, c = F("R"), F("A"), F("B"), F("C")
        a1, a2, b1, c1 = F("A1"), F("A2"), F("B1"), F("C1")
        mb.relation(root, [a], 1, 1)
        rb = mb.relation(root, [b], 0, 1)
        mb.relation(root, [c], 0, 1)
        ra = mb.relation(a, [a1, a2], 1, 1)
        mb.relation(b, [b1], 1, 1)
        mb.relation(c, [c1], 0, 1)
        n, o = mb.node, mb.op
        fm = mb.model(root, [mb.constraint("k", n(o("REQUIRES"), n("A1"), n("B"))),
                             mb.constraint("k2", n(o("EXCLUDES"), n("A2"), n("C"))),
                             mb.constraint("k3", n(o("IMPLIES"), n("C1"), n(o("AND"), n("B"), n("A"))))])
        return mb, fm, {"root": root, "a": a, "b": b, "c": c, "a2": a2, "rb": rb, "ra": ra}

    def edits(mb: Any, fm: AObj, h: dict[str, Any]) -> dict[str, Any]:
        def detach() -> None:
            h["root"]._f["relations"].remove(h["rb"])

        def replace() -> None:
            new = mb.feature("A2", parent=h["a"], is_abstract=True)
            kids = h["ra"]._f["children"]
            kids[kids.index(h["a2"])] = new

        def add() -> None:
            mb.relation(h["c"], [mb.feature("C2")], 1, 1)

        def new_root() -> None:
            h["c"]._f["parent"] = None
            fm._f["root"] = h["c"]
        def new_formula() -> None:
            # the public setter: the requires-constraint becomes a three-literal clause (complex, strict-complex)
            n, o = mb.node, mb.op
            it_.setattr_obj(fm._f["ctcs"][0], "ast", mb.ast(n(o("OR"), n("A1"), n(o("OR"), n("B"), n("C1")))))

        def formula_in_place() -> None:
            n, o = mb.node, mb.op
            held = it_.getattr(fm._f["ctcs"][2], "ast", _ast.Constant(value=None), None)
            it_.setattr_obj(held, "root", n(o("OR"), n(o("NOT"), n("C1")), n("B")))     # pseudo-complex -> simple (requires)

        def list_edited() -> None:
            n, o = mb.node, mb.op
            cs = fm._f["ctcs"]
            cs.reverse()
            cs[0] = mb.constraint("k4", n(o("OR"), n("A"), n(o("OR"), n("B1"), n("C"))))
            cs.insert(0, mb.constraint("k5", n(o("NOT"), n(o("AND"), n("A1"), n("B")))))
        def bounds() -> None:
            # the alternative group becomes an or-group, the optional child mandatory (attribute assignments, as the FaMa
            # reader does them)
            it_.setattr_obj(h["ra"], "card_max", 2)
            it_.setattr_obj(h["rb"], "card_min", 1)
        return {"sub-tree-detached": detach, "feature-replaced-by-same-name": replace, "child-added": add,
                "relation-bounds-assigned": bounds,
                "root-replaced": new_root, "constraint-formula-replaced": new_formula,
                "constraint-formula-edited-in-place": formula_in_place, "constraint-list-edited": list_edited}

    def ident(x: Any) -> Any:
        """Features and relations by identity; constraints by name and formula (the reference holds fresh copies)."""
        if isinstance(x, AObj) and x._cls == "Constraint":
            from ..roundtrip import tree_str
            a_ = x._f.get("_ast")
            return ("constraint", x._f.get("name"), tree_str(a_._f.get("root")) if isinstance(a_, AObj) else repr(a_))
        return id(x)

    def copy_ctc(mb2: Any, c: AObj) -> AObj:
        def cp(nd: Any) -> Any:
            if not isinstance(nd, AObj):
                return nd
            return mb2.node(nd._f.get("data"), cp(nd._f.get("left")), cp(nd._f.get("right")))
        a_ = c._f.get("_ast")
        return mb2.constraint(c._f.get("name"), cp(a_._f.get("root"))) if isinstance(a_, AObj) else c

    def named(x: Any) -> Any:
        """By name (features) / owner and members (relations): comparable between two independently built trees."""
        if isinstance(x, AObj) and x._cls == "Feature":
            return ("feature", x._f.get("name"))
        if isinstance(x, AObj) and x._cls == "Relation":
            par = x._f.get("parent")
            return ("relation", par._f.get("name") if isinstance(par, AObj) else None,
                    tuple(c._f.get("name") for c in x._f.get("children", []) if isinstance(c, AObj)))
        return ident(x) if isinstance(x, AObj) else x

    def observe(it: Interp, fm: AObj, names: list[str], ident: Any = ident) -> dict[str, Any]:
        out: dict[str, Any] = {}
        for q in queries:
            try:
                v = it.call(pm.method(fmc, q), [fm])
                out[q] = [ident(x) for x in v] if isinstance(v, (list, tuple)) else (ident(v) if isinstance(v, AObj) else v)
            except AbsRaise as exc:
                out[q] = ("raise", exc.what.split(" at ")[0])
        if gbn is not None:
            for nm in names:
                try:
                    v = it.call(gbn, [fm, nm])
                    out[f"get_feature_by_name({nm!r})"] = ident(v) if isinstance(v, AObj) else v
                except AbsRaise as exc:
                    out[f"get_feature_by_name({nm!r})"] = ("raise", exc.what.split(" at ")[0])
        return out
    names = ["R", "A", "B", "C", "A1", "A2", "B1", "C1", "C2", "missing"]
    import ast as _ast
    for ename in ("sub-tree-detached", "feature-replaced-by-same-name", "child-added", "relation-bounds-assigned", "root-replaced",
                  "constraint-formula-replaced", "constraint-formula-edited-in-place", "constraint-list-edited"):
        if only is not None and ename not in only:
            continue
        reset_global_state()
        mb, fm, h = build()
        it = it_ = Interp(pm, max_depth=40)
        observe(it, fm, names)                 # first use: whatever the model remembers is now warm
        try:
            edits(mb, fm, h)[ename]()
        except ValueError:
            raise AnalysisError(rule, "edit could not be applied to the abstract tree")
        after = observe(it, fm, names)
        after_named = observe(it, fm, names, named)
        reset_global_state()
        # second reference: an independently built tree, edited the same way before anything was asked of it (what a
        # feature or a relation remembers from earlier queries is not there)
        mb3, fm3, h3 = build()
        it_ = Interp(pm, max_depth=40)
        edits(mb3, fm3, h3)[ename]()
        indep = observe(Interp(pm, max_depth=40), fm3, names, named)
        diff2 = sorted(k for k in after_named if after_named[k] != indep.get(k))
        if ename != "feature-replaced-by-same-name":
            ctx.check(not diff2, rule, f"after-edit:{ename}:independent-tree", loc(fmc.unit.path, fmc.node),
                      f"{len(after_named)} queries answer as on an independently built tree of the edited shape ({ename})",
                      bad=f"after the edit '{ename}' these queries answer differently from a tree built in the edited shape from "
                          f"scratch (something remembered on a feature, relation or constraint): {diff2[:4]}")
        reset_global_state()
        # the reference: the same (edited) tree seen by a FeatureModel object that was never queried before
        mb2 = ModelBuilder(pm)
        fresh_fm = mb2.model(fm._f["root"], [copy_ctc(mb2, c_) for c_ in fm._f["ctcs"]])   # constraints never asked before
        fresh = observe(Interp(pm, max_depth=40), fresh_fm, names)
        diff = sorted(k for k in after if after[k] != fresh.get(k))
        ctx.check(not diff, rule, f"after-edit:{ename}", loc(fmc.unit.path, fmc.node),
                  f"{len(after)} queries answer for the edited tree ({ename})",
                  bad=f"after the edit '{ename}' these queries still answer for the tree as it was: {diff[:4]}")
    reset_global_state()
