"""C14 — core features are exactly the always-selected features of the tree (DESIGN §5 C14)."""
from __future__ import annotations

import itertools
from typing import Any

from ..absint import AObj, AbsRaise, Interp
from ..card import D, domain_wf, forced_all, kind
from ..core import AnalysisError, Ctx, loc
from ..model import ModelBuilder
from ..pm import ProgramModel
from ..steps import check_wrapper, returned_name, run_block, split_while, worklist_name

REP = [D(1, 1, 1), D(0, 1, 1), D(1, 1, 2), D(1, 2, 2), D(0, 1, 2), D(2, 2, 2), D(3, 3, 3), D(2, 3, 3),
       D(0, 0, 1), D(1, -1, 1)]


def check(pm: ProgramModel, ctx: Ctx) -> None:
    ctx.explanation = (
        "Hoare-style step check decided statically on the worklist closure: (init) before the loop "
        "result and worklist are both [root]; (step) the loop body, read as a transfer function "
        "over an abstract state (worklist with a popped feature whose relations range over all "
        "well-formed cardinalities and pairs of representatives), removes exactly one feature x "
        "from the worklist and appends to result and to worklist exactly the children of the "
        "relations of x that force all their children (min >= n); (exit) the result list is "
        "returned. By induction over loop iterations on a tree the result is the least set "
        "containing the root and closed under forced relations, each feature once: sound with "
        "constraints, exact without.")
    ctx.not_decided = []
    ctx.assumptions = ["well-formed tree: a feature is a child of exactly one relation",
                       "feature-model semantics of [min..max] relations as in card.py"]
    rule = "C14"
    fn = pm.func("get_core_features", "fm_core_features")
    mb = ModelBuilder(pm)
    try:
        step_check(pm, ctx, mb, fn, rule)
    except AnalysisError as exc:
        # not the worklist shape the step check understands (e.g. rewritten recursively): no verdict from
        # the step argument; the whole-function evaluation below still decides the abstract tree family
        ctx.unverified("C14-STEP", "shape", loc(fn.unit.path, fn.node), f"step check not applicable: {exc.reason}")
    # whole function on abstract trees (covers paths that leave before / around the loop) ------------
    from .c16 import tree_models
    from ..model import rich_model
    from ..roundtrip import features as all_features
    models = tree_models(mb)
    models["rich"] = rich_model(mb)
    from .c16 import edit_in_place
    work = []
    for name, m in models.items():
        work.append((name, m, False))
        if name in ("bushy", "rich", "two-groups"):
            work.append((name + ":edited-in-place", m, True))      # same object, edited after the first analysis
    it = Interp(pm)
    for name, m, edit in work:
        if edit:
            edit_in_place(mb, m)
        try:
            got = it.call(fn, [m])
        except AbsRaise as exc:
            got = ("raise", exc.what)
        want = _core(m)
        okk = isinstance(got, list) and sorted(f._f["name"] for f in got) == sorted(f._f["name"] for f in want) \
            and len({id(f) for f in got}) == len(got)
        ctx.check(okk, "C14-WHOLE", f"tree:{name}", loc(fn.unit.path, fn.node),
                  f"core features of abstract tree '{name}' are the closure of the root under forced relations",
                  bad=f"get_core_features on abstract tree '{name}' gives "
                      f"{[f._f['name'] for f in got] if isinstance(got, list) else got}, the always-selected "
                      f"features are {[f._f['name'] for f in want]}")
    # with cross-tree constraints only soundness is required: every reported feature is in every valid
    # configuration (decided over all 2^n selections of small abstract models with constraints of each shape)
    from ..exports import all_selections, model_names, model_valid
    n_, o_ = mb.node, mb.op
    shapes = {
        "negated-literal": [n_(o_("NOT"), n_("B"))],
        "literal": [n_("B")],
        "requires-from-core": [n_(o_("REQUIRES"), n_("M"), n_("B"))],
        # an optional feature that requires / implies a core one, in every spelling of a requires: says nothing about it
        "requires-to-core": [n_(o_("REQUIRES"), n_("B"), n_("M"))],
        "implies-to-core": [n_(o_("IMPLIES"), n_("B"), n_("M"))],
        "core-or-not-optional": [n_(o_("OR"), n_("M"), n_(o_("NOT"), n_("B")))],
        "not-optional-or-core": [n_(o_("OR"), n_(o_("NOT"), n_("B")), n_("M"))],
        "optional-requires-optional": [n_(o_("OR"), n_("C"), n_(o_("NOT"), n_("B"))), n_(o_("REQUIRES"), n_("G1"), n_("G2"))],
        "excludes-core": [n_(o_("EXCLUDES"), n_("M"), n_("C"))],
        "or-of-optionals": [n_(o_("OR"), n_("B"), n_("C"))],
        "equivalence": [n_(o_("EQUIVALENCE"), n_("B"), n_("C"))],
        "implies-nested": [n_(o_("IMPLIES"), n_("B"), n_(o_("AND"), n_("C"), n_("G1")))],
        "negated-and": [n_(o_("NOT"), n_(o_("AND"), n_("B"), n_("C")))],
    }
    for sname, trees in shapes.items():
        root = mb.feature("R")
        m_, b_, c_ = mb.feature("M"), mb.feature("B"), mb.feature("C")
        mb.relation(root, [m_], 1, 1)
        mb.relation(root, [b_], 0, 1)
        mb.relation(root, [c_], 0, 1)
        mb.relation(m_, [mb.feature("G1"), mb.feature("G2")], 1, 2)
        fm = mb.model(root, [mb.constraint(f"k{i}", t) for i, t in enumerate(trees)])
        try:
            got = Interp(pm).call(fn, [fm])
        except AbsRaise as exc:
            got = ("raise", exc.what)
        names = model_names(fm)
        configs = [s_ for s_ in all_selections(names) if model_valid(fm, s_)]
        always = set(names) if not configs else set.intersection(*[set(c) for c in configs])
        if isinstance(got, list) and configs:
            gn = [f._f["name"] for f in got]
            wrong = [x for x in gn if x not in always]
            okk = not wrong and "R" in gn and len(gn) == len(set(gn))
        else:
            gn, wrong, okk = got, [], isinstance(got, list)
        ctx.check(okk, "C14-SOUND-CTC", f"ctc:{sname}", loc(fn.unit.path, fn.node),
                  f"with constraint shape '{sname}' every reported feature is in every valid configuration",
                  bad=f"with constraint shape '{sname}' get_core_features reports {gn}, but {wrong} are not in every "
                      f"valid configuration (always selected: {sorted(always)})")
    # exit ----------------------------------------------------------------------------------------
    check_wrapper(pm, ctx, "C14-WRAP", "FMCoreFeatures", "get_core_features", "fm_core_features")



def step_check(pm: ProgramModel, ctx: Ctx, mb: ModelBuilder, fn: Any, rule: str) -> None:
    param = fn.params[0]
    pre, loop, post = split_while(fn, rule)
    W = worklist_name(loop)
    R = returned_name(post)
    if W is None or R is None:
        raise AnalysisError(rule, "cannot identify worklist / result variable of get_core_features",
                            loc(fn.unit.path, fn.node))
    # the step argument speaks about the state (worklist, result): a loop that carries further state set up before it
    # (e.g. a set of features already reported) has an invariant this check does not know
    import ast as _ast
    pre_locals = {t.id for st_ in pre for n_ in _ast.walk(st_) if isinstance(n_, (_ast.Assign, _ast.AnnAssign, _ast.AugAssign))
                  for t in (n_.targets if isinstance(n_, _ast.Assign) else [n_.target]) if isinstance(t, _ast.Name)}
    used = {n_.id for st_ in loop.body for n_ in _ast.walk(st_) if isinstance(n_, _ast.Name)}
    extra_state = sorted((pre_locals & used) - {W, R, param})
    if extra_state:
        raise AnalysisError(rule, f"the loop carries further state {extra_state}: step check not applicable",
                            loc(fn.unit.path, fn.node))
    mb = ModelBuilder(pm)
    # init ------------------------------------------------------------------------------------
    root = mb.feature("root")
    mb.relation(root, [mb.feature("m")], 1, 1)
    fm = mb.model(root, [])
    it = Interp(pm)
    env: dict[str, Any] = {param: fm}
    ret, _ = run_block(it, pre, env, fn)
    seed_ok = (not ret and isinstance(env.get(W), list) and isinstance(env.get(R), list)
               and len(env[W]) == 1 and env[W][0] is root and len(env[R]) == 1 and env[R][0] is root
               and env[W] is not env[R])
    ctx.check(seed_ok, "C14-SEED", "init", loc(fn.unit.path, fn.node),
              "result and worklist both start as [root] (two distinct lists)",
              bad=f"before the loop result={env.get(R)!r} worklist={env.get(W)!r}; expected [root] and "
                  f"[root] as distinct lists")
    # step --------------------------------------------------------------------------------------
    contexts: list[tuple[D, ...]] = [(d,) for d in domain_wf(ctx.tier) if d.n <= 4]
    contexts += list(itertools.product(REP, repeat=2))
    bad_sound: list[str] = []
    bad_exact: dict[str, list[str]] = {}
    bad_shape: list[str] = []
    n_steps = 0
    for ds in contexts:
        for arrangement in (0, 1):
            f = mb.feature("f")
            rels = []
            for i, d in enumerate(ds):
                ch = [mb.feature(f"r{i}c{j}") for j in range(d.n)]
                rels.append(mb.relation(f, ch, d.min, d.max))
            g = mb.feature("g")           # a leaf: processing it adds nothing
            a0 = mb.feature("a0")
            rt = mb.feature("root")
            work = [g, f] if arrangement == 0 else [f, g]
            res = [rt, a0]
            env = {param: mb.model(rt, []), W: list(work), R: list(res)}
            it = Interp(pm)
            try:
                run_block(it, loop.body, env, fn)
            except AbsRaise as exc:
                bad_shape.append(f"loop body raises {exc.what} on relations {[str(d) for d in ds]}")
                continue
            n_steps += 1
            w2, r2 = env[W], env[R]
            popped = [x for x in work if not any(x is y for y in w2)]
            if len(popped) != 1 or len(r2) < 2 or r2[0] is not rt or r2[1] is not a0:
                bad_shape.append(f"relations {[str(d) for d in ds]}: one iteration must pop exactly one "
                                 f"feature and keep earlier results (popped {popped!r})")
                continue
            x = popped[0]
            added_r = r2[2:]
            added_w = [y for y in w2 if not any(y is z for z in work)]
            forced = [c for r_, d in zip(rels, ds) if forced_all(d) for c in r_._f["children"]] \
                if x is f else []
            if not _same_multiset(added_r, added_w):
                bad_shape.append(f"relations {[str(d) for d in ds]}: features added to the result "
                                 f"{added_r!r} differ from those pushed on the worklist {added_w!r}")
                continue
            unsound = [c for c in added_r if not any(c is z for z in forced)]
            if unsound or len(added_r) != len({id(c) for c in added_r}):
                bad_sound.append(f"relations {[str(d) for d in ds]}: adds {unsound or added_r!r}, not "
                                 f"forced by the tree (or added twice)")
            missing = [c for c in forced if not any(c is z for z in added_r)]
            if missing and x is f:
                for r_, d in zip(rels, ds):
                    if forced_all(d) and any(c is m for c in r_._f["children"] for m in missing):
                        k = "mandatory" if kind(d) == "mandatory" else \
                            ("group[n..n]" if d.n > 1 else "single[1..*]")
                        bad_exact.setdefault(k, []).append(
                            f"relation {d}: children are in every configuration but are not added")
    ctx.analysed["C14:step-evaluations"] = n_steps
    ctx.floor(rule, "step evaluations", n_steps, 100)
    ctx.ok("C14-CLOSURE", "returns-result", loc(fn.unit.path, fn.node),
           f"the list `{R}` built by the loop is what the function returns")
    ctx.check(not bad_shape, "C14-CLOSURE", "step-shape", loc(fn.unit.path, loop),
              f"each iteration pops one feature and feeds result and worklist with the same features "
              f"({n_steps} abstract states)", bad="; ".join(bad_shape[:2]))
    ctx.check(not bad_sound, "C14-GUARD", "sound", loc(fn.unit.path, loop),
              "every feature added is a child of a relation that forces all its children (min>=n), "
              "added once", bad="; ".join(bad_sound[:2]))
    for k in ("mandatory", "group[n..n]", "single[1..*]"):
        ctx.check(k not in bad_exact, "C14-GUARD", f"exact:{k}", loc(fn.unit.path, loop),
                  f"children of forced relations of class {k} are added",
                  bad=(bad_exact.get(k) or [""])[0])


def _core(m: AObj) -> list[AObj]:
    out = [m._f["root"]]
    i = 0
    while i < len(out):
        for r in out[i]._f["relations"]:
            d = D(int(r._f["card_min"]), int(r._f["card_max"]), len(r._f["children"]))
            if forced_all(d):
                out.extend(r._f["children"])
        i += 1
    return out


def _same_multiset(a: list[Any], b: list[Any]) -> bool:
    return len(a) == len(b) and sorted(id(x) for x in a) == sorted(id(x) for x in b)
