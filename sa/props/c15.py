"""C15 — atomic sets partition the features into always-co-selected groups (DESIGN §5 C15)."""
from __future__ import annotations

import itertools
from typing import Any

from ..absint import AObj, AbsRaise, Interp
from ..card import D, domain_wf, forced_all, kind
from ..core import AnalysisError, Ctx, loc
from ..model import ModelBuilder
from ..pm import ProgramModel
from ..steps import check_wrapper

REP = [D(1, 1, 1), D(0, 1, 1), D(1, 1, 2), D(1, 2, 2), D(0, 1, 2), D(2, 2, 2), D(2, 3, 3), D(0, 0, 1)]


def check(pm: ProgramModel, ctx: Ctx) -> None:
    ctx.explanation = (
        "Inductive step decided statically on the recursive walk: (init) the entry function "
        "registers exactly one set {root} and starts the walk with that same list and set; "
        "(step) the body of the walk, evaluated once as a transfer function at an abstract feature "
        "whose relations range over all well-formed cardinalities and pairs of representatives "
        "(recursive calls replaced by recording stubs = induction hypothesis), puts every child in "
        "exactly one set that is registered exactly once in the result list, continues the walk "
        "for every child exactly once with the set the child was put in, merges a child into its "
        "parent's set only if the relation forces child <=> parent (min >= n), and always merges "
        "mandatory children. By structural induction the result is a partition without empty sets, "
        "sound for co-selection and never finer than the mandatory chains.")
    ctx.not_decided = ["co-selection induced by cross-tree constraints (the property does not "
                       "require it to be detected)"]
    ctx.assumptions = ["well-formed tree; unique feature names (sets of features hash by name)"]
    rule = "C15"
    entry = pm.func("get_atomic_sets", "fm_atomic_sets")
    mb = ModelBuilder(pm)
    try:
        walk = pm.func("compute_atomic_sets", "fm_atomic_sets")
    except AnalysisError as exc:
        # the recursive walk was restructured: no inductive step to check, the whole function decides the family
        ctx.unverified("C15-STEP", "shape", loc(entry.unit.path, entry.node), f"step check not applicable: {exc.reason}")
        whole(pm, ctx, mb, entry)
        check_wrapper(pm, ctx, "C15-WRAP", "FMAtomicSets", "get_atomic_sets", "fm_atomic_sets")
        return
    import ast as _ast
    recursive = any(isinstance(c, _ast.Call) and ((isinstance(c.func, _ast.Name) and c.func.id == walk.name) or
                                                  (isinstance(c.func, _ast.Attribute) and c.func.attr == walk.name))
                    for c in _ast.walk(walk.node))
    if not recursive:
        # an explicit stack instead of recursion: there is no recursive call to summarise; the whole-function
        # evaluation (partition, connectedness through forced relations, co-selection with constraints) decides
        ctx.unverified("C15-STEP", "shape", loc(walk.unit.path, walk.node), "step check not applicable: the walk is not recursive")
        whole(pm, ctx, mb, entry)
        check_wrapper(pm, ctx, "C15-WRAP", "FMAtomicSets", "get_atomic_sets", "fm_atomic_sets")
        return
    # init --------------------------------------------------------------------------------------
    root = mb.feature("root")
    mb.relation(root, [mb.feature("m")], 1, 1)
    fm = mb.model(root, [])
    calls: list[tuple[Any, ...]] = []
    it = Interp(pm)
    it.native[walk.qual] = it.signature_stub(walk, lambda *a: calls.append(a))      # arguments in the walk's own order
    try:
        res = it.call(entry, [fm])
    except AbsRaise as exc:
        res = ("raise", exc.what)
    ok = (isinstance(res, list) and len(res) == 1 and isinstance(res[0], set)
          and len(res[0]) == 1 and next(iter(res[0])) is root and len(calls) == 1
          and len(calls[0]) >= 3 and calls[0][0] is res and calls[0][1] is root
          and calls[0][2] is res[0])
    ctx.check(ok, "C15-PARTITION", "init", loc(entry.unit.path, entry.node),
              "entry registers exactly {root} and starts the walk at the root with that list and set",
              bad=f"entry does not start the walk with ([{{root}}], root, that set): result={res!r}, "
                  f"walk calls={len(calls)}")
    # step ----------------------------------------------------------------------------------------
    contexts: list[tuple[D, ...]] = [(d,) for d in domain_wf(ctx.tier) if d.n <= 4]
    contexts += list(itertools.product(REP, repeat=2))
    bad_part: list[str] = []
    bad_sound: list[str] = []
    bad_mand: list[str] = []
    n_steps = 0
    for ds in contexts:
        f = mb.feature("f")
        rels = []
        for i, d in enumerate(ds):
            ch = [mb.feature(f"r{i}c{j}") for j in range(d.n)]
            rels.append(mb.relation(f, ch, d.min, d.max))
        a0 = mb.feature("a0")
        s0 = {mb.feature("other")}
        cur = {a0, f}
        sets = [s0, cur]
        calls = []
        it = Interp(pm)
        state = {"top": True}

        def stub(*a: Any, _it: Interp = it, _st: dict = state, _calls: list = calls) -> Any:
            if _st["top"]:
                _st["top"] = False
                return _it.call(walk, list(a), skip_native=True)
            _calls.append(a)
            return None
        it.native[walk.qual] = it.signature_stub(walk, stub)     # further (optional) parameters may follow the three
        try:
            it.call(walk, [sets, f, cur])
        except AbsRaise as exc:
            bad_part.append(f"walk raises {exc.what} on relations {[str(d) for d in ds]}")
            continue
        n_steps += 1
        label = f"relations {[str(d) for d in ds]}"
        if len(sets) < 2 or sets[0] is not s0 or sets[1] is not cur or len(s0) != 1:
            bad_part.append(f"{label}: previously registered sets were replaced or modified")
            continue
        for r_, d in zip(rels, ds):
            for c in r_._f["children"]:
                mine = [a for a in calls if len(a) >= 3 and a[1] is c]
                holders = [s for s in sets if any(x is c for x in s)]
                if len(mine) != 1:
                    bad_part.append(f"{label}: walk continued {len(mine)} times for child "
                                    f"{c._f['name']} (expected once)")
                    continue
                if len(holders) != 1 or sum(1 for s in sets if s is holders[0]) != 1:
                    bad_part.append(f"{label}: child {c._f['name']} is in {len(holders)} registered "
                                    f"sets (expected exactly one, registered once)")
                    continue
                if mine[0][2] is not holders[0] or mine[0][0] is not sets:
                    bad_part.append(f"{label}: walk for {c._f['name']} continues with a set other "
                                    f"than the one the child was put in")
                    continue
                merged = holders[0] is cur
                if not merged and len(holders[0]) != 1:
                    bad_part.append(f"{label}: new set of {c._f['name']} has {len(holders[0])} members")
                if merged and not forced_all(d):
                    bad_sound.append(f"{label}: child of relation {d} is merged with its parent but "
                                     f"is not co-selected with it in every configuration")
                if kind(d) == "mandatory" and not merged:
                    bad_mand.append(f"{label}: mandatory child is not in its parent's set")
        extra = [a for a in calls if not any(a[1] is c for r_ in rels for c in r_._f["children"])]
        if extra:
            bad_part.append(f"{label}: walk continued for a non-child")
        if any(len(s) == 0 for s in sets):
            bad_part.append(f"{label}: an empty set is registered")
    ctx.analysed["C15:step-evaluations"] = n_steps
    where = loc(walk.unit.path, walk.node)
    ctx.check(not bad_part, "C15-PARTITION", "step", where,
              f"each child enters exactly one registered set and the walk continues once with it "
              f"({n_steps} abstract states)", bad="; ".join(bad_part[:2]))
    ctx.check(not bad_sound, "C15-GUARD", "merge-sound", where,
              "merge guard implies child <=> parent over the cardinality domain",
              bad="; ".join(bad_sound[:2]))
    ctx.check(not bad_mand, "C15-GUARD", "merge-mandatory", where,
              "every mandatory child shares its parent's set", bad="; ".join(bad_mand[:2]))
    whole(pm, ctx, mb, entry)
    check_wrapper(pm, ctx, "C15-WRAP", "FMAtomicSets", "get_atomic_sets", "fm_atomic_sets")
    ctx.floor(rule, "step evaluations", n_steps, 60)


def with_constraints(pm: ProgramModel, ctx: Ctx, mb: ModelBuilder, entry: Any) -> None:
    """Co-selection decided semantically: over all valid configurations (tree rules and constraints, all
    2^n selections) two features of one set are always selected together."""
    from ..exports import all_selections, model_names, model_valid
    n_, o_ = mb.node, mb.op
    shapes = {
        "none": [],
        "requires-between-optionals": [n_(o_("REQUIRES"), n_("B"), n_("C"))],
        "equivalence": [n_(o_("EQUIVALENCE"), n_("B"), n_("C"))],
        "literal": [n_("B")],
        "negated-literal": [n_(o_("NOT"), n_("C"))],
        "excludes": [n_(o_("EXCLUDES"), n_("B"), n_("G1"))],
        "mutual-requires": [n_(o_("REQUIRES"), n_("B"), n_("C")), n_(o_("REQUIRES"), n_("C"), n_("B"))],
        "equivalence-with-conjunction": [n_(o_("EQUIVALENCE"), n_("B"), n_(o_("AND"), n_("C"), n_("G1")))],
        "equivalence-with-root": [n_(o_("EQUIVALENCE"), n_("C"), n_("R"))],
        "double-negation": [n_(o_("NOT"), n_(o_("NOT"), n_("B")))],
        # a feature ruled out by a bare negation, in each position: mandatory child of an optional feature (the model is
        # not void: its parent goes too), member of a group, optional feature with a mandatory child
        "negated-mandatory-child": [n_(o_("NOT"), n_("B1"))],
        "negated-group-member": [n_(o_("NOT"), n_("G1"))],
        "negated-optional-parent": [n_(o_("NOT"), n_("B"))],
    }
    # every binary connective between two optional features, with each side plain or negated
    for opn in ("AND", "OR", "IMPLIES", "REQUIRES", "EXCLUDES", "EQUIVALENCE", "XOR"):
        for nl in (False, True):
            for nr in (False, True):
                if opn in ("REQUIRES", "EXCLUDES") and (nl or nr):
                    continue
                if opn == "AND" and nl and nr is False:
                    pass
                left = n_(o_("NOT"), n_("B")) if nl else n_("B")
                right = n_(o_("NOT"), n_("C")) if nr else n_("C")
                shapes.setdefault(f"{opn.lower()}:{'!' if nl else ''}B,{'!' if nr else ''}C", [n_(o_(opn), left, right)])
    for sname, trees in shapes.items():
        root = mb.feature("R")
        m_, b_, c_ = mb.feature("M"), mb.feature("B"), mb.feature("C")
        mb.relation(root, [m_], 1, 1)
        mb.relation(root, [b_], 0, 1)
        mb.relation(root, [c_], 0, 1)
        mb.relation(m_, [mb.feature("G1"), mb.feature("G2")], 1, 2)
        mb.relation(b_, [mb.feature("B1")], 1, 1)
        fm = mb.model(root, [mb.constraint(f"k{i}", t) for i, t in enumerate(trees)])
        try:
            sets = Interp(pm).call(entry, [fm])
        except AbsRaise as exc:
            sets = ("raise", exc.what)
        names = model_names(fm)
        configs = [s_ for s_ in all_selections(names) if model_valid(fm, s_)]
        bad = []
        if not isinstance(sets, list):
            bad.append(f"result is {str(sets)[:60]}")
        else:
            flat = [f._f["name"] for s_ in sets for f in s_]
            if sorted(flat) != sorted(names):
                bad.append(f"not a partition of the features: {sorted(flat)}")
            for s_ in sets:
                ns = [f._f["name"] for f in s_]
                for cfg in configs:
                    sel = [x in cfg for x in ns]
                    if any(sel) and not all(sel):
                        bad.append(f"{sorted(ns)} are in one set but configuration {sorted(cfg)} selects only some")
                        break
            if not any({"M", "R"} <= {f._f["name"] for f in s_} for s_ in sets):
                bad.append("mandatory child M is not in the root's set")
            if not any({"B", "B1"} <= {f._f["name"] for f in s_} for s_ in sets):
                bad.append("mandatory child B1 is not in B's set")
        ctx.check(not bad, "C15-SOUND-CTC", f"ctc:{sname}", loc(entry.unit.path, entry.node),
                  f"with constraint shape '{sname}' the sets partition the features and are co-selected in all "
                  f"{len(configs)} valid configurations", bad=f"constraint shape '{sname}': " + "; ".join(bad[:2]))


def whole(pm: ProgramModel, ctx: Ctx, mb: ModelBuilder, entry: Any) -> None:
    with_constraints(pm, ctx, mb, entry)
    """Whole function on abstract trees: partition, no empty set, sets connected through forced
    relations only, mandatory children with their parent."""
    from .c16 import tree_models
    from ..model import rich_model
    from ..roundtrip import features as all_features
    models = tree_models(mb)
    models["rich"] = rich_model(mb)
    def judge(name: str, m: AObj, it: Interp) -> None:
            try:
                sets = it.call(entry, [m])
            except AbsRaise as exc:
                sets = ("raise", exc.what)
            feats = all_features(m)
            bad = []
            if not isinstance(sets, list) or not all(isinstance(s, (set, frozenset, list)) for s in sets):
                bad.append(f"result is {str(sets)[:80]}")
            else:
                count = {id(f): 0 for f in feats}
                for s in sets:
                    if len(s) == 0:
                        bad.append("an empty set")
                    for f in s:
                        if id(f) in count:
                            count[id(f)] += 1
                        else:
                            bad.append(f"a non-feature {f!r}")
                wrong = [f._f["name"] for f in feats if count[id(f)] != 1]
                if wrong:
                    bad.append(f"features {wrong[:4]} are not in exactly one set")
                for f in feats:
                    p = f._f["parent"]
                    if p is None:
                        continue
                    rel = next(r for r in p._f["relations"] if any(c is f for c in r._f["children"]))
                    d = D(int(rel._f["card_min"]), int(rel._f["card_max"]), len(rel._f["children"]))
                    same = any(any(x is f for x in s) and any(x is p for x in s) for s in sets)
                    if kind(d) == "mandatory" and not same:
                        bad.append(f"mandatory child {f._f['name']} is not with its parent")
                for s in sets:
                    members = list(s)
                    for f in members:
                        # every member other than the set's top is tied to its parent by a forced relation
                        p = f._f["parent"]
                        if p is not None and any(x is p for x in members):
                            rel = next(r for r in p._f["relations"] if any(c is f for c in r._f["children"]))
                            d = D(int(rel._f["card_min"]), int(rel._f["card_max"]), len(rel._f["children"]))
                            if not forced_all(d):
                                bad.append(f"{f._f['name']} shares a set with its parent through relation {d}, which "
                                           f"does not force it")
                    tops = [f for f in members if f._f["parent"] is None or not any(x is f._f["parent"] for x in members)]
                    if len(tops) > 1:
                        bad.append(f"set {sorted(x._f['name'] for x in members)} is not connected in the tree")
            ctx.check(not bad, "C15-WHOLE", f"tree:{name}", loc(entry.unit.path, entry.node),
                      f"atomic sets of abstract tree '{name}' partition it into forced-connected sets",
                      bad=f"atomic sets of abstract tree '{name}': " + "; ".join(bad[:3]))

    from .c16 import edit_in_place
    for name, m in models.items():
        it = Interp(pm)
        judge(name, m, it)
        if name in ("bushy", "rich", "two-groups"):
            # the same model object, edited in place after this first analysis, analysed again in the same process
            edit_in_place(mb, m)
            judge(name + ":edited-in-place", m, it)
