"""C02 — every reader returns a well-formed feature tree with usable constraints (DESIGN §5 C02)."""
from __future__ import annotations

import ast
import json
from typing import Any

from ..absint import AObj, AbsRaise, Interp
from ..antlrstubs import Console, install_antlr
from ..codec import PATH, run_reader, run_writer
from ..core import AnalysisError, Ctx, is_library_error, loc
from ..iostubs import VFS
from ..logic import names_of
from ..model import ModelBuilder, rich_model
from ..pm import ProgramModel, call_name
from ..roundtrip import features, logical_only, wellformed
from ..xmlstubs import install_xml
from . import c04, c06, c07, c08, c09

READERS = {"UVLReader": "uvl_reader", "AFMReader": "afm_reader", "JSONReader": "json_reader",
           "GlencoeReader": "glencoe_reader", "FeatureIDEReader": "featureide_reader", "XMLReader": "xml_reader"}


def both(it: Any, vfs: VFS) -> None:
    install_xml(it, vfs)
    install_antlr(it, vfs)


def documents(pm: ProgramModel, mb: ModelBuilder) -> dict[str, list[tuple[str, Any, Any]]]:
    """reader -> [(label, content, reference model or None)]"""
    docs: dict[str, list[tuple[str, Any, Any]]] = {r: [] for r in READERS}

    def written(writer: str, model: AObj) -> Any:
        w = run_writer(pm, writer, model, setup=both)
        if w["raise"]:
            raise AnalysisError("C02", f"{writer} raises on the abstract model: {w['raise'][0]}")
        return w["written"]
    ref4 = c04.reference_model(pm, mb)
    docs["UVLReader"] += [("reference/plain", c04.RefEmitter().emit(ref4), ref4),
                          ("reference/quoted+parens+merged", c04.RefEmitter(True, True, True).emit(ref4), ref4)]
    m = rich_model(mb)
    docs["UVLReader"].append(("written/rich", written("UVLWriter", m), m))
    for wname, rname in (("UVLWriter", "UVLReader"), ("JSONWriter", "JSONReader")):
        r0 = mb.feature("R")
        for nm in ("A", "B", "C"):
            f = mb.feature(nm)
            mb.relation(r0, [f], 0, 1)
            f._f["attributes"].append(mb.attribute("cost", 10, f))
            f._f["attributes"].append(mb.attribute("label", "x", f))
        m = mb.model(r0, [])
        docs[rname].append(("written/same-attribute-on-several-features", written(wname, m), m))
    from ..codec import name_model
    for wname, rname in (("JSONWriter", "JSONReader"), ("GlencoeWriter", "GlencoeReader"), ("FeatureIDEWriter", "FeatureIDEReader")):
        for label, nm_ in (("leading-blank", " lead"), ("trailing-blank", "trail "), ("tab-inside", "tab\there")):
            m = name_model(mb, nm_)
            docs[rname].append((f"written/name-{label}", written(wname, m), m))
    m = c06.afm_rich(mb)
    docs["AFMReader"].append(("written/rich", written("AFMWriter", m), m))
    n, o = mb.node, mb.op
    root = mb.feature("R")
    for nm in "ABC":
        mb.relation(root, [mb.feature(nm)], 0, 1)
    cs = [n(o("OR"), n(o("NOT"), n("A")), n("B")), n(o("NOT"), n(o("AND"), n("B"), n("C"))),
          n(o("EQUIVALENCE"), n("A"), n(o("NOT"), n("C")))]
    mm = mb.model(root, [mb.constraint(f"c{i}", c) for i, c in enumerate(cs)])
    docs["AFMReader"].append(("third-party/negations",
                              "%Relationships\nR: [A] [B] [C];\n%Attributes\n%Constraints\nNOT A OR B;\n"
                              "NOT (B AND C);\nA IFF (NOT C);\n", mm))
    from ..codec import ctc_model, operator_trees
    from ..logic import BINARY_LOGICAL
    m = rich_model(mb)
    m._f["ctcs"] = [c for c in m._f["ctcs"] if c._f["name"] != "arith"]
    docs["JSONReader"].append(("written/rich", written("JSONWriter", m), m))
    allops = [t for op in BINARY_LOGICAL for t in operator_trees(mb, op)[:4]]
    m = ctc_model(mb, allops)
    docs["JSONReader"].append(("written/all-operators", written("JSONWriter", m), m))
    m = c08.glencoe_rich(mb)
    docs["GlencoeReader"].append(("written/rich", written("GlencoeWriter", m), m))
    m = ctc_model(mb, [t for op in BINARY_LOGICAL for t in operator_trees(mb, op)[:4]])
    docs["GlencoeReader"].append(("written/all-operators", written("GlencoeWriter", m), None))
    m = ctc_model(mb, [t for op in BINARY_LOGICAL if op != "XOR" for t in operator_trees(mb, op)[:4]])
    docs["FeatureIDEReader"].append(("written/all-operators", written("FeatureIDEWriter", m), None))
    ref9 = c09.ref_model(mb)
    docs["GlencoeReader"].append(("third-party/ids", json.dumps(c09.glencoe_doc(ref9)), ref9))
    # a group feature all of whose children are flagged mandatory (Glencoe allows mandatory children in groups)
    gd = c09.glencoe_doc(ref9)
    gid = next(k for k, v in gd["features"].items() if v["name"] == "Catalog")
    kid_ids = {k["id"] for k in _find(gd["tree"], gid).get("children", [])}
    for k in kid_ids:
        gd["features"][k]["optional"] = False
    docs["GlencoeReader"].append(("third-party/group-of-mandatory-children", json.dumps(gd), None))
    # n-ary terms of a third-party Glencoe document (3, 5 and 6 operands: not powers of two)
    names6 = ["A", "B", "C", "D", "E", "F"]
    gr = mb.feature("R")
    for nm_ in names6:
        mb.relation(gr, [mb.feature(nm_)], 0, 1)

    def chain(opn: str, ns: list[str]) -> Any:
        node = n(ns[0])
        for x in ns[1:]:
            node = n(o(opn), node, n(x))
        return node
    gref = mb.model(gr, [mb.constraint("C1", chain("AND", names6[:3])), mb.constraint("C2", chain("OR", names6[:5])),
                         mb.constraint("C3", chain("AND", names6))])
    ft_ = lambda i: {"type": "FeatureTerm", "operands": [f"id{i}"]}  # noqa: E731
    gdoc = {"id": "m", "name": "m",
            "features": {"idr": {"name": "R", "type": "FEATURE", "optional": False},
                         **{f"id{i}": {"name": nm_, "type": "FEATURE", "optional": True} for i, nm_ in enumerate(names6)}},
            "tree": {"id": "idr", "children": [{"id": f"id{i}"} for i in range(6)]},
            "constraints": {"C1": {"type": "AndTerm", "operands": [ft_(i) for i in range(3)]},
                            "C2": {"type": "OrTerm", "operands": [ft_(i) for i in range(5)]},
                            "C3": {"type": "AndTerm", "operands": [ft_(i) for i in range(6)]}}}
    docs["GlencoeReader"].append(("third-party/n-ary-terms", json.dumps(gdoc), gref))
    # a JSON relation of type OPTIONAL / MANDATORY listing several children (accepted as one relation)
    jdoc = {"name": "m", "features": {"name": "R", "abstract": False, "relations": [
        {"type": "OPTIONAL", "card_min": 0, "card_max": 1, "children": [
            {"name": "A", "abstract": False, "relations": [
                {"type": "MANDATORY", "card_min": 1, "card_max": 1, "children": [{"name": "A1", "abstract": False, "relations": []}]}]},
            {"name": "B", "abstract": False, "relations": []}]},
        {"type": "MANDATORY", "card_min": 1, "card_max": 1, "children": [
            {"name": "C", "abstract": False, "relations": []}, {"name": "D", "abstract": False, "relations": []}]}]},
        "constraints": []}
    docs["JSONReader"].append(("third-party/single-kind-relation-with-several-children", json.dumps(jdoc), None))
    # degenerate but parseable third-party documents: a relation without members, a <var/> without text
    docs["XMLReader"].append(("third-party/relation-without-members",
                              b'<feature-model><feature name="R"><setRelation name="r1"><cardinality min="1" max="1"/>'
                              b'</setRelation><binaryRelation name="r2"><cardinality min="0" max="1"/>'
                              b'<solitaryFeature name="A"/></binaryRelation></feature></feature-model>', None))
    docs["JSONReader"].append(("third-party/relation-without-children", json.dumps(
        {"name": "m", "features": {"name": "R", "abstract": False, "relations": [
            {"type": "XOR", "card_min": 1, "card_max": 1, "children": []},
            {"type": "OPTIONAL", "card_min": 0, "card_max": 1, "children": [{"name": "A", "abstract": False, "relations": []}]}]},
         "constraints": []}), None))
    docs["FeatureIDEReader"].append(("third-party/var-without-text",
                                     b'<featureModel><struct><and name="R"><feature name="A"/></and></struct><constraints>'
                                     b'<rule><imp><var/><var>A</var></imp></rule></constraints></featureModel>', None))
    m = c07.fide_rich(mb)
    docs["FeatureIDEReader"].append(("written/rich", written("FeatureIDEWriter", m), m))
    docs["FeatureIDEReader"].append(("third-party/explicit-false+graphics",
                                     c09.fide_doc(ref9, True, True, True).encode("utf8"), ref9))
    docs["FeatureIDEReader"].append(("third-party/mandatory-flags-in-groups",
                                     c09.fide_doc(ref9, True, False, False, group_flags=True).encode("utf8"), ref9))
    mm2 = mb.model(mb.feature("R"), [])
    doc = ('<featureModel><struct><and name="R"><feature name="A"/><feature name="B"/><feature name="C"/></and>'
           "</struct><constraints><rule><not><conj><var>A</var><var>B</var><var>C</var></conj></not></rule>"
           "<rule><eq><var>A</var><not><var>B</var></not></eq></rule></constraints></featureModel>")
    rr = mb.feature("R")
    for nm in "ABC":
        mb.relation(rr, [mb.feature(nm)], 0, 1)
    mm2 = mb.model(rr, [mb.constraint("1", n(o("NOT"), n(o("AND"), n(o("AND"), n("A"), n("B")), n("C")))),
                        mb.constraint("2", n(o("EQUIVALENCE"), n("A"), n(o("NOT"), n("B"))))])
    docs["FeatureIDEReader"].append(("third-party/nary+not", doc.encode("utf8"), mm2))
    docs["XMLReader"].append(("third-party/plain", c09.fama_doc(ref9).encode("utf8"), ref9))
    docs["XMLReader"].append(("third-party/extras+cardinality-last",
                              c09.fama_doc(ref9, extra=True, card_after=True).encode("utf8"), ref9))
    # larger documents from the reference emitters (twelve siblings / members, two-digit bounds, twelve levels, thirteen
    # constraints with six-operand chains, long names)
    from ..codec import large_models
    roots = lambda m_: [c._f["_ast"]._f["root"] for c in m_._f["ctcs"]]  # noqa: E731
    for key, m_, _w, _o in large_models(mb, ("AND", "OR", "IMPLIES", "EQUIVALENCE")):
        docs["UVLReader"].append((f"reference/large-{key}", c04.RefEmitter().emit(m_), m_))
        docs["JSONReader"].append((f"written/large-{key}", written("JSONWriter", m_), m_))
    for key, m_, _w, _o in large_models(mb, ("AND", "OR", "IMPLIES", "EQUIVALENCE"), mixed=False, cardinal=False):
        docs["FeatureIDEReader"].append((f"third-party/large-{key}", c09.fide_doc(
            m_, False, False, False, rules=[c09.fide_rule(t) for t in roots(m_)]).encode("utf8"), m_))
    for key, m_, _w, _o in large_models(mb, ("AND", "OR", "IMPLIES", "EQUIVALENCE", "EXCLUDES"), mixed=False):
        docs["GlencoeReader"].append((f"third-party/large-{key}", json.dumps(c09.glencoe_doc(m_, trees=roots(m_))), m_))
    for key, m_, _w, _o in large_models(mb, ("AND", "OR", "IMPLIES", "EQUIVALENCE", "REQUIRES", "EXCLUDES"),
                                        rename=lambda s_: (s_[0].upper() + s_[1:]).replace("_", "")):
        docs["AFMReader"].append((f"third-party/large-{key}", c09.afm_doc(m_), m_))
    for key, m_, _w, _o in large_models(mb, ("REQUIRES", "EXCLUDES")):
        m_._f["ctcs"] = []
        docs["XMLReader"].append((f"third-party/large-{key}", c09.fama_doc(m_, ctc_lines=[]).encode("utf8"), None))
    return docs


MAY_BE_REJECTED = {"third-party/relation-without-members", "third-party/relation-without-children",
                   "third-party/var-without-text"}


def _find(tree: dict[str, Any], fid: str) -> dict[str, Any]:
    if tree["id"] == fid:
        return tree
    for k in tree.get("children", []):
        r = _find(k, fid)
        if r:
            return r
    return {}


def check(pm: ProgramModel, ctx: Ctx) -> None:
    ctx.explanation = (
        "Each of the six readers' transform() is evaluated from source on documents of two "
        "origins - written by this library's writers (evaluated from source) from abstract models "
        "realising every relation kind / constraint operator, and written by independent "
        "reference emitters - and the abstract model it builds is inspected object by object: one "
        "parentless root; every relation listed under a feature points back to it and is "
        "non-empty; every child's parent is the owner of the relation it is in, and it is in "
        "exactly one; cardinalities are integers; every attribute points back to its feature; "
        "every constraint is a tree of Node objects with the unary operand in .left and both "
        "operands of binary operators present, terminals converted to names/numbers (no parse-"
        "tree object reaches the model); Constraint.get_features (evaluated from source) returns "
        "exactly the names written. The construction sites of Relation/Node/Attribute/Feature in "
        "the readers that these documents exercise are counted against all sites found "
        "syntactically; the model mechanism itself (add_relation/add_attribute back-pointers) is "
        "decided on abstract objects.")
    ctx.not_decided = ["non-emptiness of relations for arbitrary accepted documents (a property of the "
                       "document, e.g. a Glencoe group all of whose children are flagged mandatory)",
                       "construction sites not reached by the document set (listed in evidence)"]
    mb = ModelBuilder(pm)
    console = Console()
    executed: set[tuple[str, int, str]] = set()
    gf = pm.method(pm.cls("Constraint"), "get_features")
    if gf is None:
        raise AnalysisError("C02", "anchor vanished: Constraint.get_features")
    with console:
        docs = documents(pm, mb)
        for reader, items in docs.items():
            rd = pm.cls(reader)
            where = loc(rd.unit.path, rd.node)
            if not items:
                raise AnalysisError("C02", f"no document for {reader}")
            for label, content, ref in items:
                vfs = VFS()
                vfs.files[PATH] = content
                r = run_reader(pm, reader, vfs, setup=both)
                executed |= r["interp"].sites
                if r["raise"]:
                    if label in MAY_BE_REJECTED and is_library_error(pm, r["raise"][0]):
                        # a degenerate document: "whatever document a reader accepts" - it need not accept this one,
                        # but then with the library's own error
                        ctx.ok("C02-READS", f"{reader}:{label}", where, f"degenerate document reported as a library error")
                        continue
                    ctx.violation("C02-READS", f"{reader}:{label}:raises", r["raise"][1] or where,
                                  f"{reader} rejects the document {label}: {r['raise'][0]}")
                    continue
                model = r["model"]
                if ref is not None and label.split("/")[-1] in ("rich", "plain", "ids", "negations") or label.endswith("large-many-constraints"):
                    # the model read is a function of the document: a Python set has no defined iteration order (it changes
                    # with PYTHONHASHSEED), so the reader is decided under both extreme orders
                    from ..roundtrip import describe, diff
                    vfs2 = VFS()
                    vfs2.files[PATH] = content
                    r2 = run_reader(pm, reader, vfs2, setup=both, set_order="desc")
                    dd = diff(describe(model), describe(r2["model"]), ctc_names=True, relation_order=True) \
                        if r2["model"] is not None else [("raise", str(r2["raise"]))]
                    ctx.check(not dd, "C02-SHAPE", f"{reader}:{label}:set-order", where,
                              "the model read is the same under both extreme set iteration orders",
                              bad=f"document {label}: the model read depends on the iteration order of a Python set (PYTHONHASHSEED): "
                                  f"{dd[0][1] if dd else ''}")
                wf = wellformed(model)
                cats = sorted({c for c, _ in wf})
                rule_of = {"unary-slot": "C02-NODE", "binary-slot": "C02-NODE", "aggregate-slot": "C02-NODE",
                           "node-none": "C02-NODE", "node-type": "C02-TERMINAL", "term-type": "C02-TERMINAL",
                           "card-type": "C02-TERMINAL", "root-parent": "C02-ROOT", "attribute-parent": "C02-ATTR"}
                if not wf:
                    ctx.ok("C02-SHAPE", f"{reader}:{label}", where,
                           f"{len(features(model))} features, {len(model._f['ctcs'])} constraints: well-formed")
                for c in cats:
                    first = next(t for cc, t in wf if cc == c)
                    ctx.violation(rule_of.get(c, "C02-PARENT"), f"{reader}:{c}", where, f"document {label}: {first}")
                # attribute values must be plain data, never parse-tree objects
                for f in features(model):
                    for a in f._f.get("attributes", []) or []:
                        bad = _non_plain(a)
                        if bad:
                            ctx.violation("C02-TERMINAL", f"{reader}:attribute-{bad[0]}", where,
                                          f"document {label}: attribute {a._f.get('name')!r} of "
                                          f"{f._f.get('name')!r} holds {bad[1]}")
                # get_features == names written
                if ref is not None and len(ref._f["ctcs"]) == len(model._f["ctcs"]):
                    it = Interp(pm)
                    badn = []
                    for c_ref, c in zip(ref._f["ctcs"], model._f["ctcs"]):
                        want = sorted({x for x in _feature_names(c_ref._f["_ast"]._f["root"]) if _is_name(x)})
                        try:
                            got = sorted(it.call(gf, [c]))
                        except AbsRaise as exc:
                            got = [f"raises {exc.what}"]
                        if got != want:
                            badn.append(f"constraint {c._f.get('name')!r}: get_features gives {got}, names "
                                        f"written are {want}")
                    ctx.check(not badn, "C02-USABLE", f"{reader}:{label}:get_features", where,
                              "get_features of every constraint returns exactly the names written",
                              bad=f"document {label}: " + "; ".join(badn[:2]))
        after_failure(pm, ctx, docs)
        # the reading histories of the round-trip checks, per reader that has a writer: read - caller edits the result - read
        # again (new reader object, and the same one), file replaced, constraint-free documents
        from ..codec import Codec
        for w_, r_, kw_ in (("UVLWriter", "UVLReader", {"list_attr": True}), ("JSONWriter", "JSONReader", {"list_attr": True}),
                            ("AFMWriter", "AFMReader", {"abstract": False}), ("FeatureIDEWriter", "FeatureIDEReader", {}),
                            ("GlencoeWriter", "GlencoeReader", {"abstract": False})):
            if pm.has_cls(w_) and pm.has_cls(r_):
                opts = {"ctc_compare": "semantic", "ctc_names": False} if r_ != "UVLReader" else {"ctc_names": False}
                Codec(pm, ctx, w_, r_, "C02", diff_opts=opts, wsetup=both, rsetup=both).reader_reuse(mb, rule=f"REUSE:{r_}", **kw_)
    sites(pm, ctx, executed)
    mechanism(pm, ctx, mb)
    ctx.floor("C02", "obligations", len(ctx.obligations), 30)


from ..codec import broken_variant as _broken_variant  # noqa: E402


def after_failure(pm: ProgramModel, ctx: Ctx, docs: dict[str, list[tuple[str, Any, Any]]], rule: str = "C02-REUSE") -> None:
    """One reader object whose transform() failed on a document it cannot represent, the file then replaced by a good
    document and the same object asked again: the model must be the one a new reader object builds (nothing of the failed
    attempt - a scope, a partial table - may be left in the object). A reader that declines a second call is reported as
    information."""
    from ..absint import AbsMutation, reset_global_state
    from ..codec import new_interp
    from ..roundtrip import describe, diff
    for reader, items in docs.items():
        rd = pm.cls(reader)
        where = loc(rd.unit.path, rd.node)
        tr = pm.method(rd, "transform")
        label, content, _ref = items[0]
        bad = _broken_variant(reader, content)
        key = f"{reader}:same-object-after-a-failed-reading"
        if bad is None or tr is None:
            continue
        reset_global_state()
        vfs = VFS()
        vfs.put(PATH, bad)
        it = new_interp(pm, vfs)
        both(it, vfs)
        try:
            r1 = it.eval_call_class(rd, [PATH])
        except (AbsRaise, AbsMutation):
            continue
        try:
            it.call(tr, [r1])
            ctx.info(rule, key, where, f"{reader} accepts the document made to fail ({label} + an unknown construct)")
            continue
        except (AbsRaise, AbsMutation):
            pass
        vfs.put(PATH, content)
        fresh = run_reader(pm, reader, vfs, setup=both)
        if fresh["model"] is None:
            continue
        try:
            again = it.call(tr, [r1])
        except (AbsRaise, AbsMutation) as exc:
            ctx.info(rule, key, where, f"{reader}: a reader object asked again after a failed reading declines: {exc.what}")
            continue
        dd = diff(describe(fresh["model"]), describe(again), ctc_names=True)
        wf = wellformed(again)
        ctx.check(not dd and not wf, rule, key, where,
                  "a reader object asked again after a failed reading builds the model a new reader object builds",
                  bad=f"{reader}: after a reading that failed half-way the same object, asked to read a good document, builds "
                      f"another model than a new reader does: {(dd or wf or [('', '')])[0][1]}")
    reset_global_state()


def _feature_names(n: Any) -> list[str]:
    """Names of features written in an expression tree: every name term, except the first operand of
    sum/avg, which names an attribute."""
    from ..logic import opname
    if not isinstance(n, AObj):
        return []
    op = opname(n)
    if op is None:
        d = n._f.get("data")
        return [d] if isinstance(d, str) else []
    if op in ("SUM", "AVG"):
        return _feature_names(n._f.get("right"))
    return _feature_names(n._f.get("left")) + _feature_names(n._f.get("right"))


def _has_aggregate(n: Any) -> bool:
    from ..logic import opname
    if not isinstance(n, AObj):
        return False
    if opname(n) in ("SUM", "AVG", "LEN", "FLOOR", "CEIL"):
        return True
    return _has_aggregate(n._f.get("left")) or _has_aggregate(n._f.get("right"))


def _is_name(x: str) -> bool:
    return not x.startswith("'") and not x.lstrip("-").replace(".", "", 1).isdigit()


def _non_plain(a: AObj) -> Any:
    def plain(v: Any) -> bool:
        if isinstance(v, (str, int, float, bool)) or v is None:
            return True
        if isinstance(v, list):
            return all(plain(x) for x in v)
        if isinstance(v, dict):
            return all(plain(x) for x in v.values())
        return False
    for k in ("name", "default_value", "null_value"):
        if not plain(a._f.get(k)):
            return (k, f"{k} = {type(a._f.get(k)).__name__}")
    dom = a._f.get("domain")
    if isinstance(dom, AObj):
        for r in dom._f.get("range_list", []) or []:
            for k in ("min_value", "max_value"):
                v = r._f.get(k) if isinstance(r, AObj) else None
                if not isinstance(v, (int, float)) or isinstance(v, bool):
                    return ("range", f"a range bound of type {type(v).__name__}")
        if not all(plain(x) for x in dom._f.get("element_list", []) or []):
            return ("elements", "a non-plain domain element")
    return None


def sites(pm: ProgramModel, ctx: Ctx, executed: set[tuple[str, int, str]]) -> None:
    """Construction sites in reader units: found syntactically vs. exercised by the documents."""
    total: dict[str, list[tuple[str, int]]] = {"Relation": [], "Node": [], "Attribute": [], "Feature": []}
    # the reader modules and whatever package module their code was moved to (helpers, base classes): every unit under
    # transformations/ that is not a writer, plus the units those import from the package
    units = [u for u in pm.pkg_units() if "/transformations/" in u.path and not u.path.endswith("_writer.py")]
    for u in units:
        for n in ast.walk(u.tree):
            if isinstance(n, ast.Call) and call_name(n) in total and isinstance(n.func, ast.Name):
                total[call_name(n)].append((u.path, n.lineno))
    ex = {(p, ln) for p, ln, _ in executed}
    for cls_, lst in total.items():
        cov = [s for s in lst if s in ex]
        unc = [f"{p.rsplit('/', 1)[-1]}:{ln}" for p, ln in lst if (p, ln) not in ex]
        ctx.analysed[f"C02:sites:{cls_}"] = f"{len(cov)}/{len(lst)}"
        if unc:
            ctx.info("C02-COVERAGE", f"sites:{cls_}", "", f"{cls_}(...) sites not exercised by the document set: {unc}")
    nrel = len(total["Relation"])
    if nrel < 18:
        # the readers build relations through fewer sites than on the tree this rule was written for (a helper took
        # them over): the coverage figure says little then - no verdict from it; the shape rules above decide
        ctx.unverified("C02-COVERAGE", "relation-sites", "", f"only {nrel} Relation(...) construction sites in the reader modules")
        return
    covered = sum(1 for s in total["Relation"] if s in ex)
    ctx.check(covered >= int(0.75 * nrel), "C02-COVERAGE", "relation-sites", "",
              f"{covered}/{nrel} Relation(...) construction sites of the readers are exercised",
              bad=f"only {covered}/{nrel} Relation(...) sites are exercised by the document set")


def mechanism(pm: ProgramModel, ctx: Ctx, mb: ModelBuilder) -> None:
    """Feature.add_relation / add_attribute set the back-pointers (C02-BACKPTR)."""
    feat = pm.cls("Feature")
    ar, aa = pm.method(feat, "add_relation"), pm.method(feat, "add_attribute")
    if ar is None or aa is None:
        raise AnalysisError("C02-BACKPTR", "anchor vanished: Feature.add_relation/add_attribute")
    it = Interp(pm)
    p = mb.feature("P")
    kids = [mb.feature("a"), mb.feature("b"), mb.feature("c")]
    r = AObj("Relation", parent=p, children=list(kids), card_min=1, card_max=2)
    try:
        it.call(ar, [p, r])
        ok = len(p._f["relations"]) == 1 and p._f["relations"][0] is r and all(k._f["parent"] is p for k in kids)
    except AbsRaise:
        ok = False
    ctx.check(ok, "C02-BACKPTR", "add_relation", loc(ar.unit.path, ar.node),
              "add_relation appends the relation and sets parent of every child",
              bad="Feature.add_relation does not append the relation and set every child's parent to the owner")
    a = mb.attribute("x", 1)
    try:
        it.call(aa, [p, a])
        ok = a._f["parent"] is p and len(p._f["attributes"]) == 1 and p._f["attributes"][0] is a
    except AbsRaise:
        ok = False
    ctx.check(ok, "C02-BACKPTR", "add_attribute", loc(aa.unit.path, aa.node),
              "add_attribute appends the attribute and sets its parent",
              bad="Feature.add_attribute does not append the attribute and set its parent")
