"""C18 — constraint classification and splitting are semantically sound (DESIGN §5 C18)."""
from __future__ import annotations

import itertools
from typing import Any, Optional

from ..absint import AObj, AbsMutation, AbsRaise, EnumVal, Interp
from ..core import AnalysisError, Ctx, loc
from ..logic import BINARY_LOGICAL, LOGICAL, TreeFamily, evaluate, freeze, names_of, opname, show, \
    truth_table
from ..model import ModelBuilder
from ..pm import ProgramModel

PREDICATES = ["is_logical_constraint", "is_arithmetic_constraint", "is_aggregation_constraint",
              "is_single_feature_constraint", "is_simple_constraint", "is_complex_constraint",
              "is_requires_constraint", "is_excludes_constraint", "is_pseudocomplex_constraint",
              "is_strictcomplex_constraint", "get_features"]

NAMES = list("ABCDEFGHIJ")


def check(pm: ProgramModel, ctx: Ctx) -> None:
    ctx.explanation = (
        "The classification predicates observe a constraint only through a finite set of "
        "observations (root operator, operand shape to depth 2, operator membership in the three "
        "operator lists). Their bodies - and the bodies of left_right_features_from_simple_"
        "constraint, split_constraint, split_formula and of the dependency's simplify_formula / "
        "propagate_negation / to_cnf, all read from source - are evaluated as formulas over the "
        "complete family of abstract expression trees up to depth 1 over three names and depth-2 "
        "trees over operand-shape representatives. Decided per tree: requires/excludes reports "
        "are sound by truth table for the extracted pair; documented simple forms are reported; "
        "kind predicates equal the operator-list definitions; simple/complex and exactly-one-of "
        "pseudo/strict on complex; no query raises; no query stores into the constraint's own "
        "nodes (inputs are frozen: any store is a finding); reported features are exactly the "
        "names occurring; the conjunction of the split parts is equivalent to the original.")
    ctx.not_decided = ["trees deeper than the family for the split equivalence (the CNF machinery "
                       "lives in flamapy.core; it is evaluated from its source on the family only)"]
    rule = "C18"
    cons = pm.cls("Constraint")
    mb = ModelBuilder(pm)
    fam = TreeFamily(mb)
    lr = pm.func("left_right_features_from_simple_constraint", "feature_model")
    split = pm.func("split_constraint", "feature_model")
    methods = {}
    for nme in PREDICATES:
        m = pm.method(cons, nme)
        if m is None:
            raise AnalysisError(rule, f"anchor vanished: Constraint.{nme}")
        methods[nme] = m
    small = ctx.tier == "quick"
    trees = fam.all(small)
    nlarge_from = len(trees)
    trees += fam.large()
    ctx.analysed["C18:trees"] = len(trees)
    ops = pm.enum_members(pm.cls("ASTOperation"))
    it = Interp(pm, max_depth=60)
    memo: list[Any] = [None, None]              # (constraint object, its split), one at a time

    def split_memo(c_: Any, *more: Any, **kw: Any) -> Any:
        if more or kw:                       # called with further arguments: not the call this memo is for
            return it.call(split, [c_] + list(more), kw, skip_native=True)
        if memo[0] is not c_:
            memo[0], memo[1] = c_, it.call(split, [c_], skip_native=True)
        return memo[1]
    it.native[split.qual] = split_memo

    def ev(fn: Any, args: list[Any]) -> Any:
        try:
            return it.call(fn, args)
        except AbsRaise as exc:
            return ("raise", exc.what)
        except AbsMutation as exc:
            return ("mutation", exc.what)
        except RecursionError:
            return ("raise", "RecursionError")

    findings: dict[tuple[str, str], list[str]] = {}
    oks: dict[tuple[str, str], int] = {}

    def note(rule_: str, key: str, good: bool, detail: str) -> None:
        if good:
            oks[(rule_, key)] = oks.get((rule_, key), 0) + 1
        else:
            findings.setdefault((rule_, key), []).append(detail)

    heavy = ("is_pseudocomplex_constraint", "is_strictcomplex_constraint")
    for ti, tree in enumerate(trees):
        freeze(tree)
        # quick tier: the split-dependent predicates on depth<=1, all negated operands and a
        # stride of the binary depth-2 trees; thorough: every tree
        do_heavy = (not small) or ti < 69 + len(fam.operands(small)) or ti % 6 == 0 or ti >= nlarge_from
        c = mb.constraint("ctc", tree)
        c._f["_frozen"] = True
        c._f["_ast"]._f["_frozen"] = True
        text = show(tree)
        root = opname(tree)
        res: dict[str, Any] = {}
        for nme, m in methods.items():
            if nme in heavy and not do_heavy:
                res[nme] = None
                continue
            res[nme] = ev(m, [c])
            v = res[nme]
            if isinstance(v, tuple) and v and v[0] == "raise":
                key = f"{nme}:root={root or 'term'}"
                if nme == "is_single_feature_constraint" and root == "NOT":
                    key = f"{nme}:negated-non-term"
                note("C18-TOTAL", key, False, f"{nme} on `{text}` raises {v[1]}")
            elif isinstance(v, tuple) and v and v[0] == "mutation":
                note("C18-PURE", nme, False, f"{nme} on `{text}`: {v[1]}")
            else:
                note("C18-TOTAL", f"{nme}:no-raise", True, "")
        b = {k: (v if isinstance(v, bool) else None) for k, v in res.items()}
        # kinds (all trees of this family are purely logical)
        note("C18-KINDS", "logical", b["is_logical_constraint"] is True or b["is_logical_constraint"] is None,
             f"`{text}` has only logical operators but is_logical_constraint is "
             f"{res['is_logical_constraint']}")
        note("C18-KINDS", "arithmetic", b["is_arithmetic_constraint"] in (False, None),
             f"`{text}` has no arithmetic operator but is_arithmetic_constraint is True")
        note("C18-KINDS", "aggregation", b["is_aggregation_constraint"] in (False, None),
             f"`{text}` has no aggregation operator but is_aggregation_constraint is True")
        # single feature
        want_single = root is None or (root == "NOT" and opname(tree._f["left"]) is None)
        if b["is_single_feature_constraint"] is not None:
            note("C18-SINGLE", "single-feature", b["is_single_feature_constraint"] is want_single,
                 f"`{text}`: is_single_feature_constraint is {b['is_single_feature_constraint']}, "
                 f"expected {want_single}")
        # requires / excludes soundness
        for kind_, pred in (("requires", "is_requires_constraint"), ("excludes", "is_excludes_constraint")):
            if b[pred] is True:
                pair = ev(lr, [c])
                if isinstance(pair, tuple) and len(pair) == 2 and pair[0] in ("raise", "mutation") \
                        and not (pair[0] in NAMES):
                    note("C18-TABLES", f"{kind_}-pair:root={root}", False,
                         f"`{text}` is reported {kind_} but left_right_features raises {pair[1]}")
                    continue
                if not (isinstance(pair, tuple) and len(pair) == 2):
                    note("C18-TABLES", f"{kind_}-pair:root={root}", False,
                         f"`{text}` is reported {kind_} but left_right_features gives {pair!r}, not a pair")
                    continue
                l, r = pair
                ok = isinstance(l, str) and isinstance(r, str) and l in NAMES and r in NAMES
                if ok:
                    names = sorted(set(names_of(tree)) | {l, r})
                    tt = truth_table(tree, names)
                    if kind_ == "requires":
                        ref = tuple((not e[l]) or e[r] for e in _envs(names))
                    else:
                        ref = tuple(not (e[l] and e[r]) for e in _envs(names))
                    ok = tt == ref
                note("C18-TABLES", f"{kind_}-sound:root={root}", ok,
                     f"`{text}` is reported {kind_} with pair ({l!r}, {r!r}) but is not equivalent to "
                     + ("l implies r" if kind_ == "requires" else "not (l and r)"))
        if b["is_requires_constraint"] is True and b["is_excludes_constraint"] is True:
            note("C18-TABLES", f"requires-and-excludes:root={root}", False,
                 f"`{text}` is reported both requires and excludes")
        # simple / complex
        if None not in (b["is_simple_constraint"], b["is_requires_constraint"], b["is_excludes_constraint"]):
            note("C18-CONSIST", "simple=requires|excludes",
                 b["is_simple_constraint"] is (b["is_requires_constraint"] or b["is_excludes_constraint"]),
                 f"`{text}`: simple={b['is_simple_constraint']} requires={b['is_requires_constraint']} "
                 f"excludes={b['is_excludes_constraint']}")
        if None not in (b["is_complex_constraint"], b["is_simple_constraint"]):
            note("C18-CONSIST", "complex=logical&!simple",
                 b["is_complex_constraint"] is (not b["is_simple_constraint"]),
                 f"`{text}`: complex={b['is_complex_constraint']} simple={b['is_simple_constraint']}")
        ps, stc, cx = b["is_pseudocomplex_constraint"], b["is_strictcomplex_constraint"], b["is_complex_constraint"]
        if None not in (ps, stc, cx):
            if cx:
                note("C18-EXACTLYONE", "complex:one-of-pseudo-strict" if (ps or stc) else
                     "complex:neither", ps != stc,
                     f"complex constraint `{text}`: pseudo-complex={ps}, strict-complex={stc} "
                     f"(exactly one expected)")
            else:
                note("C18-EXACTLYONE", "inside-complex", not ps and not stc,
                     f"`{text}` is not complex but pseudo={ps} strict={stc}")
        # features
        gf = res["get_features"]
        if isinstance(gf, list):
            note("C18-NAMES", "get_features", sorted(gf) == sorted(set(names_of(tree))),
                 f"`{text}`: get_features gives {sorted(gf)}, names occurring are "
                 f"{sorted(set(names_of(tree)))}")
    # documented forms --------------------------------------------------------------------------------
    t, un, bi = fam.t, fam.un, fam.bi
    forms = {
        "A requires B": ("requires", bi("REQUIRES", t("A"), t("B")), ("A", "B")),
        "A => B": ("requires", bi("IMPLIES", t("A"), t("B")), ("A", "B")),
        "!A | B": ("requires", bi("OR", un(t("A")), t("B")), ("A", "B")),
        "B | !A": ("requires", bi("OR", t("B"), un(t("A"))), ("A", "B")),
        "A excludes B": ("excludes", bi("EXCLUDES", t("A"), t("B")), ("A", "B")),
        "A => !B": ("excludes", bi("IMPLIES", t("A"), un(t("B"))), ("A", "B")),
        "!A | !B": ("excludes", bi("OR", un(t("A")), un(t("B"))), ("A", "B")),
    }
    for text, (kind_, tree, _) in forms.items():
        c = mb.constraint("doc", tree)
        v = ev(methods[f"is_{kind_}_constraint"], [c])
        o = ev(methods["is_excludes_constraint" if kind_ == "requires" else "is_requires_constraint"], [c])
        ctx.check(v is True and o is False, "C18-TABLES", f"documented:{text}",
                  loc(cons.unit.path, methods[f"is_{kind_}_constraint"].node),
                  f"`{text}` is reported {kind_} (and not the other kind)",
                  bad=f"documented form `{text}`: {kind_}={v}, other={o}")
    # split equivalence ---------------------------------------------------------------------------------
    split_trees = list(fam.depth1()) + [x for i, x in enumerate(fam.depth2(small))
                                        if small is False or i < len(fam.operands(small)) or i % 6 == 0]
    split_trees += fam.large()
    nsplit = 0
    for tree in split_trees:
        freeze(tree)
        c = mb.constraint("s", tree)
        c._f["_frozen"] = True
        c._f["_ast"]._f["_frozen"] = True
        text = show(tree)
        parts = ev(split, [c])
        suspects = sorted(_ops_in(tree) & {"XOR", "EQUIVALENCE"})
        key_suffix = "contains-" + "+".join(suspects) if suspects else "other-operators"
        if isinstance(parts, tuple) and parts and parts[0] in ("raise", "mutation"):
            rr = "C18-PURE" if parts[0] == "mutation" else "C18-TOTAL"
            note(rr, f"split_constraint:{key_suffix}", False, f"split_constraint on `{text}`: {parts[1]}")
            continue
        nsplit += 1
        names = sorted(set(names_of(tree)))
        try:
            tts = [truth_table(p._f["_ast"]._f["root"], names) for p in parts]
            conj = tuple(all(col) for col in zip(*tts)) if tts else tuple(True for _ in _envs(names))
            ok = conj == truth_table(tree, names) and not any(opname(p._f["_ast"]._f["root"]) == "AND" for p in parts)
        except (KeyError, TypeError, AttributeError):
            ok = False
        note("C18-SPLIT", f"split-equiv:{key_suffix}", ok,
             f"split_constraint(`{text}`) = {[show(p._f['_ast']._f['root']) for p in parts][:4]} is not "
             f"equivalent to the original (or still contains a top-level AND)")
        pnames = [p._f.get("name") for p in parts]
        note("C18-SPLIT", "split-names-distinct", len(set(pnames)) == len(pnames),
             f"split parts of `{text}` share names {pnames}")
    ctx.analysed["C18:split-trees"] = nsplit
    # arithmetic / aggregate trees for the kind predicates ----------------------------------------------
    kinds_nonlogical(pm, ctx, mb, methods, ev)
    ctcname(pm, ctx)
    history(pm, ctx, mb, methods, lr, split)
    # the model's listings of constraints by class, asked again after a formula was replaced through the setter, edited in
    # place, or the list of constraints was reversed / overwritten / inserted into (same rule as C03-FRESH, for the
    # classification queries)
    if pm.has_cls("FeatureModel"):
        from .c03 import fresh_after_edit
        fresh_after_edit(pm, ctx, pm.cls("FeatureModel"), rule="C18-HISTORY-EDIT", about="constraint",
                         only=("constraint-formula-replaced", "constraint-formula-edited-in-place", "constraint-list-edited"))
    # report ----------------------------------------------------------------------------------------------
    where = loc(cons.unit.path, cons.node)
    for (rule_, key), n in sorted(oks.items()):
        if (rule_, key) not in findings:
            ctx.ok(rule_, key, where, f"holds on {n} abstract trees")
    for (rule_, key), ds in sorted(findings.items()):
        ctx.violation(rule_, key, where, f"{ds[0]} ({len(ds)} trees)", counterexamples=ds[:8])
    ctx.floor(rule, "trees", len(trees), 300)


def _envs(names: list[str]) -> list[dict[str, bool]]:
    return [dict(zip(names, vals)) for vals in itertools.product([False, True], repeat=len(names))]


def _ops_in(node: Optional[AObj]) -> set[str]:
    if node is None:
        return set()
    op = opname(node)
    if op is None:
        return set()
    return {op} | _ops_in(node._f.get("left")) | _ops_in(node._f.get("right"))


def kinds_nonlogical(pm: ProgramModel, ctx: Ctx, mb: ModelBuilder, methods: dict[str, Any], ev: Any) -> None:
    """is_logical == all operators logical; is_arithmetic / is_aggregation == some operator in the
    respective list; the three lists partition ASTOperation (read from the dependency)."""
    env_ast = pm.env_unit("flamapy.core.models.ast")
    it = Interp(pm)
    lists = {}
    for nme in ("LOGICAL_OPERATORS", "ARITHMETIC_OPERATORS", "AGGREGATION_OPERATORS"):
        v = it.module_name(env_ast, nme)
        if not isinstance(v, list):
            raise AnalysisError("C18-KINDS", f"operator list {nme} not found in flamapy.core")
        lists[nme] = {x.name for x in v}
    allops = set(pm.enum_members(pm.cls("ASTOperation")))
    union = set().union(*lists.values())
    inter = [a for a, b in itertools.combinations(lists.values(), 2) if a & b]
    ctx.check(union == allops and not inter, "C18-KINDS", "lists-partition-operators",
              loc(env_ast.path, env_ast.tree), "the three operator lists partition ASTOperation",
              bad=f"operator lists do not partition ASTOperation: missing {sorted(allops - union)}, "
                  f"overlapping {bool(inter)}")
    ctx.check(lists["LOGICAL_OPERATORS"] == set(LOGICAL), "C18-KINDS", "logical-list",
              loc(env_ast.path, env_ast.tree), "LOGICAL_OPERATORS are the eight logical operators",
              bad=f"LOGICAL_OPERATORS = {sorted(lists['LOGICAL_OPERATORS'])}")
    t = lambda x: mb.node(x)  # noqa: E731
    o = mb.op
    samples = {
        "A + 1 > 2": mb.node(o("GREATER"), mb.node(o("ADD"), t("A"), t(1)), t(2)),
        "A == 'x'": mb.node(o("EQUALS"), t("A"), t("'x'")),
        "(A < 2) & B": mb.node(o("AND"), mb.node(o("LOWER"), t("A"), t(2)), t("B")),
        "sum(c) > 5": mb.node(o("GREATER"), mb.node(o("SUM"), t("c")), t(5)),
        "avg(c, F) <= 5": mb.node(o("LOWER_EQUALS"), mb.node(o("AVG"), t("c"), t("F")), t(5)),
        "len(S) != 0": mb.node(o("NOT_EQUALS"), mb.node(o("LEN"), t("S")), t(0)),
        "A * B / 2 - 1 >= 0": mb.node(o("GREATER_EQUALS"), mb.node(o("SUB"), mb.node(o("DIV"), mb.node(
            o("MUL"), t("A"), t("B")), t(2)), t(1)), t(0)),
        "!(A) & (B | C)": mb.node(o("AND"), mb.node(o("NOT"), t("A")), mb.node(o("OR"), t("B"), t("C"))),
    }
    for text, tree in samples.items():
        c = mb.constraint("k", tree)
        present = _all_ops(tree)
        want = {"is_logical_constraint": present <= lists["LOGICAL_OPERATORS"],
                "is_arithmetic_constraint": bool(present & lists["ARITHMETIC_OPERATORS"]),
                "is_aggregation_constraint": bool(present & lists["AGGREGATION_OPERATORS"])}
        for nme, w in want.items():
            v = ev(methods[nme], [c])
            ctx.check(v is w, "C18-KINDS", f"{nme}:{text}", loc(methods[nme].unit.path, methods[nme].node),
                      f"{nme}(`{text}`) is {w}", bad=f"{nme}(`{text}`) gives {v!r}, operator lists say {w}")
        if not want["is_logical_constraint"]:
            # simple/complex split the *logical* constraints; pseudo/strict lie inside complex
            for nme in ("is_simple_constraint", "is_complex_constraint",
                        "is_pseudocomplex_constraint", "is_strictcomplex_constraint"):
                v = ev(methods[nme], [c])
                ctx.check(v is False, "C18-CONSIST", f"{nme}:nonlogical:{text}",
                          loc(methods[nme].unit.path, methods[nme].node),
                          f"{nme} is False for the non-logical constraint `{text}`",
                          bad=f"{nme}(`{text}`) gives {v!r} for a constraint that is not logical")
        for nme in ("is_simple_constraint", "is_complex_constraint", "is_single_feature_constraint",
                    "is_pseudocomplex_constraint", "is_strictcomplex_constraint", "get_features"):
            v = ev(methods[nme], [c])
            ctx.check(not (isinstance(v, tuple) and v and v[0] in ("raise", "mutation")), "C18-TOTAL",
                      f"{nme}:nonlogical:{text}", loc(methods[nme].unit.path, methods[nme].node),
                      f"{nme} does not raise on `{text}`", bad=f"{nme}(`{text}`): {v!r}")
    # features named inside aggregate functions
    for text, want in (("sum(c) > 5", []), ("avg(c, F) <= 5", ["F"]), ("len(S) != 0", ["S"])):
        v = ev(methods["get_features"], [mb.constraint("k", samples[text])])
        ctx.check(isinstance(v, list) and sorted(v) == want, "C18-NAMES", f"get_features:{text}",
                  loc(methods["get_features"].unit.path, methods["get_features"].node),
                  f"get_features(`{text}`) is {want}: the feature operand of an aggregate counts, the attribute "
                  f"operand of sum/avg does not", bad=f"get_features(`{text}`) gives {v!r}, expected {want}")
    # numbers and quoted strings are not features
    c = mb.constraint("k", samples["A == 'x'"])
    v = ev(methods["get_features"], [c])
    ctx.check(isinstance(v, list) and sorted(v) == ["A"], "C18-NAMES", "get_features:skips-literals",
              loc(methods["get_features"].unit.path, methods["get_features"].node),
              "numbers and quoted strings are not reported as features",
              bad=f"get_features(`A == 'x'`) gives {v!r}")


def _all_ops(node: Optional[AObj]) -> set[str]:
    """Operators as AST.get_operators sees them (does not descend below aggregate nodes)."""
    if node is None:
        return set()
    op = opname(node)
    if op is None:
        return set()
    if op in ("SUM", "AVG", "LEN", "FLOOR", "CEIL"):
        return {op}
    return {op} | _all_ops(node._f.get("left")) | _all_ops(node._f.get("right"))


def ctcname(pm: ProgramModel, ctx: Ctx) -> None:
    fn = pm.func("get_new_ctc_name", "feature_model")
    it = Interp(pm)
    bad = []
    for existing, prefix in ([], "c"), (["c"], "c"), (["c", "c1"], "c"), (["c1"], "c"), (["x", "c", "c1", "c2"], "c"):
        try:
            v = it.call(fn, [list(existing), prefix])
        except AbsRaise as exc:
            v = ("raise", exc.what)
        if not isinstance(v, str) or v in existing or not v.startswith(prefix):
            bad.append(f"names {existing}: returns {v!r}")
    ctx.check(not bad, "C18-NAMES", "get_new_ctc_name", loc(fn.unit.path, fn.node),
              "the generated constraint name starts with the prefix and is not in the given list",
              bad="; ".join(bad[:2]))


def history(pm: ProgramModel, ctx: Ctx, mb: ModelBuilder, methods: dict[str, Any], lr: Any, split: Any) -> None:
    """No answer depends on a constraint asked about earlier in the process: two constraints whose texts differ
    only in the letter case of feature names (equal under Constraint.__eq__, yet different constraints over
    different features) are asked in turn; then the returned collection is edited by the caller and the same
    constraint is asked again. Each answer must be the one a fresh process gives."""
    from ..absint import reset_global_state
    n, o = mb.node, mb.op
    pairs = {
        "implies": (lambda: n(o("IMPLIES"), n("A"), n("b")), lambda: n(o("IMPLIES"), n("a"), n("B"))),
        "excludes": (lambda: n(o("EXCLUDES"), n("Wifi"), n("LTE")), lambda: n(o("EXCLUDES"), n("WIFI"), n("lte"))),
        "literal": (lambda: n("Net"), lambda: n("NET")),
        "complex": (lambda: n(o("OR"), n("A"), n(o("AND"), n("b"), n("C"))), lambda: n(o("OR"), n("a"), n(o("AND"), n("B"), n("c")))),
    }
    fns = dict(methods)
    fns["left_right_features_from_simple_constraint"] = lr
    fns["split_constraint"] = split

    def norm(v: Any) -> Any:
        if isinstance(v, (list, tuple)):
            return [norm(x) for x in v]
        if isinstance(v, AObj):
            return Interp(pm).to_str(v._f["_ast"]) if "_ast" in v._f else repr(v)
        return v

    def ask(it: Interp, fn: Any, c: AObj) -> Any:
        try:
            return it.call(fn, [c])
        except AbsRaise as exc:
            return ("raise", exc.what.split(" at ")[0])
    nh = 0
    for pname, (mk1, mk2) in pairs.items():
        for fname, fn in sorted(fns.items()):
            reset_global_state()
            it = Interp(pm, max_depth=60)
            ask(it, fn, mb.constraint("k1", mk1()))
            c2 = mb.constraint("k2", mk2())
            raw = ask(it, fn, c2)
            second = norm(raw)
            if isinstance(raw, list):
                raw.append("edited-by-the-caller")
            again = norm(ask(it, fn, c2))
            reset_global_state()
            fresh = norm(ask(Interp(pm, max_depth=60), fn, mb.constraint("k2", mk2())))
            nh += 1
            ok = second == fresh and again == fresh
            ctx.check(ok, "C18-HISTORY", f"history:{fname}" if not ok else f"history:{fname}:{pname}",
                      loc(fn.unit.path, fn.node), f"{fname} on a look-alike constraint asked second answers for that constraint",
                      bad=f"{fname} on `{pname}` look-alike asked after its twin gives {str(second)[:80]}, asked again after the caller "
                          f"edited the returned list gives {str(again)[:80]}; a fresh process gives {str(fresh)[:80]}")
    reset_global_state()
    ctx.floor("C18-HISTORY", "history evaluations", nh, 30)
