"""C11 — Clafer export denotes exactly the model's configurations (DESIGN §5 C11)."""
from __future__ import annotations

from typing import Any

from ..absint import AObj
from ..card import D, domain_wf, kind
from ..codec import as_text, operator_trees, NAME_CLASSES, stress_trees, ctc_model, run_writer
from ..core import AnalysisError, Ctx, loc
from ..exports import ClaferDoc, ExportError, configurations, model_names, model_valid
from ..logic import BINARY_LOGICAL
from ..model import ModelBuilder
from ..pm import ProgramModel

W = "ClaferWriter"


def validate(ctx: Ctx, pm: ProgramModel, rule: str, key: str, model: AObj, what: str, fragment: bool = True) -> Any:
    wc = pm.cls(W)
    where = loc(wc.unit.path, wc.node)
    rep = ctx.violation if fragment else ctx.info
    w = run_writer(pm, W, model)
    if w["raise"]:
        rep(rule, f"{key}:writer-raises", w["raise"][1] or where, f"{what}: ClaferWriter raises {w['raise'][0]}")
        return None
    text = as_text(w["written"])
    try:
        doc = ClaferDoc(text)
    except ExportError as exc:
        rep(rule, f"{key}:unreadable", where, f"{what}: the export is not readable as Clafer: {exc}", export=text[:500])
        return None
    names = model_names(model)
    exported = set(doc.names())
    missing = [n for n in names if n not in exported]
    if missing:
        rep(rule, f"{key}:missing-features", where, f"{what}: features {missing[:4]} are missing from the export "
            f"(exported: {sorted(exported)[:6]})")
        return None
    spelled = sorted(doc.raw_used - doc.raw_declared)
    if spelled:
        rep(rule, f"{key}:identifier-spelling", where, f"{what}: the constraints spell {spelled[:3]} but the hierarchy "
            f"declares {sorted(doc.raw_declared)[:6]}: one entity, two identifiers")
        return None
    stray = sorted(doc.constraint_names() - exported)
    if stray:
        rep(rule, f"{key}:undeclared-name", where, f"{what}: the constraints name {stray[:3]}, which the feature "
            f"hierarchy does not declare (declared: {sorted(exported)[:6]})")
        return None
    want = configurations(names, lambda s: model_valid(model, s))
    got = configurations(names, doc.valid)
    if want == got:
        ctx.ok(rule, key, where, f"{what}: export and model have the same {len(want)} configurations")
        return doc
    rep(rule, key, where, f"{what}: the export does not denote the model's configurations (model {len(want)}, export "
        f"{len(got)}; only in the model: {sorted(sorted(x) for x in want - got)[:2]}; only in the export: "
        f"{sorted(sorted(x) for x in got - want)[:2]})", export=text[:600])
    return None


def ctx_model(mb: ModelBuilder, d: D, host_optional: bool, decorated: bool = False) -> AObj:
    """Root -> Host (mandatory/optional); Host's children: one relation of cardinality d.
    decorated: every feature carries an attribute and some are abstract (neither changes which configurations exist)."""
    root = mb.feature("Root")
    host = mb.feature("Host", is_abstract=decorated)
    mb.relation(root, [host], 0 if host_optional else 1, 1)
    side = mb.feature("Side")
    mb.relation(root, [side], 0, 1)
    kids = [mb.feature(f"n{j}", is_abstract=(decorated and j == 0)) for j in range(d.n)]
    mb.relation(host, kids, d.min, d.max)
    if decorated:
        for i, f in enumerate([host, side] + kids):
            f._f["attributes"].append(mb.attribute("cost", i + 1, f))
    return mb.model(root, [])


def failed_then_reused(pm: ProgramModel, ctx: Ctx, mb: ModelBuilder) -> None:
    """One writer object whose transform() fails half-way (a constraint without a formula yet), the caller completes the
    model through the public setter, and transform() is called again on the same object: the text must be the one a
    fresh writer produces for the completed model (nothing of the failed attempt may be left in the object)."""
    from ..absint import AbsMutation, AbsRaise, reset_global_state
    from ..codec import PATH, new_interp, run_writer, same_content
    from ..iostubs import VFS
    wc = pm.cls(W)
    where = loc(wc.unit.path, wc.node)
    tr = pm.method(wc, "transform")
    n, o = mb.node, mb.op

    def build(complete: bool) -> AObj:
        root = mb.feature("Root")
        a, b = mb.feature("A"), mb.feature("B")
        mb.relation(root, [a], 0, 1)
        mb.relation(root, [b], 0, 1)
        a._f["attributes"].append(mb.attribute("cost", 3, a))
        c1 = mb.constraint("c1", n(o("IMPLIES"), n("A"), n("B")))
        c2 = mb.constraint("c2", n(o("OR"), n("A"), n("B")))
        if not complete:
            c2._f["_ast"] = None                               # not given a formula yet
        return mb.model(root, [c1, c2])
    reset_global_state()
    model = build(False)
    vfs = VFS()
    it = new_interp(pm, vfs)
    try:
        w = it.eval_call_class(wc, [PATH, model])
        try:
            it.call(tr, [w])
            ctx.info("C11-REUSE", "failed-then-reused", where, "a constraint without a formula does not make the writer fail")
            return
        except (AbsRaise, AbsMutation):
            pass
        mb._pin(model._f["ctcs"][1], "ast", mb.ast(n(o("OR"), n("A"), n("B"))))
        returned = it.call(tr, [w])
        second = vfs.files.get(PATH)
    except (AbsRaise, AbsMutation) as exc:
        ctx.info("C11-REUSE", "failed-then-reused", where, f"a writer object used again after a failed call raises {exc.what}")
        return
    reset_global_state()
    fresh = run_writer(pm, W, build(True))
    if fresh["raise"]:
        return
    ctx.check(second == fresh["written"] and same_content(returned, second), "C11-REUSE", "failed-then-reused", where,
              "a writer object whose first call failed writes, once the model is completed, what a fresh writer writes",
              bad=f"{W}: after a transform() that failed half-way the same object, called again on the completed model, writes a "
                  f"text that is not the one a fresh writer produces (left-overs of the failed call)")
    reset_global_state()


def check(pm: ProgramModel, ctx: Ctx) -> None:
    ctx.explanation = (
        "Translation validation of the Clafer export: ClaferWriter.transform is evaluated from "
        "source on abstract models of the Clafer fragment (each feature's children individually "
        "mandatory/optional, or one xor / or / mux / a..b group over the well-formed cardinality "
        "domain, under a mandatory and under an optional parent, the root itself a group; "
        "attributes of bool/int/float/str values; constraints over each of the eight logical "
        "operators at three positions); the emitted text is read by an interpreter of the Clafer "
        "subset written in the checker (group keyword before the name, `?`, nested clafers, "
        "[constraints] with ! && || => <=> xor, attribute declarations and uses) and its "
        "instances over all 2^n selections are compared with the model's configurations. Every "
        "name used in a constraint or attribute line must be declared with the same identifier.")
    ctx.not_decided = ["models larger than the abstract family", "Clafer features outside the emitted subset"]
    mb = ModelBuilder(pm)
    nk = 0
    for d in [x for x in domain_wf(ctx.tier, star=True) if x.n <= 3 and x.max <= 3 and x.min <= 3]:
        k = kind(d)
        if k == "other1":
            continue
        for host_optional in (False, True):
            validate(ctx, pm, "C11-GROUPS", f"kind:{k}:{d}:{'optional' if host_optional else 'mandatory'}-host",
                     ctx_model(mb, d, host_optional), f"children {d} ({k}) of a "
                     f"{'optional' if host_optional else 'mandatory'} feature")
            nk += 1
            if d in (D(1, 1, 1), D(0, 1, 1), D(1, 1, 2), D(1, 2, 2), D(0, 1, 2), D(2, 2, 3), D(1, 2, 3)):
                validate(ctx, pm, "C11-GROUPS", f"kind+attributes:{k}:{d}:{'optional' if host_optional else 'mandatory'}-host",
                         ctx_model(mb, d, host_optional, decorated=True), f"children {d} ({k}) of a "
                         f"{'optional' if host_optional else 'mandatory'} feature, every feature carrying an attribute")
    for g in (D(1, 1, 2), D(1, 2, 2), D(0, 1, 2), D(2, 2, 3)):
        root = mb.feature("Root")
        mb.relation(root, [mb.feature(f"g{j}") for j in range(g.n)], g.min, g.max)
        validate(ctx, pm, "C11-GROUPS", f"root-group:{kind(g)}", mb.model(root, []), f"root is a {kind(g)} group {g}")
    # singles mix, nested
    root = mb.feature("Root")
    a, b = mb.feature("A"), mb.feature("B")
    mb.relation(root, [a], 1, 1)
    mb.relation(root, [b], 0, 1)
    mb.relation(a, [mb.feature("A1")], 0, 1)
    mb.relation(a, [mb.feature("A2")], 1, 1)
    mb.relation(b, [mb.feature("B1"), mb.feature("B2")], 1, 1)
    validate(ctx, pm, "C11-GROUPS", "singles+nested", mb.model(root, []), "mandatory/optional children with a nested group")
    from ..codec import export_models
    for key_, m_, what_ in export_models(mb, BINARY_LOGICAL, mixed=False):
        validate(ctx, pm, "C11-GROUPS" if not m_._f["ctcs"] else "C11-OPS", f"large:{key_}", m_, what_)
    ctx.analysed["C11:kind-contexts"] = nk
    # operators ---------------------------------------------------------------------------------------
    n, o = mb.node, mb.op
    for op in BINARY_LOGICAL:
        trees = operator_trees(mb, op)        # root, over a negation and a conjunction, nested, left/right chains of itself
        first_bad = None
        for nm, tree in trees:
            sub = Ctx(ctx.prop, ctx.tier)
            if validate(sub, pm, "C11-OPS", f"operator:{op}", ctc_model(mb, [(nm, tree)]), f"constraint with {op} ({nm})") is None:
                first_bad = first_bad or sub.obligations[-1]
        if first_bad is None:
            ctx.ok("C11-OPS", f"operator:{op}", "", f"constraints with {op} at three positions are translated")
        else:
            ctx.obligations.append(first_bad)
    for nm, tree in stress_trees(mb):
        validate(ctx, pm, "C11-OPS", f"shape:{nm}", ctc_model(mb, [("c", tree)]), f"constraint shape {nm}")
    validate(ctx, pm, "C11-OPS", "operator:NOT", ctc_model(mb, [("c", n(o("NOT"), n("A"))), ("d", n(o("NOT"), n(o("NOT"), n("B"))))]),
             "negation constraints")
    # a constraint meeting the tree / another level of itself; one writer object used again; a failed call in between ----
    from ..codec import WriterOnly, export_interactions, writer_reuse_check
    groups: dict[str, list[Any]] = {}
    for grp_, key_, m_, what_ in export_interactions(mb, BINARY_LOGICAL):
        sub = Ctx(ctx.prop, ctx.tier)
        fam = key_.split(":")[0] if grp_ == "relatives" else key_.split("_")[0].split("-")[0] if grp_ == "polarity" else \
            key_.split("-")[0]
        fam = fam if fam != "not" else key_.split("_")[1]
        ok_ = validate(sub, pm, "C11-OPS", f"{grp_}:{fam}", m_, what_) is not None
        groups.setdefault(f"{grp_}:{fam}", []).append(None if ok_ else sub.obligations[-1])
    for gkey, res in groups.items():
        bad_ = [r_ for r_ in res if r_ is not None]
        if bad_:
            ctx.obligations.append(bad_[0])
        else:
            ctx.ok("C11-OPS", gkey, "", f"{len(res)} models in which a constraint meets the tree / another level of itself are "
                   f"translated")
    writer_reuse_check(WriterOnly(pm, ctx, W, "C11"), mb, "REUSE", op="REQUIRES", abstract=False)
    failed_then_reused(pm, ctx, mb)
    # one identifier per entity -----------------------------------------------------------------------------
    from ..codec import name_model
    for cls_ in ("plain", "space", "punct", "unicode", "digit-first", "underscore-first", "digits", "case-variant", "opword", "keyword", "tab-inside", "double-blank",
                 "apostrophes", "dot-inside", "dot-and-punct", "leading-blank", "trailing-blank", "number-like", "decomposed-accent"):
        nm = NAME_CLASSES[cls_]
        validate(ctx, pm, "C11-ONEENC", f"feature-name:{cls_}", name_model(mb, nm), f"feature named {nm!r}")
    for cls_ in ("space", "dot-inside", "apostrophes", "opword"):
        validate(ctx, pm, "C11-ONEENC", f"root-name-in-constraint:{cls_}", name_model(mb, NAME_CLASSES[cls_], in_ctc=True, as_root=True),
                 f"root named {NAME_CLASSES[cls_]!r} and used in a constraint")
    wc = pm.cls(W)
    where = loc(wc.unit.path, wc.node)
    for key, aname in (("plain", "cost"), ("space", "unit cost"), ("punct", "cost-eur")):
        root = mb.feature("Root")
        a = mb.feature("A")
        mb.relation(root, [a], 1, 1)
        a._f["attributes"].append(mb.attribute(aname, 3, a))
        doc = validate(ctx, pm, "C11-ONEENC", f"attribute-model:{key}", mb.model(root, []), f"attribute named {aname!r}")
        if doc is not None:
            oos = doc.out_of_scope_attributes()
            ctx.check(not oos, "C11-ONEENC", f"attribute-scope:{key}", where,
                      "a clafer that sets an attribute inherits the clafer that declares it",
                      bad=f"attribute {aname!r}: {oos[0] if oos else ''}")
            used = {u for u, _ in doc.used_attrs}
            decl = set(doc.declared_attrs)
            ctx.check(used <= decl, "C11-ONEENC", f"attribute-name:{key}", where,
                      f"attribute {aname!r} is declared and used with the same identifier",
                      bad=f"attribute {aname!r} is used as {sorted(used)} but declared as {sorted(decl)}")
    # attribute value types ----------------------------------------------------------------------------------
    for key, val, typ, lit in (("bool", True, "boolean", "true"), ("int", 7, "integer", "7"),
                               ("float", 2.5, "double", "2.5"), ("str", "hi", "string", '"hi"'),
                               ("false", False, "boolean", "false"), ("float-integral", 6.0, "double", "6.0"),
                               ("int-zero", 0, "integer", "0"), ("numeric-string", "10", "string", '"10"')):
        root = mb.feature("Root")
        a = mb.feature("A")
        mb.relation(root, [a], 1, 1)
        a._f["attributes"].append(mb.attribute("attr", val, a))
        doc = validate(ctx, pm, "C11-TYPES", f"value-model:{key}", mb.model(root, []), f"attribute with {key} value")
        if doc is not None:
            ctx.check(doc.declared_attrs.get("attr") == typ and ("attr", lit) in doc.used_attrs, "C11-TYPES",
                      f"value:{key}", where, f"{key} attribute declared as {typ} with value {lit}",
                      bad=f"{key} attribute: declared type {doc.declared_attrs.get('attr')!r} (expected {typ}), "
                          f"value lines {doc.used_attrs} (expected {lit})")
    ctx.floor("C11", "obligations", len(ctx.obligations), 50)
