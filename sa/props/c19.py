"""C19 — operations depend only on their argument; read-only ones never mutate it (DESIGN §5 C19)."""
from __future__ import annotations

import ast
from typing import Any, Optional

from ..absint import AObj, AbsMutation, AbsRaise, ClassRef, EnumVal, Interp, OrdInt
from ..core import AnalysisError, Ctx, is_library_error, loc
from ..model import ModelBuilder, freeze_model, rich_model, snapshot
from ..pm import ClassInfo, ProgramModel

MUTATING = {"GenerateRandomAttribute"}


def operation_classes(pm: ProgramModel) -> list[ClassInfo]:
    out = []
    for c in pm.classes.values():
        if c.unit.env or ".operations." not in c.unit.mod + ".":
            continue
        ex = pm.method(c, "execute")
        if ex is None or pm.method(c, "get_result") is None:
            continue
        if "abstractmethod" in ex.decorators() or "abstractmethod" in \
                (c.methods["__init__"].decorators() if "__init__" in c.methods else []):
            continue
        # an operation implements an interface of the framework (a base defined outside the package); a helper or mixin
        # of the package that merely has execute / get_result is not one
        plain = {"object", "ABC", "Generic", "Protocol", "Enum"}
        foreign = False
        for k in pm.mro(c):
            for b in k.bases:
                rb = pm.resolve_base(k, b)
                if (rb is None and b.split(".")[-1].split("[")[0] not in plain) or (rb is not None and rb.unit.env):
                    foreign = True
        if not foreign:
            continue
        out.append(c)
    return sorted(out, key=lambda c: c.name)


def _first_difference(a: Any, b: Any, path: str = "result") -> str:
    if isinstance(a, list) and isinstance(b, list):
        if len(a) != len(b):
            return f"{path}: {len(a)} vs {len(b)} entries"
        for i, (x, y) in enumerate(zip(a, b)):
            if x != y:
                return _first_difference(x, y, f"{path}[{i}]")
    if isinstance(a, dict) and isinstance(b, dict):
        for k in a:
            if k in b and a[k] != b[k]:
                return _first_difference(a[k], b[k], f"{path}[{k!r}]")
    return f"{path}: {str(a)[:80]} vs {str(b)[:80]}"


def canon(v: Any) -> Any:
    if isinstance(v, AObj):
        if v._cls == "Feature":
            return ("F", v._f.get("name"))
        if v._cls == "FeatureModel":
            return ("FM", id(v))
        return (v._cls, id(v))
    if isinstance(v, (list, tuple)):
        return [canon(x) for x in v]
    if isinstance(v, (set, frozenset)):
        return ("set", sorted(repr(canon(x)) for x in v))
    if isinstance(v, dict):
        return ("dict", sorted((repr(canon(k)), repr(canon(x))) for k, x in v.items()))
    if isinstance(v, OrdInt):
        return v.v
    if isinstance(v, EnumVal):
        return repr(v)
    return v


def natives(it: Interp) -> None:
    import statistics

    def mean(xs: Any) -> Any:
        xs = list(xs)
        if not xs:
            raise AbsRaise("StatisticsError: mean requires at least one data point")
        return statistics.mean(xs)

    def median(xs: Any) -> Any:
        xs = list(xs)
        if not xs:
            raise AbsRaise("StatisticsError: no median for empty data")
        return statistics.median(xs)
    it.native["statistics.mean"] = mean
    it.native["statistics.median"] = median


def small_model(mb: ModelBuilder) -> AObj:
    r = mb.feature("S")
    a, b = mb.feature("sa"), mb.feature("sb")
    mb.relation(r, [a], 1, 1)
    mb.relation(r, [b], 0, 1)
    return mb.model(r, [mb.constraint("c", mb.node(mb.op("REQUIRES"), mb.node("sb"), mb.node("sa")))])


def setup_op(pm: ProgramModel, it: Interp, ci: ClassInfo, mb: ModelBuilder, model: AObj) -> AObj:
    op = it.eval_call_class(ci)
    if ci.name == "FMFeatureAncestors":
        feats = [c for r in model._f["root"]._f["relations"] for c in r._f["children"]]
        it.call(pm.method(ci, "set_feature"), [op, feats[0]])
    if ci.name == "GenerateRandomAttribute":
        dom = AObj("Domain", range_list=[], element_list=["e1", "e2"])
        it.call(pm.method(ci, "set_name"), [op, "rnd"])
        it.call(pm.method(ci, "set_domain"), [op, dom])
    return op


def check(pm: ProgramModel, ctx: Ctx) -> None:
    ctx.explanation = (
        "Effect and state analysis by formula evaluation over abstract models, for every operation "
        "class discovered by interface (package classes under operations/ with execute/"
        "get_result): (PURE) execute, with everything it reaches (package helpers, model methods, "
        "the dependency's Metrics.execute read from source), is evaluated on an abstract model "
        "that realises every relation kind / constraint class and whose objects and containers "
        "are frozen: any store into them is a finding; (STATE) two executions on one operation "
        "object (a rich model, then a small one) must leave exactly the result a fresh object "
        "computes for the second model; (GENATTR) random attribute generation, with the random "
        "source replaced by recording stubs, adds exactly one attribute built from the domain to "
        "each targeted feature lacking it and touches nothing else; argument order of "
        "randint/uniform; a missing domain or name is reported as a library error.")
    ctx.not_decided = ["distribution of the random values, seeds",
                       "effects on paths not taken for the abstract models (all relation kinds, "
                       "constraint classes and both leaf-only settings are realised)"]
    rule = "C19"
    ops = operation_classes(pm)
    ctx.analysed["C19:operation-classes"] = [c.name for c in ops]
    if len(ops) < 9:
        raise AnalysisError(rule, f"only {len(ops)} operation classes discovered (floor 9)")
    mb = ModelBuilder(pm)
    for ci in ops:
        ex = pm.method(ci, "execute")
        assert ex is not None
        where = loc(ci.unit.path, ci.node)
        if ci.name in MUTATING:
            continue
        # PURE ---------------------------------------------------------------------------------
        rich = rich_model(mb)
        before = snapshot(rich)
        freeze_model(rich)
        it = Interp(pm, max_depth=60)
        natives(it)
        try:
            op = setup_op(pm, it, ci, mb, rich)
            it.call(pm.method(ci, "execute"), [op, rich])
            r1 = canon(it.call(pm.method(ci, "get_result"), [op]))
            verdict: Any = "ok"
        except AbsMutation as exc:
            verdict = ("mutation", exc.what, exc.where)
        except AbsRaise as exc:
            verdict = ("raise", exc.what, exc.where)
        if verdict == "ok":
            ctx.ok("C19-PURE", f"pure:{ci.name}", where,
                   f"{ci.name}.execute stores nothing into the (frozen) abstract model")
            ctx.check(snapshot(rich) == before, "C19-PURE", f"unchanged:{ci.name}", where,
                      "model snapshot identical after execute", bad="model snapshot differs after execute")
        elif verdict[0] == "mutation":
            ctx.violation("C19-PURE", f"pure:{ci.name}", verdict[2] or where,
                          f"{ci.name}.execute modifies the model it analyses: {verdict[1]}")
            continue
        else:
            ctx.violation("C19-TOTAL", f"raises:{ci.name}", verdict[2] or where,
                          f"{ci.name}.execute raises on a well-formed model: {verdict[1]}")
            continue
        # ONLY THE MODEL: a Python set has no defined iteration order (str hashes change with PYTHONHASHSEED from process
        # to process); the evaluator imposes one, and the operation is decided under both extreme orders - a result
        # that differs depends on the hash seed of the process, not on the model alone
        try:
            richd = rich_model(mb)
            itd = Interp(pm, max_depth=60)
            natives(itd)
            itd.set_order = "desc"
            opd = setup_op(pm, itd, ci, mb, richd)
            itd.call(pm.method(ci, "execute"), [opd, richd])
            rd = canon(itd.call(pm.method(ci, "get_result"), [opd]))
            ctx.check(rd == r1, "C19-ONLYMODEL", f"set-order:{ci.name}", where,
                      f"{ci.name}: the result is the same under both extreme set iteration orders ({itd.set_iterations} set "
                      f"iterations on the path)",
                      bad=f"{ci.name}: the result depends on the iteration order of a Python set, hence on PYTHONHASHSEED, not "
                          f"on the model alone: {_first_difference(r1, rd)}")
        except (AbsRaise, AbsMutation) as exc:
            ctx.violation("C19-ONLYMODEL", f"set-order:{ci.name}", where, f"{ci.name} under the other set order: {exc.what}")
        # STATE --------------------------------------------------------------------------------
        try:
            it2 = Interp(pm, max_depth=60)
            natives(it2)
            small = small_model(mb)
            op2 = setup_op(pm, it2, ci, mb, small)
            it2.call(pm.method(ci, "execute"), [op2, small])
            fresh = canon(it2.call(pm.method(ci, "get_result"), [op2]))
            # same object as used for the rich model, now on the small model
            rich2 = rich_model(mb)
            it3 = Interp(pm, max_depth=60)
            natives(it3)
            op3 = setup_op(pm, it3, ci, mb, rich2)
            it3.call(pm.method(ci, "execute"), [op3, rich2])
            if ci.name == "FMFeatureAncestors":
                it3.call(pm.method(ci, "set_feature"), [op3, small._f["root"]._f["relations"][0]._f["children"][0]])
            it3.call(pm.method(ci, "execute"), [op3, small])
            second = canon(it3.call(pm.method(ci, "get_result"), [op3]))
            # and once more on the same model: repeated execution gives the same result
            it3.call(pm.method(ci, "execute"), [op3, small])
            third = canon(it3.call(pm.method(ci, "get_result"), [op3]))
        except (AbsRaise, AbsMutation) as exc:
            ctx.violation("C19-RESULT", f"state:{ci.name}", where,
                          f"{ci.name}: second execution raises {exc.what}")
            continue
        ctx.check(second == fresh, "C19-RESULT", f"state:{ci.name}", where,
                  f"result after executing a second model equals a fresh object's result for it",
                  bad=f"{ci.name}: result for the second model depends on the earlier execution "
                      f"(got {_short(second)} vs fresh {_short(fresh)})")
        # a second model that is *equal* to the first under FeatureModel.__eq__ but differs in what equality
        # ignores (abstract flags, attributes, constraint names): the result must still be the second model's
        try:
            it4 = Interp(pm, max_depth=60)
            natives(it4)
            e1, e2 = rich_model(mb), _equal_but_different(mb)
            op4 = setup_op(pm, it4, ci, mb, e1)
            it4.call(pm.method(ci, "execute"), [op4, e1])
            if ci.name == "FMFeatureAncestors":
                it4.call(pm.method(ci, "set_feature"), [op4, [c for r in e2._f["root"]._f["relations"] for c in r._f["children"]][0]])
            it4.call(pm.method(ci, "execute"), [op4, e2])
            got_e = canon(it4.call(pm.method(ci, "get_result"), [op4]))
            it5 = Interp(pm, max_depth=60)
            natives(it5)
            e3 = _equal_but_different(mb)
            op5 = setup_op(pm, it5, ci, mb, e3)
            it5.call(pm.method(ci, "execute"), [op5, e3])
            want_e = canon(it5.call(pm.method(ci, "get_result"), [op5]))
        except (AbsRaise, AbsMutation) as exc:
            got_e, want_e = ("raise", exc.what), None
        ctx.check(_strip_ids(got_e) == _strip_ids(want_e), "C19-RESULT", f"equal-model:{ci.name}", where,
                  "a second model equal to the first (but differing in flags equality ignores) is analysed afresh",
                  bad=f"{ci.name}: executing a second model that compares equal to the first one returns the first "
                      f"model's result ({_short(got_e)} vs {_short(want_e)})")
        ctx.check(third == fresh, "C19-RESULT", f"repeat:{ci.name}", where,
                  "repeating execute on the same model gives the same result",
                  bad=f"{ci.name}: repeated execution changes the result ({_short(third)} vs "
                      f"{_short(fresh)})")
    # history across operation objects: state keyed by names must not survive from one model to the next
    from ..absint import reset_global_state
    from ..model import twin_model
    for ci in ops:
        if ci.name in MUTATING:
            continue
        where = loc(ci.unit.path, ci.node)
        try:
            ita = Interp(pm, max_depth=60)
            natives(ita)
            ma = rich_model(mb)
            opa = setup_op(pm, ita, ci, mb, ma)
            ita.call(pm.method(ci, "execute"), [opa, ma])
            from ..model import same_names_pair
            m_chain, m_flat = same_names_pair(mb)
            opa2 = setup_op(pm, ita, ci, mb, m_chain)
            ita.call(pm.method(ci, "execute"), [opa2, m_chain])
            mt = twin_model(rich_model(mb))
            itb = Interp(pm, max_depth=60)
            natives(itb)
            opb = setup_op(pm, itb, ci, mb, mt)
            itb.call(pm.method(ci, "execute"), [opb, mt])
            after = canon(itb.call(pm.method(ci, "get_result"), [opb]))
            opb2 = setup_op(pm, itb, ci, mb, m_flat)
            itb.call(pm.method(ci, "execute"), [opb2, m_flat])
            after = [after, canon(itb.call(pm.method(ci, "get_result"), [opb2]))]
            reset_global_state()
            mt2 = twin_model(rich_model(mb))
            itc = Interp(pm, max_depth=60)
            natives(itc)
            opc = setup_op(pm, itc, ci, mb, mt2)
            itc.call(pm.method(ci, "execute"), [opc, mt2])
            fresh = canon(itc.call(pm.method(ci, "get_result"), [opc]))
            _, m_flat2 = same_names_pair(mb)
            opc2 = setup_op(pm, itc, ci, mb, m_flat2)
            itc.call(pm.method(ci, "execute"), [opc2, m_flat2])
            fresh = [fresh, canon(itc.call(pm.method(ci, "get_result"), [opc2]))]
        except (AbsRaise, AbsMutation) as exc:
            ctx.violation("C19-HISTORY", f"history:{ci.name}", where, f"{ci.name}: raises {exc.what}")
            continue
        ctx.check(_strip_ids(after) == _strip_ids(fresh), "C19-HISTORY", f"history:{ci.name}", where,
                  "a new operation object analysing a second model gives the result of a fresh process",
                  bad=f"{ci.name}: the result for a model depends on a model analysed earlier by another "
                      f"operation object (process-wide state): {_short(after)} vs {_short(fresh)}")
    after_edit(pm, ctx, mb, ops)
    op_sequences(pm, ctx, mb, ops)
    genattr(pm, ctx, mb)
    ctx.floor(rule, "obligations", len(ctx.obligations), 30)


def _equal_but_different(mb: ModelBuilder) -> AObj:
    """rich_model with abstract flags flipped, an extra attribute and renamed constraints: equal to
    rich_model under FeatureModel.__eq__, different for every operation that looks at those fields."""
    m = rich_model(mb)
    for f in _features(m):
        f._f["is_abstract"] = not f._f["is_abstract"]
    fs = _features(m)
    fs[2]._f["attributes"].append(mb.attribute("extra", 1, fs[2]))
    for i, c in enumerate(m._f["ctcs"]):
        c._f["name"] = f"renamed{i}"
    return m


def _strip_ids(v: Any) -> Any:
    if isinstance(v, tuple) and len(v) == 2 and v[0] in ("FM",) :
        return ("FM",)
    if isinstance(v, (list, tuple)):
        return [_strip_ids(x) for x in v]
    return v


def _short(v: Any) -> str:
    s = repr(v)
    return s if len(s) < 90 else s[:60] + f"...<{len(s)} chars>"


def after_edit(pm: ProgramModel, ctx: Ctx, mb: ModelBuilder, ops: list[Any]) -> None:
    """A model is a mutable tree. Each operation is executed, the tree is then edited in place the way the readers build
    it (a child appended to an existing group and wired to its parent; a new mandatory child attached with
    add_relation; a sub-tree detached) and a new operation object is executed on the same model object: the result
    must be the one a fresh process gives for an independently built model of the edited shape."""
    from ..absint import reset_global_state

    def build(edited: bool) -> tuple[AObj, dict[str, Any]]:
        F = mb.feature
        root, a, b = F("R"), F("A"), F("B")
        g1, g2, m1, o1 = F("G1"), F("G2"), F("M1"), F("O1")
        mb.relation(root, [a], 1, 1)
        mb.relation(root, [b], 0, 1)
        grp = mb.relation(a, [g1, g2], 1, 1)
        mb.relation(a, [m1], 1, 1)
        rb = mb.relation(b, [o1], 0, 1)
        fm = mb.model(root, [])
        h = {"a": a, "b": b, "grp": grp, "rb": rb}
        if edited:
            apply_edit(fm, h)
        return fm, h

    def apply_edit(fm: AObj, h: dict[str, Any]) -> None:
        g3 = mb.feature("G3", parent=h["a"])
        h["grp"]._f["children"].append(g3)                 # another member of the existing group
        mb.relation(h["a"], [mb.feature("M2")], 1, 1)       # a new mandatory child, attached with add_relation
        h["b"]._f["relations"].remove(h["rb"])              # a sub-tree detached

    for ci in ops:
        if ci.name in MUTATING:
            continue
        where = loc(ci.unit.path, ci.node)
        try:
            reset_global_state()
            fm, h = build(False)
            it = Interp(pm, max_depth=60)
            natives(it)
            op = setup_op(pm, it, ci, mb, fm)
            it.call(pm.method(ci, "execute"), [op, fm])
            apply_edit(fm, h)
            op2 = setup_op(pm, it, ci, mb, fm)
            it.call(pm.method(ci, "execute"), [op2, fm])
            after = canon(it.call(pm.method(ci, "get_result"), [op2]))
            reset_global_state()
            fm2, _ = build(True)
            it2 = Interp(pm, max_depth=60)
            natives(it2)
            op3 = setup_op(pm, it2, ci, mb, fm2)
            it2.call(pm.method(ci, "execute"), [op3, fm2])
            fresh = canon(it2.call(pm.method(ci, "get_result"), [op3]))
        except (AbsRaise, AbsMutation) as exc:
            ctx.violation("C19-AFTER-EDIT", f"after-edit:{ci.name}", where, f"{ci.name}: raises {exc.what}")
            continue
        ctx.check(_strip_ids(after) == _strip_ids(fresh), "C19-AFTER-EDIT", f"after-edit:{ci.name}", where,
                  "the result for a model edited in place after a first analysis is the result for the edited model",
                  bad=f"{ci.name}: after an in-place edit of the model (group member added, mandatory child added, sub-tree "
                      f"detached) the result is still (partly) the one of the model as it was: {_short(after)} vs {_short(fresh)}")
    reset_global_state()


def op_sequences(pm: ProgramModel, ctx: Ctx, mb: ModelBuilder, ops: list[Any], prefix: str = "C19") -> None:
    """Sequences of calls on ONE operation object (the other history rules use a new object per step): (edit) execute,
    the model edited in place - a group member added, a mandatory child attached, a sub-tree detached; separately: a new
    root put on top -, execute again; (failed) execute on a good model, an execution that fails half-way on an
    ill-formed one, execute on a good model; (caller) the caller empties / extends the result it was given, execute
    again. Each time the result must be the one a fresh object in a fresh process gives for an independently built model
    of the shape the model has now."""
    from ..absint import reset_global_state
    rule = f"{prefix}-SEQUENCE"

    def build(edit: str = "") -> tuple[AObj, dict[str, Any]]:
        F = mb.feature
        root, a, b = F("R"), F("A"), F("B")
        g1, g2, m1, o1, o2 = F("G1"), F("G2"), F("M1"), F("O1"), F("O2")
        mb.relation(root, [a], 1, 1)
        mb.relation(root, [b], 0, 1)
        grp = mb.relation(a, [g1, g2], 1, 1)
        mb.relation(a, [m1], 1, 1)
        rb = mb.relation(b, [o1], 0, 1)
        mb.relation(o1, [o2], 1, 1)
        fm = mb.model(root, [mb.constraint("k", mb.node(mb.op("REQUIRES"), mb.node("G1"), mb.node("B")))])
        h = {"a": a, "b": b, "grp": grp, "rb": rb, "root": root}
        if edit:
            apply_edit(fm, h, edit)
        return fm, h

    def apply_edit(fm: AObj, h: dict[str, Any], edit: str) -> None:
        if edit in ("grow", "member"):
            g3 = mb.feature("G3", parent=h["a"])
            add = pm.method(pm.cls("Relation"), "add_child") if pm.has_cls("Relation") else None
            if add is not None:
                try:
                    mb._it.call(add, [h["grp"], g3])            # another member of the existing group, through the API
                except (AbsRaise, AbsMutation, AnalysisError):
                    h["grp"]._f["children"].append(g3)
                if not any(c is g3 for c in h["grp"]._f["children"]):
                    h["grp"]._f["children"].append(g3)
                g3._f["parent"] = h["a"]
            else:
                h["grp"]._f["children"].append(g3)
            if edit == "member":
                return                                         # nothing but Relation.add_child on an attached relation
            h["grp"]._f["children"].append(mb.feature("G4", parent=h["a"]))   # and one appended to the list directly
            m2 = mb.feature("M2")
            mb.relation(h["a"], [m2], 0, 1)                     # a new optional child, attached with add_relation
            mb.relation(m2, [mb.feature("M3")], 1, 1)
            h["b"]._f["relations"].remove(h["rb"])              # a sub-tree detached
            # (chosen so that every operation's answer changes: 6 -> 12 configurations, other leaves, depth, core set ...)
        elif edit == "new-root":
            top = mb.feature("Top")
            mb.relation(top, [h["root"]], 1, 1)                 # the old root becomes the mandatory child of a new one
            mb.relation(top, [mb.feature("Side")], 0, 1)
            fm._f["root"] = top

    def bad_model() -> AObj:
        F = mb.feature
        root, x = F("R"), F("X")
        lefts = [F(f"Left{i}") for i in range(1, 5)]
        for i, lf in enumerate(lefts):                          # what is left pending has mandatory children of its own
            mb.relation(lf, [F(f"Left{i + 1}child")], 1, 1)
        mb.relation(root, [lefts[0]], 1, 1)
        mb.relation(root, [lefts[1]], 0, 1)
        mb.relation(root, [x], 1, 1)
        mb.relation(root, [lefts[2]], 1, 1)
        mb.relation(root, [lefts[3]], 0, 1)
        r2 = mb.relation(x, [F("Y")], 1, 1)
        r2._f["children"][0] = "Driver"                         # a name where a feature belongs: the walk fails half-way,
        return mb.model(root, [])                               # with work still pending whichever way it goes round

    def run(it: Interp, ci: Any, op: AObj, fm: AObj) -> Any:
        if ci.name == "FMFeatureAncestors":                     # always asked about the same feature, G1, wherever it hangs
            stack, target = [fm._f["root"]], None
            while stack:
                f_ = stack.pop()
                if isinstance(f_, AObj) and f_._f.get("name") == "G1":
                    target = f_
                if isinstance(f_, AObj):
                    stack.extend(c for r in f_._f["relations"] for c in r._f["children"])
            if target is not None:
                it.call(pm.method(ci, "set_feature"), [op, target])
        it.call(pm.method(ci, "execute"), [op, fm])
        return it.call(pm.method(ci, "get_result"), [op])

    def fresh(ci: Any, edit: str) -> Any:
        reset_global_state()
        fm2, _ = build(edit)
        it2 = Interp(pm, max_depth=60)
        natives(it2)
        return canon(run(it2, ci, setup_op(pm, it2, ci, mb, fm2), fm2))

    for ci in ops:
        if ci.name in MUTATING:
            continue
        where = loc(ci.unit.path, ci.node)
        for edit in ("grow", "new-root", "member"):
            key = f"execute-edit-execute:{edit}:{ci.name}"
            try:
                reset_global_state()
                fm, h = build()
                it = Interp(pm, max_depth=60)
                natives(it)
                op = setup_op(pm, it, ci, mb, fm)
                run(it, ci, op, fm)
                apply_edit(fm, h, edit)
                after = canon(run(it, ci, op, fm))
                want = fresh(ci, edit)
            except (AbsRaise, AbsMutation) as exc:
                ctx.violation(rule, key, where, f"{ci.name}: raises {exc.what}")
                continue
            ctx.check(_strip_ids(after) == _strip_ids(want), rule, key, where,
                      "one operation object executed again after the model was edited in place gives the edited model's result",
                      bad=f"{ci.name}: the same operation object, executed again after the model was edited in place ({edit}), "
                          f"answers {_short(after)}; a fresh object on the edited model answers {_short(want)}")
        # a failing execution in between
        key = f"execute-failed-execute:{ci.name}"
        try:
            reset_global_state()
            fm, _ = build()
            it = Interp(pm, max_depth=60)
            natives(it)
            op = setup_op(pm, it, ci, mb, fm)
            run(it, ci, op, fm)
            failed = False
            try:
                run(it, ci, op, bad_model())
            except (AbsRaise, AbsMutation):
                failed = True
            fm3, _ = build("grow")
            after = canon(run(it, ci, op, fm3))
            want = fresh(ci, "grow")
        except (AbsRaise, AbsMutation) as exc:
            ctx.violation(rule, key, where, f"{ci.name}: raises {exc.what}")
            continue
        ctx.check(_strip_ids(after) == _strip_ids(want), rule, key, where,
                  "an execution that failed on an ill-formed model leaves nothing behind for the next execution",
                  bad=f"{ci.name}: after an execution {'that failed half-way on an ill-formed model' if failed else 'on an odd model'}"
                      f" the same object answers {_short(after)} for a good model; a fresh object answers {_short(want)}")
        # the caller changes the result it was given
        key = f"execute-caller-edits-result-execute:{ci.name}"
        try:
            reset_global_state()
            fm, _ = build()
            it = Interp(pm, max_depth=60)
            natives(it)
            op = setup_op(pm, it, ci, mb, fm)
            res = run(it, ci, op, fm)
            if isinstance(res, list):
                res.append("junk")
                del res[0:1]
            elif isinstance(res, dict):
                res["junk"] = 1
            elif isinstance(res, set):
                res.add("junk")
            else:
                continue
            after = canon(run(it, ci, op, fm))
            want = fresh(ci, "")
        except (AbsRaise, AbsMutation) as exc:
            ctx.violation(rule, key, where, f"{ci.name}: raises {exc.what}")
            continue
        ctx.check(_strip_ids(after) == _strip_ids(want), rule, key, where,
                  "what the caller does to a result it was given does not show in the next execution",
                  bad=f"{ci.name}: after the caller changed the result it was given, the next execution on the same model answers "
                      f"{_short(after)} instead of {_short(want)}")
    reset_global_state()


def genattr(pm: ProgramModel, ctx: Ctx, mb: ModelBuilder) -> None:
    rule = "C19-GENATTR"
    if not pm.has_cls("GenerateRandomAttribute"):
        raise AnalysisError(rule, "anchor class vanished: GenerateRandomAttribute")
    ci = pm.cls("GenerateRandomAttribute")
    gen = pm.func("generate_random_attribute_values", "fm_generate_random_attribute")
    frd = pm.func("get_random_value_from_domain", "fm_generate_random_attribute")
    frr = pm.func("get_random_value_from_ranges", "fm_generate_random_attribute")
    where = loc(gen.unit.path, gen.node)
    calls: list[tuple[str, Any]] = []
    PICK = ["mid"]          # which point of [a, b] the stand-in for random.uniform returns

    def mk() -> Interp:
        it = Interp(pm, max_depth=40)
        calls.clear()

        def choice(xs: Any) -> Any:
            xs = list(xs)
            calls.append(("choice", xs))
            if not xs:
                raise AbsRaise("IndexError: choice from empty sequence")
            return xs[-1]

        def randint(a: Any, b: Any) -> Any:
            calls.append(("randint", (a, b)))
            if a > b:
                raise AbsRaise("ValueError: empty range for randrange()")
            return ("randint", a, b)

        def uniform(a: Any, b: Any) -> Any:
            calls.append(("uniform", (a, b)))
            pick = PICK[0]
            if pick == "lo":
                return float(a)
            if pick == "hi":
                return float(b)
            return 1.23456789 if a <= 1.23456789 <= b else a + (b - a) * 0.61803398875
        def choices(population: Any, weights: Any = None, *, cum_weights: Any = None, k: int = 1) -> Any:
            population = list(population)
            calls.append(("choices", (population, None if weights is None else list(weights))))
            if not population:
                raise AbsRaise("IndexError: cannot choose from an empty population")
            if weights is not None:
                ws = list(weights)
                if len(ws) != len(population):
                    raise AbsRaise("ValueError: the number of weights does not match the population")
                if sum(ws) <= 0:
                    raise AbsRaise("ValueError: total of weights must be greater than zero")
                pick = max(range(len(ws)), key=lambda i: ws[i])
                return [population[pick]] * k
            return [population[-1]] * k
        it.native["random.choices"] = choices
        it.native["random.sample"] = lambda population, k: list(population)[:k]
        it.native["random.shuffle"] = lambda xs: None
        it.native["random.choice"] = choice
        it.native["random.randint"] = randint
        it.native["random.uniform"] = uniform
        it.native["random.random"] = lambda: 0.5
        it.native["random.randrange"] = lambda a, b=None: ("randrange", a, b)
        return it

    # (a) mutation discipline over both leaf-only settings -------------------------------------------
    for only_leaf, shape in ((False, "rich"), (True, "rich"), (False, "root-only"), (True, "root-only")):
        # (the model that is its root alone: the root is the only feature and the only leaf)
        fm = rich_model(mb) if shape == "rich" else mb.model(mb.feature("Solo"), [])
        feats = _features(fm)
        have = feats[3] if shape == "rich" else None
        have2 = feats[5] if shape == "rich" else None       # has the attribute too, but without a value (UVL `B {rnd}`)
        if have is not None:
            pre = mb.attribute("rnd", "keep", have)
            have._f["attributes"].append(pre)
            have2._f["attributes"].append(mb.attribute("rnd", None, have2))
            have2._f["attributes"].append(mb.attribute("other", None, have2))
        before_attrs = {id(f): list(f._f["attributes"]) for f in feats}
        dom = AObj("Domain", range_list=[], element_list=["e1", "e2"])
        # everything except the attribute lists is frozen
        snap_rel = snapshot(AObj("x", rels=[r for f in feats for r in f._f["relations"]]), skip=("attributes",))
        it = mk()
        it.native[frd.qual] = it.signature_stub(frd, lambda d, *rest: ("VALUE", d))
        try:
            res = it.call(gen, [fm, "rnd", dom, only_leaf])
            err: Optional[str] = None
        except (AbsRaise, AbsMutation) as exc:
            res, err = None, exc.what
        bad = []
        if err:
            bad.append(f"raises {err}")
        else:
            for f in feats:
                targeted = (not only_leaf) or not f._f["relations"]
                old = before_attrs[id(f)]
                new = list(f._f["attributes"])
                if f is have or f is have2 or not targeted:
                    if len(new) != len(old) or any(a is not b for a, b in zip(new, old)):
                        bad.append(f"feature {f._f['name']} ({'already has it' if f is have or f is have2 else 'not targeted'}) "
                                   f"was modified")
                    continue
                added = new[len(old):]
                if new[:len(old)] != old or len(added) != 1:
                    bad.append(f"feature {f._f['name']}: {len(added)} attributes added (expected exactly 1)")
                    continue
                a = added[0]
                if not (isinstance(a, AObj) and a._cls == "Attribute" and a._f.get("name") == "rnd"
                        and a._f.get("parent") is f):
                    bad.append(f"feature {f._f['name']}: added attribute is not (name='rnd', parent=feature)")
                elif a._f.get("default_value") != ("VALUE", dom):
                    bad.append(f"feature {f._f['name']}: value is {a._f.get('default_value')!r}, not the "
                               f"value drawn from the given domain")
            if snapshot(AObj("x", rels=[r for f in feats for r in f._f["relations"]]), skip=("attributes",)) != snap_rel:
                bad.append("relations of the model were modified")
            if fm._f["ctcs"] and len(fm._f["ctcs"]) != 8:
                bad.append("constraints of the model were modified")
            if res is not fm:
                bad.append("the operation does not return the model it was given")
        ctx.check(not bad, rule, f"adds-exactly-one:only_leaf={only_leaf}" + ("" if shape == "rich" else f":{shape}"), where,
                  "each targeted feature lacking the attribute gets exactly one (name, parent, value "
                  "from the domain); others untouched", bad="; ".join(bad[:3]))
    # (a') the attribute that ends up on the feature holds the drawn value itself (no conversion on the way) ---
    for key, elems in (("letters", ["a", "b"]), ("numeric-looking", ["1", "2", "3"]), ("mixed", ["7", "x", "2.5"])):
        fm2 = rich_model(mb)
        dom2 = AObj("Domain", range_list=[], element_list=list(elems))
        it = mk()
        try:
            it.call(gen, [fm2, "rnd", dom2, False])
            bad4 = []
            for f in _features(fm2):
                for a in f._f["attributes"]:
                    if not (isinstance(a, AObj) and a._f.get("name") == "rnd"):
                        continue
                    try:
                        v = it.getattr(a, "default_value", ast.Constant(value=None), None)
                    except (AbsRaise, AnalysisError):
                        v = a._f.get("default_value")
                    if not any(type(v) is type(e) and v == e for e in elems):
                        bad4.append(f"feature {f._f['name']}: attribute value {v!r} is not one of the listed elements {elems}")
        except (AbsRaise, AbsMutation) as exc:
            bad4 = [f"raises {exc.what}"]
        ctx.check(not bad4, rule, f"stored-value-is-drawn-value:{key}", where,
                  f"the generated attribute holds one of the listed elements {elems}", bad="; ".join(bad4[:2]))
    # (b) value drawn from the domain ---------------------------------------------------------------
    def dom_of(ranges: list[tuple[Any, Any]], elems: list[Any]) -> AObj:
        return AObj("Domain", range_list=[AObj("Range", min_value=a, max_value=b) for a, b in ranges],
                    element_list=list(elems))
    cases = {
        "elements": (dom_of([], ["a", "b", "c"]), lambda v: v in ("a", "b", "c")),
        "numeric-looking-elements": (dom_of([], ["1", "2", "3"]), lambda v: isinstance(v, str) and v in ("1", "2", "3")),
        "int-range": (dom_of([(2, 9)], []), lambda v: v == ("randint", 2, 9)),
        "int-range-of-one-number": (dom_of([(5, 5)], []), lambda v: v == ("randint", 5, 5)),
        "two-ranges-of-one-number": (dom_of([(5, 5), (7, 7)], []), lambda v: v in (("randint", 5, 5), ("randint", 7, 7))),
        "float-range-of-one-number": (dom_of([(0.5, 0.5)], []), lambda v: v == 0.5),
        "float-range": (dom_of([(0.5, 2.25)], []), lambda v: isinstance(v, float)),
        "mixed": (dom_of([(2, 9)], ["a"]), lambda v: v == "a" or v == ("randint", 2, 9)),
        "empty": (dom_of([], []), lambda v: v is None),
    }
    for key, (dom, okf) in cases.items():
        it = mk()
        try:
            v = it.call(frd, [dom])
            err = None
        except AbsRaise as exc:
            v, err = None, exc.what
        bad2 = []
        if err:
            bad2.append(f"raises {err}")
        elif not okf(v):
            bad2.append(f"value {v!r} is not drawn from the domain")
        for nm, a in calls:
            if nm == "randint" and a != (2, 9) and key in ("int-range", "mixed"):
                bad2.append(f"randint called with {a}, expected (min_value, max_value) = (2, 9)")
            if nm == "uniform" and a != (0.5, 2.25) and key == "float-range":
                bad2.append(f"uniform called with {a}, expected (0.5, 2.25)")
            if nm == "uniform" and key == "int-range":
                bad2.append("an integer range is sampled with uniform (float), not randint")
            if nm == "randint" and key == "float-range":
                bad2.append("a float range is sampled with randint")
        if key == "int-range" and not any(nm == "randint" for nm, _ in calls) and not err:
            bad2.append("integer bounds must give an integer: randint not used")
        if key == "float-range" and not err and isinstance(v, float):
            if not (0.5 <= v <= 2.25):
                bad2.append(f"value {v} outside [0.5, 2.25]")
        if key == "mixed" and not err:
            ch = [a for nm, a in calls if nm == "choice"]
            if not any(set(map(repr, c)) == {repr("a"), repr(("randint", 2, 9))} for c in ch):
                bad2.append("a mixed domain must choose between a listed element and a range value")
        ctx.check(not bad2, rule, f"domain:{key}", loc(frd.unit.path, frd.node),
                  f"value for a {key} domain is drawn from it (argument order checked)",
                  bad="; ".join(bad2[:3]))
    # (b') a float range: rounding is monotone, so the value stays inside [a, b] for every draw iff it does for
    # the draws a and b themselves; bounds with different numbers of decimals, and an int bound beside a float
    for lo_, hi_ in ((0.5, 2.25), (1.5, 1.58), (0.44, 0.5), (1, 2.75), (0.125, 3), (2.0, 2.5),
                     (1e-05, 2e-05), (1e-07, 0.5), (2.5e-06, 1.0), (100000.0, 1e+16), (0.1, 1e+17)):
        bad3 = []
        for pick in ("lo", "hi", "mid"):
            PICK[0] = pick
            it = mk()
            try:
                v = it.call(frr, [[AObj("Range", min_value=lo_, max_value=hi_)]])
            except AbsRaise as exc:
                bad3.append(f"raises {exc.what}")
                continue
            if isinstance(v, bool) or not isinstance(v, (int, float)) or not (lo_ <= v <= hi_):
                bad3.append(f"a draw at the {pick} end of the range gives {v!r}, outside [{lo_}, {hi_}]")
        PICK[0] = "mid"
        ctx.check(not bad3, rule, f"float-range-stays-inside:[{lo_},{hi_}]", loc(frr.unit.path, frr.node),
                  f"every draw from the float range [{lo_}, {hi_}] stays inside it after rounding",
                  bad="; ".join(bad3[:2]))
    # (c) library error for a missing domain / name ---------------------------------------------------
    for missing in ("domain", "name"):
        it = mk()
        try:
            op = it.eval_call_class(ci)
            if missing != "name":
                it.call(pm.method(ci, "set_name"), [op, "rnd"])
            else:
                it.call(pm.method(ci, "set_name"), [op, None])
            if missing != "domain":
                it.call(pm.method(ci, "set_domain"), [op, dom_of([], ["a"])])
            it.call(pm.method(ci, "execute"), [op, rich_model(mb)])
            out = "no error"
        except AbsRaise as exc:
            out = exc.what
        except AbsMutation as exc:
            out = "mutation " + exc.what
        ctx.check(is_library_error(pm, out) or out.startswith("flamapy"), "C19-INIT", f"missing-{missing}",
                  loc(ci.unit.path, ci.methods["execute"].node),
                  f"a missing {missing} is reported as FlamaException",
                  bad=f"executing random attribute generation without a {missing}: {out} "
                      f"(expected a FlamaException)")
    # (d) wrapper: execute passes name/domain/leaf flag and the model through ------------------------
    it = mk()
    it.native[gen.qual] = it.signature_stub(gen, lambda *a: ("GEN", a))
    op = it.eval_call_class(ci)
    d = dom_of([], ["a"])
    fm = rich_model(mb)
    try:
        it.call(pm.method(ci, "set_name"), [op, "rnd"])
        it.call(pm.method(ci, "set_domain"), [op, d])
        it.call(pm.method(ci, "set_only_leaf_features"), [op, True])
        it.call(pm.method(ci, "execute"), [op, fm])
        r = it.call(pm.method(ci, "get_result"), [op])
    except AbsRaise as exc:
        r = ("raise", exc.what)
    ctx.check(isinstance(r, tuple) and r[0] == "GEN" and len(r[1]) >= 4 and r[1][0] is fm
              and r[1][1] == "rnd" and r[1][2] is d and r[1][3] is True, rule, "wrap",
              loc(ci.unit.path, ci.methods["execute"].node),
              "execute forwards (model, name, domain, only_leaf_features) to the generator",
              bad=f"execute does not forward (model, name, domain, only_leaf) in that order: {str(r)[:120]}")


    # (e) one operation object used for several attributes on one model, the caller editing attribute lists in between -----
    it = mk()
    op = it.eval_call_class(ci)
    fm = rich_model(mb)
    feats = _features(fm)

    def count(f: AObj, nm: str) -> int:
        return sum(1 for a_ in f._f["attributes"] if isinstance(a_, AObj) and a_._f.get("name") == nm)
    try:
        it.call(pm.method(ci, "set_domain"), [op, dom_of([], ["a", "b"])])
        it.call(pm.method(ci, "set_name"), [op, "cost2"])
        it.call(pm.method(ci, "execute"), [op, fm])
        x, y = feats[1], feats[2]
        x._f["attributes"].append(mb.attribute("weight", "mine", x))      # the caller gives one feature the next attribute
        y._f["attributes"] = []                                           # and strips another feature of all it has
        it.call(pm.method(ci, "set_name"), [op, "weight"])
        it.call(pm.method(ci, "execute"), [op, fm])
        it.call(pm.method(ci, "set_name"), [op, "cost2"])
        it.call(pm.method(ci, "execute"), [op, fm])
        bad_ = [f"{f._f['name']}: {count(f, nm_)} x {nm_}" for f in feats for nm_ in ("cost2", "weight") if count(f, nm_) != 1]
        kept = any(a_._f.get("default_value") == "mine" for a_ in x._f["attributes"] if isinstance(a_, AObj))
        ctx.check(not bad_ and kept, rule, "sequence:same-object-several-attributes-with-edits", where,
                  "executed again after the caller edited attribute lists, the operation looks at the features as they are now",
                  bad="after execute, an edit of attribute lists by the caller and further executions on the same object, "
                      f"features do not hold exactly one attribute of each name: {bad_[:4]}" + ("" if kept else
                      "; the caller's own attribute was replaced"))
    except (AbsRaise, AbsMutation) as exc:
        ctx.violation(rule, "sequence:same-object-several-attributes-with-edits", where, f"raises {exc.what}")


def _features(fm: AObj) -> list[AObj]:
    out = []
    stack = [fm._f["root"]]
    while stack:
        f = stack.pop()
        out.append(f)
        for r in f._f["relations"]:
            stack.extend(r._f["children"])
    return out
