"""C05 — JSON round trip (DESIGN §5 C05)."""
from __future__ import annotations

import json
from typing import Any

from ..absint import AObj, AbsRaise, Interp
from ..card import D, domain_wf, kind
from ..codec import Codec, operator_trees, NAME_CLASSES, PATH, ctc_model, kind_model, name_model, new_interp, run_reader, run_writer
from ..core import AnalysisError, Ctx, loc
from ..iostubs import VFS, pure_data
from ..logic import BINARY_LOGICAL
from ..model import ModelBuilder, rich_model
from ..pm import ProgramModel
from ..roundtrip import describe, diff, wellformed

W, R = "JSONWriter", "JSONReader"


def check(pm: ProgramModel, ctx: Ctx) -> None:
    ctx.explanation = (
        "CODEC closure decided by composing the writer's and the reader's source: for each class of "
        "each dimension the JSON format carries (relation order types over the well-formed "
        "cardinality domain, abstract flag, name shapes by the character classes the encoder "
        "observes, attribute value kinds, the eight logical operators at both nesting positions, "
        "n-ary chains, constraint names) an abstract model is built, JSONWriter.transform is "
        "evaluated from source into the document it emits (json.dump/dumps are the only library "
        "calls, applied to the evaluated object), JSONReader.transform and JSONReader.parse_json "
        "are evaluated from source on that document, and the abstract models are compared field "
        "by field with exact types. A second cycle must reproduce model and text; the value "
        "returned must be the text written; parse_json must agree with transform.")
    ctx.not_decided = ["three-way and higher interactions between dimensions (every two-way combination is in the pairwise family)",
                       "documents not produced by the writer (C09 covers third-party documents)"]
    rule = "C05"
    mb = ModelBuilder(pm)
    wcls, rcls = pm.cls(W), pm.cls(R)
    cd = Codec(pm, ctx, W, R, "C05")
    roundtrip = cd.roundtrip

    def report(rule_: str, key: str, where: str, rt: dict[str, Any], what: str,
               owns: tuple[str, ...], fragment: bool = True) -> None:
        cd.report(rule_.split("-", 1)[1], key, rt, what, owns, fragment)
    wwhere = cd.wwhere
    # KIND ------------------------------------------------------------------------------------------
    nk = 0
    for d in [x for x in domain_wf(ctx.tier) if x.n <= 4 and x.min <= 4 and x.max <= 4]:
        k = kind(d)
        rt = roundtrip(kind_model(mb, [d]))
        nk += 1
        key = f"kind:{k}" if k != "other1" else f"kind:other1:{d}"
        bad = rt["w"]["raise"] or (rt["r"] and rt["r"]["raise"]) or \
            any(c in ("relation", "parent") for c, _ in (rt["diff"] or []))
        report("C05-KIND", key if bad else f"kind:{k}:{d}", wwhere, rt, f"relation {d} ({k})",
               owns=("relation", "parent"), fragment=(k != "other1"))
    for ds in [(D(1, 1, 1), D(0, 1, 1), D(1, 2, 2)), (D(0, 1, 2), D(2, 3, 3), D(1, 1, 2))]:
        rt = roundtrip(kind_model(mb, ds))
        report("C05-KIND", "kind:several-relations:" + "+".join(kind(d) for d in ds), wwhere, rt,
               f"parent with relations {[str(d) for d in ds]}", owns=("relation", "parent"))
    ctx.analysed["C05:kind-classes"] = nk
    # ABSTRACT / TYPE ---------------------------------------------------------------------------------
    for flag in (True, False):
        root = mb.feature("Root", is_abstract=flag)
        mb.relation(root, [mb.feature("A", is_abstract=not flag)], 1, 1)
        rt = roundtrip(mb.model(root, []))
        report("C05-TYPE", f"abstract={flag}", wwhere, rt, f"abstract flag {flag}", owns=("abstract",))
    cd.abstract_positions(mb, "TYPE")
    # files of the older layout carry the flag as the text 'True' / 'False' (any letter case): the document written for
    # a model, with its flags replaced by those texts, denotes the same model
    import json as _json
    from ..roundtrip import describe, diff
    for spell in ("True/False", "true/false", "TRUE/FALSE"):
        yes, no = spell.split("/")
        root = mb.feature("Root", is_abstract=True)
        mb.relation(root, [mb.feature("A", is_abstract=False)], 1, 1)
        mb.relation(root, [mb.feature("B", is_abstract=True)], 0, 1)
        m_old = mb.model(root, [])
        w_ = run_writer(pm, W, m_old)
        if w_["raise"] or w_["written"] is None:
            continue
        try:
            doc_ = _json.loads(w_["written"])
        except (ValueError, TypeError) as exc_:
            ctx.violation("C05-TYPE", f"abstract-as-text:{spell}", wwhere, f"what the writer wrote is not a JSON document: {exc_}")
            continue

        def retext(node: Any) -> None:
            if isinstance(node, dict):
                if isinstance(node.get("abstract"), bool):
                    node["abstract"] = yes if node["abstract"] else no
                for v_ in node.values():
                    retext(v_)
            elif isinstance(node, list):
                for v_ in node:
                    retext(v_)
        retext(doc_)
        vfs_ = VFS()
        vfs_.files[PATH] = _json.dumps(doc_)
        r_ = run_reader(pm, R, vfs_)
        dd_ = [("raise", str(r_["raise"][0]))] if r_["raise"] else diff(describe(m_old), describe(r_["model"]))
        ctx.check(not dd_, "C05-TYPE", f"abstract-as-text:{spell}", wwhere,
                  f"a document that spells the abstract flag as the text {yes!r} / {no!r} denotes the same model",
                  bad=f"abstract flag spelled {yes!r} / {no!r}: {dd_[0][1] if dd_ else ''}")

    def attributed(f: AObj) -> None:
        f._f["attributes"].append(mb.attribute("note", "x y", f))
        f._f["attributes"].append(mb.attribute("zero", 0, f))
    cd.positions_sweep(mb, "FIELDS", "attributes", ("attribute",), attributed, "attributes")
    # NAMES -------------------------------------------------------------------------------------------
    for cls_, name in NAME_CLASSES.items():
        rt = roundtrip(name_model(mb, name))
        report("C05-ENC", f"name:{cls_}", wwhere, rt, f"feature named {name!r} ({cls_})",
               owns=("name", "root", "parent", "relation", "constraint"))
    rt = roundtrip(name_model(mb, "two words", in_ctc=False, as_root=True))
    report("C05-ENC", "name:root-space", wwhere, rt, "root feature named 'two words'",
           owns=("name", "root", "parent", "relation", "constraint"))
    # ATTRIBUTES --------------------------------------------------------------------------------------
    values = {"none": None, "bool": True, "false": False, "int": 7, "zero": 0, "zero-float": 0.0,
              "empty-str": "", "empty-list": [], "empty-map": {}, "float": 2.5, "str": "text",
              "list": [1, "a", True], "map": {"k": 1, "nested": {"x": False}}, "unicode": "añ",
              "str-true": "true", "str-False": "False", "str-number": "10", "str-null": "null", "str-float": "2.5",
              "float-integral": 6.0, "list-of-str-bools": ["True", "false"],
              # numbers at the edges of what a text carries exactly: 17 significant digits, exponents, beyond 2**53
              "float-17-digits": 0.30000000000000004, "float-third": 1 / 3, "float-next-after-one": 1.0000000000000002,
              "float-large-exponent": 1e22, "float-small-exponent": 1.5e-07, "float-beyond-2**53": 9007199254740994.0,
              # values that look like the document's own structure: maps keyed like the format's entries
              "map-keyed-name": {"name": "Ada Lovelace"}, "list-of-maps-keyed-name": [{"name": "x y"}, {"name": "z"}],
              "map-keyed-like-entries": {"type": "XOR", "relations": [], "attributes": [{"name": "a b", "value": 1}],
                                         "card_min": 0, "children": ["c d"]},
              "int-beyond-2**53": 9007199254740993, "int-20-digits": 12345678901234567890, "negative-float": -0.5}
    for vk, v in values.items():
        root = mb.feature("Root")
        a = mb.feature("A")
        mb.relation(root, [a], 1, 1)
        a._f["attributes"].append(mb.attribute("cost per unit" if vk == "str" else "attr", v, a))
        rt = roundtrip(mb.model(root, []))
        report("C05-FIELDS", f"attribute:{vk}", wwhere, rt, f"attribute with {vk} value {v!r}", owns=("attribute",))
    from ..codec import lookalike_values_model
    report("C05-FIELDS", "look-alike-values-across-features", wwhere, roundtrip(lookalike_values_model(mb)),
           "one attribute name on several features with values that are equal but of different kinds (True / 1 / 1.0 / '1')",
           owns=("attribute",))
    # CONSTRAINTS ---------------------------------------------------------------------------------------
    n, o = mb.node, mb.op
    for op in BINARY_LOGICAL:
        roots = operator_trees(mb, op)
        rt = roundtrip(ctc_model(mb, roots))
        report("C05-VOC", f"operator:{op}", wwhere, rt, f"constraints over {op}", owns=("constraint", "constraint-count"))
    rt = roundtrip(ctc_model(mb, [("neg", n(o("NOT"), n(o("NOT"), n("A")))), ("single", n("B"))]))
    report("C05-VOC", "operator:NOT+literal", wwhere, rt, "negation and single-literal constraints",
           owns=("constraint", "constraint-count"))
    chain = n(o("XOR"), n(o("XOR"), n("A"), n("B")), n("C"))
    chain2 = n(o("AND"), n("A"), n(o("AND"), n("B"), n("C")))
    rt = roundtrip(ctc_model(mb, [("xor3", chain), ("and3r", chain2)]))
    report("C05-FOLD", "nary-chains", wwhere, rt, "left- and right-nested n-ary chains",
           owns=("constraint", "constraint-count"))
    rt = roundtrip(ctc_model(mb, [("Constraint 1", n(o("OR"), n("A"), n("B"))), ("ñ", n("C"))]))
    report("C05-FIELDS", "constraint-names", wwhere, rt, "constraint names", owns=("constraint-name",))
    # n-ary documents: the reader folds every operand ------------------------------------------------------
    nary_reader(pm, ctx, mb)
    # COMBINED + CYCLES + RETURN + SIBLING -------------------------------------------------------------------
    model = rich_model(mb)
    model._f["ctcs"] = [c for c in model._f["ctcs"] if c._f["name"] != "arith"]
    m1 = cd.cycle_and_return(model)
    if m1 is not None:
        report("C05-COMBINED", "rich-model", wwhere, cd.last_rt, "model realising all dimensions at once",
               owns=("type", "fcard"))
        pj = pm.method(rcls, "parse_json")
        if pj is None:
            raise AnalysisError("C05-SIBLING", "anchor vanished: JSONReader.parse_json")
        it = new_interp(pm, VFS())
        try:
            m2 = it.call(pj, [json.loads(cd.last_rt["w"]["written"])])
            d3 = diff(describe(m1), describe(m2))
        except AbsRaise as exc:
            d3 = [("raise", exc.what)]
        ctx.check(not d3, "C05-SIBLING", "parse_json=transform", loc(pj.unit.path, pj.node),
                  "parsing the loaded object gives the same model as reading the file",
                  bad=f"parse_json differs from transform: {d3[:2]}")
    if ctx.tier == "thorough":
        cd.thorough_pairs(mb, BINARY_LOGICAL, "VOC")
        cd.thorough_kind_pairs(mb, [D(1, 1, 1), D(0, 1, 1), D(1, 1, 2), D(1, 2, 2), D(0, 1, 2), D(2, 3, 3), D(0, 2, 2), D(1, -1, 2)])
    from ..codec import stress_trees
    cd.report("VOC", "stress-shapes", cd.roundtrip(ctc_model(mb, stress_trees(mb))),
              "constraint shapes that stress normal forms", ("constraint", "constraint-count"))
    cd.large(mb, BINARY_LOGICAL)
    cd.polarity(mb, BINARY_LOGICAL, "VOC")
    cd.writer_reuse(mb, list_attr=True)
    cd.reader_reuse(mb, list_attr=True)
    from ..interact import Fragment, sweep
    pv = {k: values[k] for k in ("none", "bool", "false", "int", "zero", "float", "float-integral", "empty-str", "str",
                                 "str-true", "str-number", "str-null", "empty-list", "list", "map", "map-keyed-name",
                                 "float-17-digits", "int-beyond-2**53")}
    fr = Fragment(names=dict(NAME_CLASSES), ops=tuple(BINARY_LOGICAL), values=pv,
                  attr_names={"plain": "attr", "space": "cost per unit", "like-the-flag": "abstract", "like-the-key-name": "name",
                              "like-the-key-value": "value", "like-the-key-type": "type", "like-the-key-relations": "relations",
                              "unicode": "pre\u00e7o", "quote": 'a"b', "empty-looking": " "})
    ctx.analysed.update({f"C05:pairwise-{k_}": v for k_, v in sweep(
        cd, mb, fr, ("name", "root", "parent", "relation", "constraint", "constraint-count", "constraint-name", "abstract",
                     "attribute")).items()})
    cd.finish_unowned()
    ctx.analysed["C05:compositions"] = cd.n
    ctx.floor(rule, "obligations", len(ctx.obligations), 40)


def nary_reader(pm: ProgramModel, ctx: Ctx, mb: ModelBuilder) -> None:
    """A JSON document may list any number of operands for AND/OR/XOR: all must be kept."""
    pa = pm.func("parse_ast_constraint", "json_reader")
    t = lambda x: {"type": "FEATURE", "operands": [x]}  # noqa: E731
    for op in ("AND", "OR", "XOR"):
        doc = {"type": op, "operands": [t("A"), t("B"), t("C"), t("D")]}
        it = Interp(pm)
        try:
            node = it.call(pa, [doc])
            from ..logic import names_of
            got = sorted(names_of(node))
        except AbsRaise as exc:
            got = [f"raise {exc.what}"]
        ctx.check(got == ["A", "B", "C", "D"], "C05-FOLD", f"reader-nary:{op}", loc(pa.unit.path, pa.node),
                  f"a 4-operand {op} keeps all operands",
                  bad=f"4-operand {op} is read with operands {got}")
