"""C10 — SPLOT and propositional exports denote exactly the model's configurations (DESIGN §5 C10)."""
from __future__ import annotations

from typing import Any

from ..absint import AObj
from ..card import D, domain_wf, kind
from ..codec import as_text, operator_trees, NAME_CLASSES, stress_trees, ctc_model, kind_model, name_model, run_writer
from ..core import AnalysisError, Ctx, loc
from ..exports import ExportError, PLDocument, SXFM, configurations, model_names, model_valid
from ..logic import BINARY_LOGICAL
from ..model import ModelBuilder
from ..pm import ProgramModel


def validate(ctx: Ctx, pm: ProgramModel, writer: str, rule: str, key: str, model: AObj, what: str,
             fragment: bool = True) -> bool:
    wc = pm.cls(writer)
    where = loc(wc.unit.path, wc.node)
    w = run_writer(pm, writer, model)
    rep = ctx.violation if fragment else ctx.info
    if w["raise"]:
        rep(rule, f"{key}:writer-raises", w["raise"][1] or where, f"{what}: {writer} raises {w['raise'][0]}")
        return False
    text = as_text(w["written"])
    try:
        doc: Any = SXFM(text) if writer == "SPLOTWriter" else PLDocument(text)
    except ExportError as exc:
        rep(rule, f"{key}:unreadable", where, f"{what}: the export is not readable under the target format: {exc}")
        return False
    names = model_names(model)
    exported = set(doc.names())
    missing = [n for n in names if n not in exported]
    if missing:
        rep(rule, f"{key}:missing-features", where, f"{what}: features {missing[:4]} of the model are missing from "
            f"the export")
        return False
    extra = sorted(exported - set(names))
    universe = names + extra
    want = configurations(universe, lambda s: model_valid(model, s) and not (s & set(extra)))
    got = configurations(universe, doc.valid)
    if want == got:
        ctx.ok(rule, key, where, f"{what}: export and model have the same {len(want)} configurations over "
               f"{len(universe)} features")
        return True
    only_model = sorted(sorted(x) for x in (want - got))[:2]
    only_export = sorted(sorted(x) for x in (got - want))[:2]
    rep(rule, key, where, f"{what}: the export does not denote the model's configurations "
        f"(model has {len(want)}, export {len(got)}; valid only in the model: {only_model}; only in the export: "
        f"{only_export})", export=text[:600])
    return False


def check(pm: ProgramModel, ctx: Ctx) -> None:
    ctx.explanation = (
        "Translation validation decided by composing source evaluation with independent "
        "interpreters: SPLOTWriter.transform and PLWriter.transform (and the dependency's CNF code "
        "they reach) are evaluated from source on abstract Boolean models covering every relation "
        "order type of the well-formed cardinality domain (n<=3), several relations per parent, "
        "nesting, and constraints over each of the eight logical operators at three positions; "
        "the emitted text is read by an interpreter of the target format written in the checker "
        "(SXFM tree markers :r :m :o :g [a,b] and or-clauses with ~; propositional formulas with "
        "not/and/or/->/<-> and parentheses under the usual precedences) and the set of satisfying "
        "selections over all 2^n feature selections is compared with the model's own semantics. "
        "No feature may be missing from the export.")
    ctx.not_decided = ["models larger than the abstract family (n <= 10 features per model)",
                       "names outside [A-Za-z0-9_] for the propositional export (the target tool's lexical "
                       "rules are not defined by the repository)"]
    mb = ModelBuilder(pm)
    for writer, P in (("SPLOTWriter", "C10-SPLOT"), ("PLWriter", "C10-PL")):
        ndone = 0
        for d in [x for x in domain_wf(ctx.tier, star=True) if x.n <= 3 and x.max <= 3 and x.min <= 3]:
            k = kind(d)
            m = kind_model(mb, [d])
            validate(ctx, pm, writer, f"{P}-COVER", f"kind:{k}:{d}", m, f"relation {d} ({k}) under the root",
                     fragment=(k != "other1"))
            # the same relation under an optional parent: the parent may be unselected
            root = mb.feature("Root")
            par = mb.feature("Par")
            mb.relation(root, [par], 0, 1)
            mb.relation(par, [mb.feature(f"n{j}") for j in range(d.n)], d.min, d.max)
            validate(ctx, pm, writer, f"{P}-COVER", f"kind-nested:{k}:{d}", mb.model(root, []),
                     f"relation {d} ({k}) under an optional parent", fragment=(k != "other1"))
            ndone += 2
            if d in (D(1, 1, 1), D(0, 1, 1), D(1, 1, 2), D(1, 2, 2), D(0, 1, 2), D(2, 2, 3), D(1, 2, 3)):
                # the same, every feature decorated (abstract flags, attributes): which configurations exist is
                # a matter of the tree and the constraints only
                root = mb.feature("Root")
                par = mb.feature("Par", is_abstract=True)
                mb.relation(root, [par], 0, 1)
                kids = [mb.feature(f"n{j}", is_abstract=(j == 0)) for j in range(d.n)]
                mb.relation(par, kids, d.min, d.max)
                for i_, f_ in enumerate([par] + kids):
                    f_._f["attributes"].append(mb.attribute("cost", i_ + 1, f_))
                    f_._f["attributes"].append(mb.attribute("note", "n", f_))
                validate(ctx, pm, writer, f"{P}-COVER", f"kind-decorated:{k}:{d}", mb.model(root, []),
                         f"relation {d} ({k}) under an optional abstract parent, features carrying attributes")
        for ds in [(D(1, 1, 1), D(0, 1, 1), D(1, 2, 2)), (D(0, 1, 2), D(1, 1, 2)), (D(2, 2, 3), D(0, 1, 1)),
                   (D(1, 1, 1), D(1, 1, 1), D(0, 1, 1))]:
            validate(ctx, pm, writer, f"{P}-COVER", "several:" + "+".join(kind(d) for d in ds), kind_model(mb, ds),
                     f"parent with relations {[str(d) for d in ds]}")
        # nesting
        root = mb.feature("Root")
        a, b = mb.feature("A"), mb.feature("B")
        mb.relation(root, [a], 0, 1)
        mb.relation(a, [b, mb.feature("B2")], 1, 1)
        mb.relation(b, [mb.feature("C")], 1, 1)
        mb.relation(b, [mb.feature("E"), mb.feature("G")], 0, 1)
        validate(ctx, pm, writer, f"{P}-COVER", "nesting", mb.model(root, []), "nested relations")
        n, o = mb.node, mb.op
        for op in BINARY_LOGICAL:
            trees = operator_trees(mb, op)        # root, over a negation and a conjunction, nested, left/right chains of itself
            first_bad = None
            for nm, tree in trees:       # one obligation per operator: the first failing position is reported
                sub = Ctx(ctx.prop, ctx.tier)
                if not validate(sub, pm, writer, f"{P}-CTC", f"operator:{op}", ctc_model(mb, [(nm, tree)]),
                                f"constraint with {op} ({nm})"):
                    first_bad = first_bad or sub.obligations[-1]
            if first_bad is None:
                ctx.ok(f"{P}-CTC", f"operator:{op}", "", f"constraints with {op} at three positions denote the same "
                       f"configurations")
            else:
                ctx.obligations.append(first_bad)
        validate(ctx, pm, writer, f"{P}-CTC", "operator:NOT", ctc_model(mb, [("c", n(o("NOT"), n("A"))),
                                                                                ("d", n(o("NOT"), n(o("NOT"), n("B"))))]),
                 "negation constraints")
        for nm, tree in stress_trees(mb):
            validate(ctx, pm, writer, f"{P}-CTC", f"shape:{nm}", ctc_model(mb, [("c", tree)]), f"constraint shape {nm}")
        validate(ctx, pm, writer, f"{P}-CTC", "single-literal", ctc_model(mb, [("c", n("B"))]), "single-literal constraint")
        rt = mb.feature("Root")
        for nm_ in ("Tls", "Http", "TLS", "HTTP"):
            mb.relation(rt, [mb.feature(nm_)], 0, 1)
        validate(ctx, pm, writer, f"{P}-CTC", "look-alike-constraints",
                 mb.model(rt, [mb.constraint("u", n(o("IMPLIES"), n("Tls"), n("Http"))),
                               mb.constraint("l", n(o("IMPLIES"), n("TLS"), n("HTTP")))]),
                 "two constraints whose texts differ in letter case only (over four distinct features)")
        for cls_ in ("space", "punct", "unicode", "opword", "keyword", "apostrophes", "dot-inside", "dot-and-punct", "leading-blank",
                     "number-like"):
            validate(ctx, pm, writer, f"{P}-ONEENC", f"name:{cls_}", name_model(mb, NAME_CLASSES[cls_]),
                     f"feature named {NAME_CLASSES[cls_]!r}", fragment=(writer == "SPLOTWriter"))
        for cls_ in ("space", "dot-inside", "apostrophes", "opword"):
            validate(ctx, pm, writer, f"{P}-ONEENC", f"root-name-in-constraint:{cls_}",
                     name_model(mb, NAME_CLASSES[cls_], in_ctc=True, as_root=True),
                     f"root named {NAME_CLASSES[cls_]!r} and used in a constraint", fragment=(writer == "SPLOTWriter"))
        from ..codec import export_interactions
        groups: dict[str, list[Any]] = {}
        plain_ops = [op_ for op_ in BINARY_LOGICAL if writer != "SPLOTWriter" or op_ not in ("XOR", "EQUIVALENCE")]
        for grp_, key_, m_, what_ in export_interactions(mb, plain_ops):
            sub = Ctx(ctx.prop, ctx.tier)
            fam = key_.split(":")[0] if grp_ == "relatives" else key_.split("_")[0].split("-")[0] if grp_ == "polarity" else \
                key_.split("-")[0]
            fam = fam if fam != "not" else key_.split("_")[1]
            ok_ = validate(sub, pm, writer, f"{P}-CTC", f"{grp_}:{fam}", m_, what_)
            groups.setdefault(f"{grp_}:{fam}", []).append(None if ok_ else sub.obligations[-1])
        for gkey, res in groups.items():                 # one obligation per family member: the first failing case is reported
            bad_ = [r_ for r_ in res if r_ is not None]
            if bad_:
                ctx.obligations.append(bad_[0])
            else:
                ctx.ok(f"{P}-CTC", gkey, "", f"{len(res)} models in which a constraint meets the tree / another level of itself "
                       f"denote the same configurations")
        from ..codec import WriterOnly, writer_reuse_check
        writer_reuse_check(WriterOnly(pm, ctx, writer, P), mb, "REUSE", op="REQUIRES", abstract=False)
        from ..codec import writer_failed_then_reused
        writer_failed_then_reused(WriterOnly(pm, ctx, writer, P), mb, "REUSE", op="REQUIRES", abstract=False)
        from ..codec import export_models
        for key_, m_, what_ in export_models(mb, [op_ for op_ in BINARY_LOGICAL if op_ not in ("XOR", "EQUIVALENCE")]):
            validate(ctx, pm, writer, f"{P}-COVER" if not m_._f["ctcs"] else f"{P}-CTC", f"large:{key_}", m_, what_)
        ctx.analysed[f"{P}:kind-classes"] = ndone
    ctx.floor("C10", "obligations", len(ctx.obligations), 80)
