"""CODEC harness (DESIGN §3.5): writer -> document -> reader composition over finite abstractions.

Each dimension a format carries is abstracted to a finite set of classes (relation order types,
the operator enum, name shapes by the character classes the encoders observe, value kinds, the
FeatureType enum, abstract flag).  For each class an abstract model is built, the writer's
transform() is evaluated from source to the document it emits, the reader's transform() is
evaluated from source on that document, and the two abstract models are compared.
"""
from __future__ import annotations

from typing import Any, Callable, Iterable, Optional

from .absint import AObj, AbsMutation, AbsRaise, EnumVal, Interp
from .card import D, domain_wf, kind
from .core import AnalysisError
from .iostubs import VFS, install_io
from .model import ModelBuilder
from .pm import ProgramModel

PATH = "/virtual/model.out"

NAME_CLASSES = {
    "plain": "Alpha_1",
    "space": "two words",
    "punct": "x-y+z",
    "unicode": "Raíz",
    "digit-first": "2fast",
    "underscore-first": "_u",
    "quote-char": 'say"hi',
    "quote-at-end": '15"',
    "quote-at-both-ends": '"pro" model',
    "apostrophes": "'q'",
    "digits": "64",
    "number-like": "1e3",
    "leading-blank": " lead",
    "trailing-blank": "trail ",
    "case-variant": "alpha_1",
    "quoted-plain": '"Alpha"',
    "keyword": "or",
    "opword": "AND",
    "tab-inside": "tab\there",
    "newline-inside": "line\nbreak",
    "double-blank": "two  blanks",
    "cr-inside": "cr\rhere",
    "crlf-inside": "line1\r\nline2",
    "dot-and-punct": "v1.0-beta",
    "dot-inside": "a.b",
    "decomposed-accent": "cafe\u0301 bar",
    "composed-accent": "caf\u00e9 bar",
    "angstrom-sign": "\u212b unit",
    "percent": "50% off",
    "percent-escape-look-alike": "a%22b%25",
}


def new_interp(pm: ProgramModel, vfs: VFS, depth: int = 80) -> Interp:
    it = Interp(pm, max_depth=depth)
    install_io(it, vfs)
    return it


def same_content(returned: Any, written: Any) -> bool:
    """'The value returned equals the content written to the file': equal values, or a str and the bytes that are its
    UTF-8 encoding."""
    if returned is None or written is None:
        return False
    if isinstance(returned, str) and isinstance(written, (bytes, bytearray)):
        returned, written = written, returned
    if isinstance(returned, (bytes, bytearray)) and isinstance(written, str):
        try:
            return bytes(returned).decode("utf8") == written
        except UnicodeDecodeError:
            return False
    return type(returned) is type(written) and returned == written


def as_text(content: Any) -> Any:
    """The content of a written file as text (for the interpreters of the text formats)."""
    if isinstance(content, (bytes, bytearray)):
        try:
            return bytes(content).decode("utf8")
        except UnicodeDecodeError:
            return content
    return content


def run_writer(pm: ProgramModel, cls_name: str, model: AObj, vfs: Optional[VFS] = None,
               setup: Optional[Callable[..., None]] = None) -> dict[str, Any]:
    vfs = vfs or VFS()
    it = new_interp(pm, vfs)
    if setup:
        setup(it, vfs)
    ci = pm.cls(cls_name)
    out: dict[str, Any] = {"vfs": vfs, "raise": None, "returned": None, "interp": it}
    try:
        w = it.eval_call_class(ci, [PATH, model])
        tr = pm.method(ci, "transform")
        if tr is None:
            raise AnalysisError("CODEC", f"{cls_name} has no transform")
        out["returned"] = it.call(tr, [w])
    except AbsRaise as exc:
        out["raise"] = (exc.what, exc.where)
    except AbsMutation as exc:
        out["raise"] = ("mutation: " + exc.what, exc.where)
    out["written"] = vfs.files.get(PATH)
    return out


def run_reader(pm: ProgramModel, cls_name: str, vfs: VFS, path: str = PATH,
               setup: Optional[Callable[..., None]] = None, set_order: str = "asc") -> dict[str, Any]:
    it = new_interp(pm, vfs)
    it.set_order = set_order
    if setup:
        setup(it, vfs)
    ci = pm.cls(cls_name)
    out: dict[str, Any] = {"model": None, "raise": None, "interp": it}
    try:
        r = it.eval_call_class(ci, [path])
        tr = pm.method(ci, "transform")
        if tr is None:
            raise AnalysisError("CODEC", f"{cls_name} has no transform")
        out["model"] = it.call(tr, [r])
    except AbsRaise as exc:
        out["raise"] = (exc.what, exc.where)
    except AbsMutation as exc:
        out["raise"] = ("mutation: " + exc.what, exc.where)
    return out


# ---- abstract models per dimension ------------------------------------------------------------------
def kind_model(mb: ModelBuilder, ds: Iterable[D], names: Optional[list[str]] = None) -> AObj:
    root = mb.feature("Root")
    k = 0
    for i, d in enumerate(ds):
        ch = []
        for j in range(d.n):
            ch.append(mb.feature(f"f{i}_{j}"))
            k += 1
        mb.relation(root, ch, d.min, d.max)
    return mb.model(root, [])


def name_model(mb: ModelBuilder, name: str, in_ctc: bool = True, as_root: bool = False) -> AObj:
    """A feature carrying `name` next to features whose names differ from it only in letter case /
    surrounding blanks (distinct features!), used in two constraints of the same shape."""
    root = mb.feature(name if as_root else "Root")
    a = mb.feature("Other" if as_root else name)
    b = mb.feature("Plain")
    mb.relation(root, [a], 0 if not as_root else 1, 1)   # optional: the two constraints below are independent
    mb.relation(root, [b], 0, 1)
    twin = name.swapcase() if name.swapcase() != name else name + "X"
    if len(name) > 2 and name[0] == name[-1] == '"' and not as_root:
        # the same name without its quotes is another feature: an encoding that quotes names must keep the two apart
        mb.relation(root, [mb.feature(name[1:-1])], 0, 1)
    if not as_root and twin not in ("Root", "Plain", "Other", name):
        mb.relation(root, [mb.feature(twin)], 1, 1)      # the look-alike is mandatory, the named feature optional
    ctcs = []
    if in_ctc:
        ctcs.append(mb.constraint("c0", mb.node(mb.op("IMPLIES"), mb.node(name), mb.node("Plain"))))
        if not as_root and twin not in ("Root", "Plain", "Other", name):
            ctcs.append(mb.constraint("c1", mb.node(mb.op("IMPLIES"), mb.node(twin), mb.node("Plain"))))
    return mb.model(root, ctcs)


def operator_trees(mb: ModelBuilder, op: str) -> list[tuple[str, AObj]]:
    """The positions an operator can take relative to itself and to others: root over terms, over a
    negation and a conjunction, below another operator, left- and right-nested chains of itself
    (chains matter for formats with n-ary nodes and for non-associative operators)."""
    n, o = mb.node, mb.op
    return [(f"c_{op}", n(o(op), n("A"), n("B"))),
            (f"nested_{op}", n(o(op), n(o("NOT"), n("A")), n(o("AND"), n("B"), n("C")))),
            (f"inner_{op}", n(o("OR"), n(o(op), n("A"), n("B")), n("C"))),
            (f"leftchain_{op}", n(o(op), n(o(op), n("A"), n("B")), n("C"))),
            (f"rightchain_{op}", n(o(op), n("A"), n(o(op), n("B"), n("C")))),
            (f"chain4_{op}", n(o(op), n(o(op), n(o(op), n("A"), n("B")), n("C")), n("A")))]


def operator_pairs(mb: ModelBuilder, op1: str, ops: Iterable[str]) -> list[tuple[str, AObj]]:
    """Thorough tier: op1 over every other operator on either side, and under a negation."""
    n, o = mb.node, mb.op
    out = []
    for op2 in ops:
        out.append((f"{op1}_over_{op2}_left", n(o(op1), n(o(op2), n("A"), n("B")), n("C"))))
        out.append((f"{op1}_over_{op2}_right", n(o(op1), n("A"), n(o(op2), n("B"), n("C")))))
    out.append((f"not_{op1}", n(o("NOT"), n(o(op1), n("A"), n("B")))))
    out.append((f"{op1}_of_nots", n(o(op1), n(o("NOT"), n("A")), n(o("NOT"), n(o("NOT"), n("B"))))))
    return out


def polarity_trees(mb: ModelBuilder, op: str, negation: bool = True) -> list[tuple[str, AObj]]:
    """A binary operator over two plain features with every combination of polarities of its operands, and the
    negation of each: the shapes that the library classifies as 'simple' constraints (requires / excludes written with
    or / and / not) and that a writer with a shortcut for simple constraints treats differently from all others."""
    n, o = mb.node, mb.op
    out = []
    for la, ln in (("A", False), ("notA", True)):
        for ra, rn in (("B", False), ("notB", True)):
            if (ln or rn) and not negation:
                continue
            left = n(o("NOT"), n("A")) if ln else n("A")
            right = n(o("NOT"), n("B")) if rn else n("B")
            out.append((f"{op}_{la}_{ra}", n(o(op), left, right)))
            if negation:
                left = n(o("NOT"), n("A")) if ln else n("A")
                right = n(o("NOT"), n("B")) if rn else n("B")
                out.append((f"not_{op}_{la}_{ra}", n(o("NOT"), n(o(op), left, right))))
    # the same operand on both sides, and the operands the other way round
    out.append((f"{op}_B_A", n(o(op), n("B"), n("A"))))
    out.append((f"{op}_A_A", n(o(op), n("A"), n("A"))))
    return out


def lookalike_values_model(mb: ModelBuilder) -> AObj:
    """The same attribute names on several features, with values that compare equal in Python but are of different kinds
    (True == 1 == 1.0, False == 0 == 0.0) or look alike as text ('1'): a table keyed by (name, value) merges them."""
    root = mb.feature("Root")
    for i, (cost, level) in enumerate(((True, 0), (1, False), (1.0, 0.0), ("1", "0"), (1, 0))):
        f = mb.feature(f"F{i}")
        mb.relation(root, [f], 0, 1)
        f._f["attributes"].append(mb.attribute("cost", cost, f))
        f._f["attributes"].append(mb.attribute("level", level, f))
    return mb.model(root, [])


def stress_trees(mb: ModelBuilder) -> list[tuple[str, AObj]]:
    """Constraint shapes that stress normal-form conversions: disjunctions of conjunctions with a
    feature in both polarities (tautological clauses after distribution), xor written with and/or/not,
    tautologies, repeated operands, deep negations."""
    n, o = mb.node, mb.op
    A, B, C = (lambda: n("A")), (lambda: n("B")), (lambda: n("C"))
    NOT = lambda x: n(o("NOT"), x)  # noqa: E731
    AND = lambda x, y: n(o("AND"), x, y)  # noqa: E731
    OR = lambda x, y: n(o("OR"), x, y)  # noqa: E731
    IMP = lambda x, y: n(o("IMPLIES"), x, y)  # noqa: E731
    return [
        ("ite", OR(AND(A(), B()), AND(NOT(A()), C()))),
        ("xor_as_dnf", OR(AND(A(), NOT(B())), AND(NOT(A()), B()))),
        ("tautology", OR(A(), NOT(A()))),
        ("repeated", OR(A(), OR(B(), A()))),
        ("cnf_of_dnf", AND(OR(A(), B()), OR(NOT(A()), OR(NOT(B()), C())))),
        ("neg_of_implication", NOT(IMP(AND(A(), B()), C()))),
        ("triple_negation", NOT(NOT(NOT(A())))),
        ("imp_of_disjunctions", IMP(OR(A(), B()), OR(C(), NOT(B())))),
        ("dnf3", OR(AND(A(), B()), OR(AND(B(), C()), AND(NOT(A()), NOT(C()))))),
        # two implications that look like the two halves of an equivalence (same operators, same operands, other grouping)
        ("near_equivalence", AND(IMP(AND(OR(A(), B()), C()), n("D")), IMP(n("D"), AND(A(), OR(B(), C()))))),
        ("near_equivalence_neg", AND(IMP(AND(NOT(A()), B()), C()), IMP(C(), AND(A(), NOT(B()))))),
        ("converse_pair", AND(IMP(A(), B()), IMP(B(), A()))),
    ]


POSITIONS = ("Root", "Mand", "Opt", "OrHost", "or1", "AltHost", "alt2", "Deep")


def positions_model(mb: ModelBuilder, abstract: Iterable[str], groups: bool = True) -> AObj:
    """One feature in each structural position (root, mandatory child, optional child, host of an
    or-group, member of it, host of an alternative group, member, a mandatory grandchild); the
    features named in `abstract` carry the flag. Flags must be independent of position."""
    ab = set(abstract)
    F = lambda nm: mb.feature(nm, is_abstract=nm in ab)  # noqa: E731
    root = F("Root")
    mand, opt, orh, alth = F("Mand"), F("Opt"), F("OrHost"), F("AltHost")
    mb.relation(root, [mand], 1, 1)
    mb.relation(root, [opt], 0, 1)
    mb.relation(root, [orh], 1, 1)
    mb.relation(root, [alth], 0, 1)
    if groups:
        mb.relation(orh, [F("or1"), F("or2")], 1, 2)
        mb.relation(alth, [F("alt1"), F("alt2")], 1, 1)
    else:
        mb.relation(orh, [F("or1")], 0, 1)
        mb.relation(alth, [F("alt2")], 1, 1)
    mb.relation(opt, [F("Deep")], 1, 1)
    return mb.model(root, [])


def ctc_model(mb: ModelBuilder, roots: list[tuple[str, AObj]], names: Iterable[str] = ("A", "B", "C")) -> AObj:
    from .logic import names_of
    root = mb.feature("Root")
    names = list(names)
    for _nm, r_ in roots:
        for x in names_of(r_ if not isinstance(r_, tuple) else r_[1]):
            if isinstance(x, str) and x not in names and x[:1].isalpha() and "." not in x:
                names.append(x)
    for n in names:
        mb.relation(root, [mb.feature(n)], 0, 1)
    return mb.model(root, [mb.constraint(nm, r) for nm, r in roots])


def large_models(mb: ModelBuilder, ops: Iterable[str], mixed: bool = True, cardinal: bool = True,
                 negation: bool = True, rename: Optional[Callable[[str], str]] = None,
                 ) -> list[tuple[str, AObj, str, tuple[str, ...]]]:
    """Larger and oddly shaped members of a format's fragment: (key, model, description, owned categories).

    A writer or reader with a threshold, a fixed-width field, a slice, `zip` over sequences of different length, a
    lexicographic order of numbered things or a fast path for short inputs is right on every small model; these are
    the models on which it is not. `mixed`: a parent may carry a group beside other relations; `cardinal`: [a..b]
    groups other than or / alternative are in the fragment; `rename` maps the names used here into the format's
    alphabet of names."""
    rn = rename or (lambda x: x)
    o = mb.op
    F = lambda nm: mb.feature(rn(nm))  # noqa: E731
    n = lambda *a: mb.node(rn(a[0]), *a[1:]) if isinstance(a[0], str) else mb.node(*a)  # noqa: E731
    ops = list(ops)
    tree = ("relation", "parent", "name", "root")
    cc = ("constraint", "constraint-count")
    out: list[tuple[str, AObj, str, tuple[str, ...]]] = []
    # wide: twelve siblings; twelve-member groups; twelve relations under one parent
    root = F("Root")
    hosts = [F(f"H{i:02d}") for i in range(12)]
    for i, h in enumerate(hosts):
        mb.relation(root, [h], (i + 1) % 2, 1)
    mb.relation(hosts[0], [F(f"Or{j:02d}") for j in range(12)], 1, 12)
    mb.relation(hosts[1], [F(f"Alt{j:02d}") for j in range(12)], 1, 1)
    if cardinal:
        mb.relation(hosts[2], [F(f"Card{j:02d}") for j in range(12)], 4, 7)
        mb.relation(hosts[4], [F(f"Pick{j:02d}") for j in range(11)], 10, 11)
        # bounds whose texts order differently from their values ("2" > "10", "9" > "11")
        mb.relation(hosts[5], [F(f"Two{j:02d}") for j in range(12)], 2, 10)
        mb.relation(hosts[6], [F(f"Nine{j:02d}") for j in range(12)], 9, 11)
        # [1..k] with 1 < k < n: looks like an or-group until the (k+1)-th member is counted
        mb.relation(hosts[7], [F(f"Some{j:02d}") for j in range(5)], 1, 3)
    if mixed:
        mb.relation(hosts[3], [F("m1")], 1, 1)
        mb.relation(hosts[3], [F("g1"), F("g2"), F("g3")], 1, 3)
        mb.relation(hosts[3], [F("o1")], 0, 1)
        mb.relation(hosts[3], [F("x1"), F("x2")], 1, 1)
        mb.relation(hosts[3], [F("m2")], 1, 1)
    out.append(("wide-12", mb.model(root, []), "twelve siblings, twelve-member groups, two-digit bounds", tree))
    # two groups of the same kind next to each other under one parent (each kind), and a parent of only such twins
    if mixed:
        root = F("Root")
        tw = F("Twins")
        mb.relation(root, [tw], 1, 1)
        for kind_, (lo, hi, n_) in (("or", (1, 2, 2)), ("alt", (1, 1, 2)), ("mux", (0, 1, 2))) + \
                ((("card", (2, 2, 3)),) if cardinal else ()):
            for t_ in ("a", "b"):
                hi_ = hi if kind_ != "or" or t_ == "a" else 3
                mb.relation(tw, [F(f"{kind_}_{t_}{j}") for j in range(n_ if hi_ != 3 else 3)], lo, hi_)
        mb.relation(root, [F("t1")], 0, 1)
        mb.relation(root, [F("t2")], 0, 1)
        mb.relation(root, [F("t3")], 1, 1)
        mb.relation(root, [F("t4")], 1, 1)
        out.append(("twin-groups", mb.model(root, []), "two or-, two alternative-, two mutex- (and two cardinality-) groups "
                    "side by side under one parent", tree))
    # deep: nine levels, then a group inside a group inside a group
    root = F("Root")
    cur = root
    for i in range(1, 9):
        nxt = F(f"L{i}")
        mb.relation(cur, [nxt], i % 2, 1)
        cur = nxt
    a1, a2 = F("ga1"), F("ga2")
    mb.relation(cur, [a1, a2], 1, 2)
    b1, b2, b3 = F("gb1"), F("gb2"), F("gb3")
    mb.relation(a1, [b1, b2, b3], 1, 1)
    mb.relation(b2, [F("gc1"), F("gc2")], 1, 2)
    mb.relation(b3, [F("tail")], 0, 1)
    out.append(("deep-12", mb.model(root, []), "twelve levels with a group inside a group inside a group", tree))
    # many constraints, long and deep constraints
    root = F("Root")
    vs = [f"V{i:02d}" for i in range(12)]
    for v in vs:
        mb.relation(root, [F(v)], 0, 1)
    ctcs = [mb.constraint(f"k{i:02d}", n(o(ops[i % len(ops)]), n("V00"), n(vs[i]))) for i in range(1, 12)]
    conj = n(vs[0])
    for v in vs[1:6]:
        conj = n(o("AND"), conj, n(v))                        # left-nested, six operands
    disj = n(vs[11])
    for v in reversed(vs[6:11]):
        disj = n(o("OR"), n(v), disj)                         # right-nested, six operands
    ctcs.append(mb.constraint("k12", n(o("IMPLIES"), conj, disj)))
    deepc = n(vs[5])
    for i, op in enumerate((ops * 3)[:5]):
        other = n(o("NOT"), n(vs[i])) if negation and i % 2 else n(vs[i])
        deepc = n(o(op), other, deepc) if i % 2 else n(o(op), deepc, other)   # nesting depth five, alternating sides
    ctcs.append(mb.constraint("k13", deepc))
    out.append(("many-constraints", mb.model(root, ctcs),
                "thirteen constraints, one feature in eleven of them, six-operand chains, nesting depth five", cc))
    # names that are a proper prefix / suffix / infix of one another, each on a feature with children of its own, the
    # longer one met first and the shorter one met first (text searched for a name finds the other one)
    root = F("MB")
    for nm_, lo_ in (("AB", 1), ("B", 0), ("A", 0), ("ABC", 1), ("BCD", 0), ("C", 0)):
        f_ = F(nm_)
        mb.relation(root, [f_], lo_, 1)
        mb.relation(f_, [F(f"Kid{nm_}1"), F(f"Kid{nm_}2")], 1, 2 if nm_ in ("B", "ABC") else 1)
    ctcs_ = [mb.constraint("a1", n(o(ops[0]), n("AB"), n("B"))), mb.constraint("a2", n(o(ops[-1]), n("A"), n("ABC"))),
             mb.constraint("a3", n(o(ops[0]), n("C"), n("BCD")))]
    out.append(("affix-names", mb.model(root, ctcs_), "names that are prefixes / suffixes / infixes of one another, on "
                "features with children of their own", tree + cc))
    # long names sharing a long prefix
    stem = "Component_" + "abcdefghij" * 4
    root = F("Root")
    la, lb = F(stem + "_A"), F(stem + "_B")
    mb.relation(root, [la], 0, 1)
    mb.relation(root, [lb], 0, 1)
    mb.relation(la, [F(stem + "_A_child")], 1, 1)
    ctc = mb.constraint("long", n(o(ops[0]), n(stem + "_A"), n(stem + "_B")))
    out.append(("long-names", mb.model(root, [ctc]), "names of 52 characters that share a 50-character prefix",
                tree + cc))
    return out


def export_models(mb: ModelBuilder, ops: Iterable[str], mixed: bool = True) -> list[tuple[str, AObj, str]]:
    """Larger members of the family for the checks that enumerate all 2^n selections (n <= 13): a seven-member [3..5]
    group, eleven siblings, five relations of different kinds under one parent, six levels, nine constraints with a
    six-operand chain and nesting depth four."""
    F, n, o = mb.feature, mb.node, mb.op
    ops = list(ops)
    out: list[tuple[str, AObj, str]] = []
    root = F("Root")
    host = F("Host")
    mb.relation(root, [host], 0, 1)
    mb.relation(host, [F(f"m{j}") for j in range(7)], 3, 5)
    mb.relation(root, [F("Side")], 0, 1)
    mb.relation(root, [F("Must")], 1, 1)
    out.append(("group-7-of-3..5", mb.model(root, []), "a seven-member [3..5] group under an optional feature"))
    root = F("Root")
    for i in range(11):
        mb.relation(root, [F(f"s{i:02d}")], 1 if i in (0, 9, 10) else 0, 1)
    out.append(("eleven-siblings", mb.model(root, []), "eleven single children, the tenth and eleventh mandatory"))
    if mixed:
        root = F("Root")
        par = F("Par")
        mb.relation(root, [par], 0, 1)
        mb.relation(par, [F("pm")], 1, 1)
        mb.relation(par, [F("po")], 0, 1)
        mb.relation(par, [F("or1"), F("or2")], 1, 2)
        mb.relation(par, [F("x1"), F("x2")], 1, 1)
        mb.relation(par, [F("c1"), F("c2"), F("c3")], 2, 2)
        out.append(("five-relations", mb.model(root, []), "five relations of different kinds under one optional parent"))
    root = F("Root")
    cur = root
    for i in range(1, 10):
        nxt = F(f"L{i}")
        mb.relation(cur, [nxt], 0 if i in (2, 9) else 1, 1)
        cur = nxt
    g1, g2 = F("g1"), F("g2")
    mb.relation(cur, [g1, g2], 1, 1)
    mb.relation(g2, [F("h1"), F("h2")], 1, 2)
    out.append(("twelve-levels", mb.model(root, []), "twelve levels, an or-group inside an alternative group at the bottom"))
    root = F("Root")
    vs = [f"V{i}" for i in range(8)]
    for v in vs:
        mb.relation(root, [F(v)], 0, 1)
    ctcs = [mb.constraint(f"k{i}", n(o(ops[i % len(ops)]), n("V0"), n(vs[i]))) for i in range(1, 8)]
    conj = n(vs[0])
    for v in vs[1:6]:
        conj = n(o("AND"), conj, n(v))
    ctcs.append(mb.constraint("k8", n(o("IMPLIES"), conj, n(o("OR"), n(vs[6]), n(vs[7])))))
    deepc = n(vs[7])
    for i, op in enumerate((ops * 2)[:4]):
        other = n(o("NOT"), n(vs[i])) if i % 2 else n(vs[i])
        deepc = n(o(op), other, deepc) if i % 2 else n(o(op), deepc, other)
    ctcs.append(mb.constraint("k9", deepc))
    out.append(("nine-constraints", mb.model(root, ctcs), "nine constraints, a six-operand chain, nesting depth four"))
    return out


def export_interactions(mb: ModelBuilder, ops: Iterable[str], cardinal: bool = True, mutex: bool = True,
                        ) -> list[tuple[str, str, AObj, str]]:
    """Small models for the export checks in which a constraint and the tree interact, or two levels of a constraint do:
    (group, key, model, description). `relatives`: a constraint between a feature and its own child / parent / sibling,
    per kind of the relation that joins them (a writer that drops or rewrites constraints which 'restate the tree' must
    know which relations force what); `polarity`: each operator over plain and negated operands, and negated;
    `double-negation`: an operator over a doubly negated operation of another operator (a writer that cancels negations
    must keep the grouping)."""
    n, o = mb.node, mb.op
    ops = list(ops)
    out: list[tuple[str, str, AObj, str]] = []
    kinds = [("mandatory", 1, 1, 1), ("optional", 0, 1, 1), ("or", 1, 2, 2), ("alternative", 1, 1, 2)]
    if mutex:
        kinds.append(("mutex", 0, 1, 2))
    if cardinal:
        kinds.append(("cardinality", 2, 2, 3))
    forms = [("parent-requires-child", lambda P, c, s: n(o("REQUIRES"), n(P), n(c))),
             ("child-requires-parent", lambda P, c, s: n(o("REQUIRES"), n(c), n(P))),
             ("parent-implies-child", lambda P, c, s: n(o("IMPLIES"), n(P), n(c))),
             ("not-parent-or-child", lambda P, c, s: n(o("OR"), n(o("NOT"), n(P)), n(c))),
             ("child-excludes-sibling", lambda P, c, s: n(o("EXCLUDES"), n(c), n(s))),
             ("child-requires-sibling", lambda P, c, s: n(o("REQUIRES"), n(c), n(s))),
             ("parent-excludes-child", lambda P, c, s: n(o("EXCLUDES"), n(P), n(c)))]
    for kname, lo, hi, cnt in kinds:
        for fname, make in forms:
            root, par, side = mb.feature("Root"), mb.feature("Par"), mb.feature("Side")
            mb.relation(root, [par], 0, 1)
            mb.relation(root, [side], 0, 1)
            kids = [mb.feature(f"k{j}") for j in range(cnt)]
            mb.relation(par, kids, lo, hi)
            sib = kids[1]._f["name"] if cnt > 1 else "Side"
            out.append(("relatives", f"{kname}:{fname}", mb.model(root, [mb.constraint("c", make("Par", "k0", sib))]),
                        f"{fname} across a {kname} relation"))
    for op in ops:
        for nm, tree in polarity_trees(mb, op):
            out.append(("polarity", nm, ctc_model(mb, [(nm, tree)]), f"constraint {nm}"))
    for i, op1 in enumerate(ops):
        for j, op2 in enumerate(ops):
            inner = lambda: n(o("NOT"), n(o("NOT"), n(o(op2), n("B"), n("C"))))  # noqa: E731
            tree = n(o(op1), n("A"), inner()) if (i + j) % 2 else n(o(op1), inner(), n("A"))
            nm = f"{op1}-over-notnot-{op2}"
            out.append(("double-negation", nm, ctc_model(mb, [(nm, tree)]), f"{op1} over a doubly negated {op2}"))
    return out


class Codec:
    """Round-trip composition for one writer/reader pair with per-dimension reporting."""

    def __init__(self, pm: ProgramModel, ctx: Any, writer: str, reader: str, prefix: str,
                 diff_opts: Optional[dict[str, Any]] = None,
                 wsetup: Optional[Callable[..., None]] = None,
                 rsetup: Optional[Callable[..., None]] = None) -> None:
        from .core import loc
        self.pm, self.ctx, self.W, self.R, self.prefix = pm, ctx, writer, reader, prefix
        self.diff_opts = diff_opts or {}
        self.wsetup, self.rsetup = wsetup, rsetup
        self.unowned: dict[str, str] = {}
        self.owned_seen: set[str] = set()
        wc, rc = pm.cls(writer), pm.cls(reader)
        self.wwhere = loc(wc.unit.path, wc.node)
        self.rwhere = loc(rc.unit.path, rc.node)
        self.n = 0

    def roundtrip(self, model: AObj) -> dict[str, Any]:
        from .roundtrip import describe, diff
        self.n += 1
        w = run_writer(self.pm, self.W, model, setup=self.wsetup)
        out: dict[str, Any] = {"w": w, "r": None, "diff": None}
        if w["raise"] or w["written"] is None:
            return out
        r = run_reader(self.pm, self.R, w["vfs"], setup=self.rsetup)
        out["r"] = r
        if r["model"] is not None:
            out["diff"] = diff(describe(model), describe(r["model"]), **self.diff_opts)
        return out

    def failed(self, rt: dict[str, Any], owns: tuple[str, ...]) -> bool:
        return bool(rt["w"]["raise"] or rt["r"] is None or rt["r"]["raise"]
                    or any(c in owns for c, _ in (rt["diff"] or [])))

    def report(self, rule: str, key: str, rt: dict[str, Any], what: str, owns: tuple[str, ...],
               fragment: bool = True) -> bool:
        ctx = self.ctx
        rule = f"{self.prefix}-{rule}"
        w, r = rt["w"], rt["r"]
        if w["raise"]:
            (ctx.violation if fragment else ctx.info)(
                rule, f"{key}:writer-raises", w["raise"][1] or self.wwhere,
                f"{what}: writer raises {w['raise'][0]}")
            return False
        if rt.get("syntax"):
            (ctx.violation if fragment else ctx.info)(
                rule, f"{key}:not-in-the-language", self.wwhere,
                f"{what}: the text written is not in the format's language - the recogniser reports {rt['syntax'][0]!r} "
                f"(it recovers and goes on, so the model may still come back)")
            return False
        if r is None or r["raise"]:
            why = r["raise"][0] if r else "nothing written"
            (ctx.violation if fragment else ctx.info)(
                rule, f"{key}:reader-raises", (r["raise"][1] if r else "") or self.rwhere,
                f"{what}: the reader rejects what the writer produced: {why}")
            return False
        mine = [(c, t) for c, t in rt["diff"] if c in owns]
        for c, t in rt["diff"]:
            if c not in owns:
                self.unowned.setdefault(c, f"{what}: {t}")
        self.owned_seen.update(owns)
        if not mine:
            ctx.ok(rule, key, self.wwhere, f"{what}: read back unchanged ({', '.join(owns)})")
            return True
        (ctx.violation if fragment else ctx.info)(
            rule, key, self.wwhere, f"{what}: {mine[0][1]}" +
            (f" (+{len(mine) - 1} more differences)" if len(mine) > 1 else ""),
            differences=[t for _, t in mine[:6]])
        return False

    def abstract_positions(self, mb: ModelBuilder, rule: str = "FIELDS") -> None:
        """The abstract flag round-trips in every structural position, alone and all together."""
        for pos in POSITIONS:
            self.report(rule, f"abstract-at:{pos}", self.roundtrip(positions_model(mb, [pos])),
                        f"abstract flag on the feature in position {pos} only", ("abstract",))
        self.report(rule, "abstract-at:all", self.roundtrip(positions_model(mb, POSITIONS)),
                    "abstract flag on a feature in every position", ("abstract",))

    def positions_sweep(self, mb: ModelBuilder, rule: str, key: str, owns: tuple[str, ...],
                        decorate: Callable[[AObj], None], what: str, groups: bool = True) -> None:
        """A per-feature decoration (type, cardinality, attribute ...) round-trips whatever the
        structural position of the feature carrying it."""
        from .roundtrip import features
        for pos in POSITIONS:
            m = positions_model(mb, [], groups=groups)
            target = [f for f in features(m) if f._f["name"] == pos]
            if not target:
                continue
            decorate(target[0])
            self.report(rule, f"{key}-at:{pos}", self.roundtrip(m), f"{what} on the feature in position {pos}", owns)

    def thorough_pairs(self, mb: ModelBuilder, ops: Iterable[str], rule: str = "VOC",
                       model_of: Optional[Callable[[list[tuple[str, AObj]]], AObj]] = None) -> None:
        ops = list(ops)
        for op1 in ops:
            trees = operator_pairs(mb, op1, ops)
            m = model_of(trees) if model_of else ctc_model(mb, trees)
            self.report(rule, f"operator-pairs:{op1}", self.roundtrip(m),
                        f"{op1} over / under every other operator", ("constraint", "constraint-count"))

    def thorough_kind_pairs(self, mb: ModelBuilder, reps: list[D], rule: str = "KIND",
                            model_of: Optional[Callable[[list[D]], AObj]] = None) -> None:
        import itertools
        for a, b in itertools.product(reps, repeat=2):
            m = model_of([a, b]) if model_of else kind_model(mb, [a, b])
            self.report(rule, f"kind-pair:{kind(a)}:{a}+{kind(b)}:{b}", self.roundtrip(m),
                        f"relations {a} and {b} under one parent", ("relation", "parent", "name"))

    def polarity(self, mb: ModelBuilder, ops: Iterable[str], rule: str = "VOC", negation: bool = True,
                 model_of: Optional[Callable[[list[tuple[str, AObj]]], AObj]] = None) -> None:
        """Every binary operator over two plain features with each combination of operand polarities (and negated)."""
        for op in ops:
            trees = polarity_trees(mb, op, negation)
            m = model_of(trees) if model_of else ctc_model(mb, trees)
            self.report(rule, f"polarities:{op}", self.roundtrip(m),
                        f"{op} over A / !A and B / !B, plain and negated, and with the operands exchanged",
                        ("constraint", "constraint-count"))

    def reuse_base(self, mb: ModelBuilder, op: str = "IMPLIES", rename: Optional[Callable[[str], str]] = None,
                   abstract: bool = True, list_attr: bool = False) -> tuple[AObj, Callable[[AObj], None]]:
        """A small model of every format's fragment and an in-place edit of it through the model's own lists."""
        rn = rename or (lambda x: x)
        root = mb.feature(rn("Root"))
        a, b, c = mb.feature(rn("Aa")), mb.feature(rn("Bb")), mb.feature(rn("Cc"))
        mb.relation(root, [a], 0, 1)
        mb.relation(root, [b], 1, 1)
        mb.relation(root, [c], 0, 1)
        mb.relation(a, [mb.feature(rn("Ga")), mb.feature(rn("Gb"))], 1, 1)
        if list_attr:                                      # two attributes whose values are equal lists (one text, two objects)
            b._f["attributes"].append(mb.attribute("levels", [1, 2, 3], b))
            c._f["attributes"].append(mb.attribute("steps", [1, 2, 3], c))
        m = mb.model(root, [mb.constraint("c0", mb.node(mb.op(op), mb.node(rn("Aa")), mb.node(rn("Cc")))),
                            mb.constraint("c00", mb.node(mb.op(op), mb.node(rn("Cc")), mb.node(rn("Bb"))))])

        def edit(model: AObj) -> None:
            r_ = model._f["root"]
            added = mb.feature(rn("Added"))
            mb.relation(r_, [added], 0, 1)                                   # a new optional child of the root
            mb.relation(added, [mb.feature(rn("Deep"))], 1, 1)
            model._f["ctcs"].append(mb.constraint("c1", mb.node(mb.op(op), mb.node(rn("Added")), mb.node(rn("Bb")))))
            try:
                model._f["ctcs"][0]._f["_ast"]._f["root"]._f["right"] = mb.node(rn("Bb"))   # the first constraint edited
            except (KeyError, AttributeError, IndexError, TypeError):
                pass                                       # (the classes keep the tree elsewhere: the other edits remain)
            if len(model._f["ctcs"]) > 1:                  # the second constraint gets a new formula through the public setter
                mb._pin(model._f["ctcs"][1], "ast", mb.ast(mb.node(mb.op("OR"), mb.node(rn("Cc")), mb.node(rn("Aa")))))
            for rel in r_._f["relations"]:
                for ch in rel._f["children"]:
                    if abstract and ch._f.get("name") == rn("Cc"):
                        ch._f["is_abstract"] = True
                    if ch._f.get("name") == rn("Aa"):
                        for grp in ch._f["relations"]:
                            if len(grp._f["children"]) == 2:
                                mb._pin(grp, "card_max", 2)        # the alternative group becomes an or-group
                    if list_attr and ch._f.get("name") == rn("Bb"):
                        for at_ in ch._f.get("attributes", []):
                            if isinstance(at_._f.get("default_value"), list):
                                at_._f["default_value"].append(4)   # a value edited in place by the caller
                    if ch._f.get("name") == rn("Bb"):
                        for rel2 in [x for x in r_._f["relations"] if ch in x._f["children"]]:
                            mb._pin(rel2, "card_min", 0)           # the mandatory child becomes optional
        return m, edit

    def writer_reuse(self, mb: ModelBuilder, rule: str = "REUSE", **kw: Any) -> None:
        writer_reuse_check(self, mb, rule, **kw)
        writer_failed_then_reused(self, mb, rule, **kw)

    def reader_reuse(self, mb: ModelBuilder, rule: str = "REUSE", _bare: bool = False, **kw: Any) -> None:
        """Histories of reading: (1) a document is read, the caller edits the model it got, and the same document is
        read again by a new reader object: the second model is the document's, not the caller's edited one (a parse
        cache that hands out its own entry); (2) the file is replaced by another document and read again - by a new
        reader and by the first reader object: the model is the one of the document that is there now (a reader that
        answers silently with the earlier model is wrong; one that declines with an error is reported as information)."""
        from .absint import reset_global_state
        from .roundtrip import describe, diff
        ctx, pm = self.ctx, self.pm
        reset_global_state()
        m_a, edit = self.reuse_base(mb, **kw)
        m_b, edit_b = self.reuse_base(mb, **kw)
        edit_b(m_b)
        sfx = ":no-constraints" if _bare else ""
        if _bare:                                          # documents without any constraint (an empty / absent section)
            m_a._f["ctcs"], m_b._f["ctcs"] = [], []
        wa, wb = run_writer(pm, self.W, m_a, setup=self.wsetup), run_writer(pm, self.W, m_b, setup=self.wsetup)
        if wa["raise"] or wb["raise"] or wa["written"] is None or wb["written"] is None:
            return
        reset_global_state()
        ci = pm.cls(self.R)
        tr = pm.method(ci, "transform")
        vfs = VFS()
        vfs.put(PATH, wa["written"])
        it = new_interp(pm, vfs)
        if self.rsetup:
            self.rsetup(it, vfs)
        P = f"{self.prefix}-{rule}"
        try:
            r1 = it.eval_call_class(ci, [PATH])
            got1 = it.call(tr, [r1])
            d0 = diff(describe(m_a), describe(got1), **self.diff_opts)
            if d0:
                return                                     # the plain round trip is reported elsewhere
            edit(got1)                                     # the caller works on the model it was given
            r2 = it.eval_call_class(ci, [PATH])
            got2 = it.call(tr, [r2])
            d1 = diff(describe(m_a), describe(got2), **self.diff_opts)
            ctx.check(not d1 and got2 is not got1, P, "read-edit-read" + sfx, self.rwhere,
                      "a document read again after the caller edited the first result denotes the same model as before",
                      bad=f"{self.R}: reading an unchanged file again after the caller edited the model of the first reading "
                          f"gives {'the very object handed out before' if got2 is got1 else 'another model'}: "
                          f"{d1[0][1] if d1 else 'the edited model'}")
            vfs.put(PATH, wb["written"])                    # another program replaces the file
            r3 = it.eval_call_class(ci, [PATH])
            got3 = it.call(tr, [r3])
            d2 = diff(describe(m_b), describe(got3), **self.diff_opts)
            ctx.check(not d2, P, "replaced-file:new-reader" + sfx, self.rwhere,
                      "a file replaced by another document is read as that document",
                      bad=f"{self.R}: after the file was replaced the model read is not the new document's: "
                          f"{d2[0][1] if d2 else ''}")
        except (AbsRaise, AbsMutation) as exc:
            ctx.violation(P, "read-edit-read" + sfx, self.rwhere, f"{self.R}: reading a document a second time raises {exc.what}")
            reset_global_state()
            return
        # the first reader object asked again while the file is what it was (a reader that parses only once hands out what
        # the caller has edited in the meantime), then after a reading that failed half-way
        try:
            vfs.put(PATH, wa["written"])
            r5 = it.eval_call_class(ci, [PATH])
            got5 = it.call(tr, [r5])
            edit(got5)
            got6 = it.call(tr, [r5])
            d5 = diff(describe(m_a), describe(got6), **self.diff_opts)
            ctx.check(not d5 and got6 is not got5, P, "same-reader-object:asked-twice-with-caller-edits-between" + sfx, self.rwhere,
                      "a reader object asked twice returns, the second time too, the model of the document",
                      bad=f"{self.R}: the reader object, asked again after the caller edited the model it had returned, answers with "
                          f"{'that very object' if got6 is got5 else 'a model the document does not denote'}: "
                          f"{d5[0][1] if d5 else ''}")
        except (AbsRaise, AbsMutation) as exc:
            ctx.info(P, "same-reader-object:asked-twice-with-caller-edits-between" + sfx, self.rwhere,
                     f"{self.R}: a reader object asked to transform() a second time declines: {exc.what}")
        bad_doc = broken_variant(self.R, wa["written"])
        if bad_doc is not None:
            try:
                vfs.put(PATH, bad_doc)
                r7 = it.eval_call_class(ci, [PATH])
                failed = False
                try:
                    it.call(tr, [r7])
                except (AbsRaise, AbsMutation):
                    failed = True
                if failed:
                    vfs.put(PATH, wb["written"])
                    got8 = it.call(tr, [r7])
                    d8 = diff(describe(m_b), describe(got8), **self.diff_opts)
                    ctx.check(not d8, P, "same-reader-object:after-a-failed-reading" + sfx, self.rwhere,
                              "a reader object asked again after a failed reading builds the model of the document that is there",
                              bad=f"{self.R}: after a reading that failed half-way the same object, asked to read a good document, "
                                  f"builds a model that document does not denote: {d8[0][1] if d8 else ''}")
            except (AbsRaise, AbsMutation) as exc:
                ctx.info(P, "same-reader-object:after-a-failed-reading" + sfx, self.rwhere,
                         f"{self.R}: a reader object asked again after a failed reading declines: {exc.what}")
        vfs.put(PATH, wb["written"])
        try:
            got4 = it.call(tr, [r1])                        # the first reader object, asked again
            d3 = diff(describe(m_b), describe(got4), **self.diff_opts)
            ctx.check(not d3, P, "replaced-file:same-reader-object" + sfx, self.rwhere,
                      "the first reader object, asked again after the file was replaced, returns the new document's model",
                      bad=f"{self.R}: the reader object used before answers with a model that is not the one of the document "
                          f"now in the file: {d3[0][1] if d3 else ''}")
        except (AbsRaise, AbsMutation) as exc:
            ctx.info(P, "replaced-file:same-reader-object" + sfx, self.rwhere,
                     f"{self.R}: a reader object asked to transform() a second time declines: {exc.what}")
        reset_global_state()
        if not _bare:
            self.reader_reuse(mb, rule, _bare=True, **kw)

    def large(self, mb: ModelBuilder, ops: Iterable[str], rule: str = "LARGE", **kw: Any) -> None:
        for key, m, what, owns in large_models(mb, ops, **kw):
            self.report(rule, key, self.roundtrip(m), what, owns)

    def finish_unowned(self) -> None:
        for c, t in sorted(self.unowned.items()):
            if c not in self.owned_seen:
                self.ctx.violation(f"{self.prefix}-COMBINED", f"unowned:{c}", self.wwhere, t)

    def cycle_and_return(self, model: AObj, text_kind: type = str, check_text: bool = True) -> Optional[AObj]:
        """Combined model: second cycle fixpoint, returned == written, UTF-8, well-formed output."""
        from .roundtrip import describe, diff, wellformed
        ctx, P = self.ctx, self.prefix
        rt = self.roundtrip(model)
        w = rt["w"]
        if w["raise"]:
            ctx.violation(f"{P}-COMBINED", "rich-model:writer-raises", w["raise"][1] or self.wwhere,
                          f"combined model: writer raises {w['raise'][0]}")
            return None
        ctx.check(same_content(w["returned"], w["written"]) and isinstance(w["returned"], text_kind), f"{P}-DUMP",
                  "returned=written", self.wwhere, "transform returns exactly the content it writes",
                  bad=f"value returned differs from the content written "
                      f"({str(w['returned'])[:60]!r} vs {str(w['written'])[:60]!r})")
        enc = [o_ for o_ in w["vfs"].opens if "w" in o_["mode"] and "b" not in o_["mode"]]
        binw = [o_ for o_ in w["vfs"].opens if "w" in o_["mode"] and "b" in o_["mode"]]
        ctx.check((bool(enc) or bool(binw)) and
                  all((o_["encoding"] or "").lower().replace("-", "") == "utf8" for o_ in enc),
                  f"{P}-DUMP", "utf8", self.wwhere, "the file is written as UTF-8",
                  bad=f"file opened for writing with encoding {[o_['encoding'] for o_ in enc]}")
        if rt["r"] is None or rt["r"]["model"] is None:
            why = rt["r"]["raise"][0] if rt["r"] else "nothing written"
            ctx.violation(f"{P}-COMBINED", "rich-model:reader-raises", self.rwhere,
                          f"combined model: the reader rejects the writer's output: {why}")
            return None
        m1 = rt["r"]["model"]
        rt2 = self.roundtrip(m1)
        if rt2["r"] and rt2["r"]["model"] is not None and not rt2["w"]["raise"]:
            d2 = diff(describe(m1), describe(rt2["r"]["model"]), **self.diff_opts)
            ctx.check(not d2, f"{P}-CYCLE", "second-cycle-model", self.wwhere,
                      "a second write/read cycle changes nothing",
                      bad=f"second cycle changes the model: {[t for _, t in d2[:2]]}")
            rt3 = self.roundtrip(rt2["r"]["model"])
            if check_text and not rt3["w"]["raise"]:
                ctx.check(rt3["w"]["written"] == rt2["w"]["written"], f"{P}-CYCLE", "fixpoint-text",
                          self.wwhere, "repeating the cycle writes byte-identical text",
                          bad="the text written keeps changing from cycle to cycle")
        else:
            why = (rt2["w"]["raise"] or (rt2["r"] and rt2["r"]["raise"]) or ("?",))[0]
            ctx.violation(f"{P}-CYCLE", "second-cycle-raises", self.wwhere,
                          f"the second write/read cycle fails: {why}")
        wf = wellformed(m1)
        ctx.check(not wf, f"{P}-WELLFORMED", "reader-output", self.rwhere,
                  "the model read is a well-formed tree with well-shaped constraints",
                  bad=f"model read back is not well-formed: {[t for _, t in wf[:2]]}")
        self.last_rt = rt
        return m1



class WriterOnly:
    """What writer_reuse_check needs to know about a writer that has no reader (the exports)."""

    def __init__(self, pm: ProgramModel, ctx: Any, writer: str, prefix: str, wsetup: Optional[Callable[..., None]] = None) -> None:
        from .core import loc
        self.pm, self.ctx, self.W, self.prefix, self.wsetup = pm, ctx, writer, prefix, wsetup
        wc = pm.cls(writer)
        self.wwhere = loc(wc.unit.path, wc.node)


def writer_reuse_check(self: Any, mb: ModelBuilder, rule: str = "REUSE", **kw: Any) -> None:
    """One writer object used for a model, the model then edited in place through its own API, and the same writer
    used again (and, separately, pointed at another model): what it writes must be what a fresh writer writes for
    the model as it is now - a writer that keeps the document it built the first time writes a stale one."""
    from .absint import reset_global_state
    ctx, pm = self.ctx, self.pm
    ci = pm.cls(self.W)
    tr = pm.method(ci, "transform")
    for variant in ("edit-in-place", "other-model"):
        key = f"same-writer-object:{variant}"
        reset_global_state()
        model, edit = Codec.reuse_base(self, mb, **kw)
        vfs = VFS()
        it = new_interp(pm, vfs)
        if self.wsetup:
            self.wsetup(it, vfs)
        try:
            w = it.eval_call_class(ci, [PATH, model])
            it.call(tr, [w])
            first = vfs.files.get(PATH)
            if variant == "edit-in-place":
                edit(model)
                target = model
            else:
                target, edit2 = Codec.reuse_base(self, mb, **kw)
                edit2(target)
                holders = [k_ for k_, v_ in w._f.items() if v_ is model]   # the field(s) the constructor put the model in
                if not holders:
                    ctx.info(f"{self.prefix}-{rule}", key, self.wwhere, "the writer object does not hold its model in a field")
                    continue
                try:
                    for k_ in holders:
                        it.setattr_obj(w, k_, target)
                except (AbsRaise, AbsMutation, AnalysisError):
                    ctx.info(f"{self.prefix}-{rule}", key, self.wwhere, "the writer does not let its model be replaced")
                    continue
            returned = it.call(tr, [w])
            second = vfs.files.get(PATH)
        except (AbsRaise, AbsMutation) as exc:
            ctx.info(f"{self.prefix}-{rule}", key, self.wwhere, f"a writer object used twice raises {exc.what}")
            continue
        reset_global_state()
        indep, edit3 = Codec.reuse_base(self, mb, **kw)           # built independently, edited before anything looked at it
        edit3(indep)
        fresh = run_writer(pm, self.W, indep, setup=self.wsetup)
        if fresh["raise"]:
            continue
        ctx.check(second == fresh["written"] and same_content(returned, second), f"{self.prefix}-{rule}", key,
                  self.wwhere, "a writer object used again after the model changed writes the model as it is now",
                  bad=f"{self.W}: the second transform() of one writer object ({variant}) writes "
                      f"{'the document of the first call' if second == first else 'another document'} instead of the "
                      f"one a fresh writer produces for the model as it is now")
    reset_global_state()



def writer_failed_then_reused(self: Any, mb: ModelBuilder, rule: str = "REUSE", **kw: Any) -> None:
    """One writer object whose transform() fails half-way (the last constraint has no formula yet), the caller completes
    the model through the public setter, and transform() is called again on the same object: the text must be the one a
    fresh writer produces for the completed model - nothing of the failed attempt may be left in the object."""
    from .absint import reset_global_state
    ctx, pm = self.ctx, self.pm
    ci = pm.cls(self.W)
    tr = pm.method(ci, "transform")
    key = "same-writer-object:failed-then-completed"
    P = f"{self.prefix}-{rule}"

    def build(complete: bool) -> tuple[AObj, Any]:
        m, _edit = Codec.reuse_base(self, mb, **kw)
        last = m._f["ctcs"][-1]
        formula = last._f["_ast"]
        if not complete:
            last._f["_ast"] = None
        return m, formula
    reset_global_state()
    model, formula = build(False)
    vfs = VFS()
    it = new_interp(pm, vfs)
    if self.wsetup:
        self.wsetup(it, vfs)
    try:
        w = it.eval_call_class(ci, [PATH, model])
        try:
            it.call(tr, [w])
            ctx.info(P, key, self.wwhere, "a constraint without a formula does not make the writer fail")
            reset_global_state()
            return
        except (AbsRaise, AbsMutation):
            pass
        mb._pin(model._f["ctcs"][-1], "ast", formula)
        returned = it.call(tr, [w])
        second = vfs.files.get(PATH)
    except (AbsRaise, AbsMutation) as exc:
        ctx.info(P, key, self.wwhere, f"a writer object used again after a failed call raises {exc.what}")
        reset_global_state()
        return
    reset_global_state()
    fresh = run_writer(pm, self.W, build(True)[0], setup=self.wsetup)
    if not fresh["raise"]:
        ctx.check(second == fresh["written"] and same_content(returned, second), P, key, self.wwhere,
                  "a writer object whose first call failed writes, once the model is completed, what a fresh writer writes",
                  bad=f"{self.W}: after a transform() that failed half-way the same object, called again on the completed "
                      f"model, writes a text that is not the one a fresh writer produces (left-overs of the failed call)")
    reset_global_state()


def broken_variant(reader: str, content: Any) -> Any:
    """The document with something at its end that the reader cannot represent: reading fails after most of the document
    was processed (an unknown constraint type / rule tag / term, a relational constraint inside an AFM feature block)."""
    import json as _json
    text = content.decode("utf8") if isinstance(content, (bytes, bytearray)) else content
    if reader in ("JSONReader", "GlencoeReader"):
        try:
            doc = _json.loads(text)
        except (ValueError, TypeError):
            return None
        if reader == "JSONReader":
            doc.setdefault("constraints", []).append({"name": "bogus", "expr": "x", "ast": {"type": "NoSuchOperator", "operands": []}})
        else:
            cons = doc.setdefault("constraints", {})
            if isinstance(cons, dict):
                cons["bogus"] = {"type": "NoSuchTerm", "operands": []}
        return _json.dumps(doc)
    if reader == "FeatureIDEReader":
        if "</constraints>" in text:
            out = text.replace("</constraints>", "<rule><nosuchtag><var>x</var></nosuchtag></rule></constraints>", 1)
        else:
            out = text.replace("</struct>", "</struct><constraints><rule><nosuchtag><var>x</var></nosuchtag></rule></constraints>", 1)
        return out.encode("utf8") if isinstance(content, (bytes, bytearray)) else out
    if reader == "AFMReader":
        import re as _re
        m = _re.search(r"^([A-Z][A-Za-z0-9]*)\s*:", text, _re.M)
        if not m or "%Constraints" not in text:
            return None
        return text.rstrip("\n") + f"\n{m.group(1)} {{ {m.group(1)}.cost > 3; }}\n"
    if reader == "UVLReader":
        return text + "\n\t((broken\n"
    return None


