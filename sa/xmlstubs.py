"""XML element stand-ins for evaluating FeatureIDE / FaMa XML transformations from source."""
from __future__ import annotations

from typing import Any, Iterator, Optional
from xml.dom import minidom
from xml.etree import ElementTree as ET

from .absint import AbsRaise, Interp, Native
from .iostubs import VFS


class XEl(Native):
    def __init__(self, tag: str, attrib: Optional[dict[str, Any]] = None, text: Optional[str] = None) -> None:
        self.tag = tag
        self.attrib = dict(attrib or {})
        self.text = text
        self.children: list["XEl"] = []

    def __iter__(self) -> Iterator["XEl"]:
        return iter(self.children)

    def __len__(self) -> int:
        return len(self.children)

    def __getitem__(self, i: int) -> "XEl":
        return self.children[i]

    def __bool__(self) -> bool:           # ElementTree: an element without children is falsy
        return len(self.children) != 0

    def get(self, key: str, default: Any = None) -> Any:
        return self.attrib.get(key, default)

    def find(self, tag: str) -> Optional["XEl"]:
        for c in self.children:
            if c.tag == tag:
                return c
        return None

    def findall(self, tag: str) -> list["XEl"]:
        return [c for c in self.children if c.tag == tag]

    def append(self, el: "XEl") -> None:
        self.children.append(el)

    def set(self, key: str, value: Any) -> None:
        self.attrib[key] = value

    def iter(self, tag: Optional[str] = None) -> list["XEl"]:
        out = [self] if tag is None or self.tag == tag else []
        for c in self.children:
            out.extend(c.iter(tag))
        return out


class XTree(Native):
    def __init__(self, root: XEl) -> None:
        self._root = root

    def getroot(self) -> XEl:
        return self._root


def to_et(x: XEl) -> ET.Element:
    for k, v in x.attrib.items():
        if not isinstance(k, str) or not isinstance(v, str):
            raise AbsRaise(f"TypeError: cannot serialize {v!r} (type {type(v).__name__})")
    if not isinstance(x.tag, str):
        raise AbsRaise(f"TypeError: element tag {x.tag!r} is not a string")
    e = ET.Element(x.tag, dict(x.attrib))
    if x.text is not None and not isinstance(x.text, str):
        raise AbsRaise(f"TypeError: cannot serialize text {x.text!r}")
    e.text = x.text
    for c in x.children:
        e.append(to_et(c))
    return e


def from_et(e: ET.Element) -> XEl:
    x = XEl(e.tag, dict(e.attrib), e.text if e.text is None or e.text.strip() else None)
    for c in e:
        x.children.append(from_et(c))
    return x


def parse_xml(data: Any) -> XTree:
    try:
        return XTree(from_et(ET.fromstring(data)))
    except ET.ParseError as exc:
        raise AbsRaise(f"ParseError: {exc}") from exc


class MiniDoc(Native):
    def __init__(self, data: Any) -> None:
        self._doc = minidom.parseString(data)

    def toprettyxml(self, indent: str = "\t", newl: str = "\n", encoding: Optional[str] = None) -> Any:
        return self._doc.toprettyxml(indent=indent, newl=newl, encoding=encoding)


def install_xml(it: Interp, vfs: VFS) -> None:
    def element(tag: Any, attrib: Optional[dict[str, Any]] = None, **extra: Any) -> XEl:
        return XEl(tag, {**(attrib or {}), **extra})

    def subelement(parent: XEl, tag: Any, attrib: Optional[dict[str, Any]] = None, **extra: Any) -> XEl:
        if not isinstance(parent, XEl):
            raise AbsRaise(f"TypeError: SubElement() argument 1 must be xml.etree.ElementTree.Element, not {type(parent).__name__}")
        if attrib is not None and not isinstance(attrib, dict):
            raise AbsRaise(f"TypeError: SubElement() argument 'attrib' must be dict, not {type(attrib).__name__}")
        el = XEl(tag, {**(attrib or {}), **extra})
        parent.children.append(el)
        return el

    def tostring(el: Any, encoding: Optional[str] = None, method: str = "xml", **kw: Any) -> Any:
        if isinstance(el, XTree):
            el = el.getroot()
        e = to_et(el)
        if getattr(el, "_indent", None) is not None:
            ET.indent(e, space=el._indent[0], level=el._indent[1])
        try:
            return ET.tostring(e, encoding=encoding, method=method, **kw)
        except LookupError as exc:
            raise AbsRaise(f"LookupError: {exc}") from exc

    def indent(tree: Any, space: str = "  ", level: int = 0) -> None:
        el = tree.getroot() if isinstance(tree, XTree) else tree
        if not isinstance(el, XEl):
            raise AbsRaise("TypeError: indent() expects an element")
        el._indent = (space, level)      # whitespace-only text/tail: applied when the tree is serialised

    def parse(path: Any) -> XTree:
        if path not in vfs.files:
            raise AbsRaise(f"FileNotFoundError: {path}")
        vfs.opens.append({"path": path, "mode": "xml-parse", "encoding": "xml-declaration"})
        return parse_xml(vfs.files[path])
    base = "xml.etree.ElementTree"
    for pre in (base, "ElementTree"):
        it.native[f"{pre}.Element"] = element
        it.native[f"{pre}.SubElement"] = subelement
        it.native[f"{pre}.ElementTree"] = lambda el=None: XTree(el)
        it.native[f"{pre}.tostring"] = tostring
        it.native[f"{pre}.indent"] = indent
        it.native[f"{pre}.parse"] = parse
        it.native[f"{pre}.fromstring"] = lambda data: parse_xml(data).getroot()
    it.native["xml.dom.minidom.parseString"] = lambda data: MiniDoc(data)
    it.native["minidom.parseString"] = lambda data: MiniDoc(data)
    it.native["sys.stderr"] = None
