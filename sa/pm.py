"""Program model (DESIGN §3.1): parsed units of the package + read-only environment units,
class table with MRO, function table, import aliases, simple callee resolution.

Nothing of the analysed package is ever imported or executed; files are located on disk.
"""
from __future__ import annotations

import ast
import glob
import os
import site
import sys
from dataclasses import dataclass, field
from typing import Iterator, Optional

from .core import AnalysisError, REPO_ROOT, PKG_REL, sha256_file

PKG_MOD = "flamapy.metamodels.fm_metamodel"

ENV_FILES = {
    "flamapy.core.models.ast": "flamapy/core/models/ast.py",
    "flamapy.core.operations.metrics_operation": "flamapy/core/operations/metrics_operation.py",
    "flamapy.core.operations.abstract_operation": "flamapy/core/operations/abstract_operation.py",
    "flamapy.core.transformations.text_to_model": "flamapy/core/transformations/text_to_model.py",
    "flamapy.core.transformations.model_to_text": "flamapy/core/transformations/model_to_text.py",
    "uvl.UVLPythonParser": "uvl/UVLPythonParser.py",
    "afmparser.AFMParser": "afmparser/AFMParser.py",
    "afmparser.main": "afmparser/main.py",
    "antlr4.FileStream": "antlr4/FileStream.py",
}


def _site_dirs() -> list[str]:
    dirs = []
    for d in list(site.getsitepackages()) + [p for p in sys.path if p.endswith("site-packages")]:
        if d not in dirs and os.path.isdir(d):
            dirs.append(d)
    extra = "/venv/lib/python3.12/site-packages"
    if extra not in dirs and os.path.isdir(extra):
        dirs.append(extra)
    return dirs


def find_env_file(rel: str) -> Optional[str]:
    for d in _site_dirs():
        p = os.path.join(d, rel)
        if os.path.isfile(p):
            return p
    return None


@dataclass
class Unit:
    mod: str
    path: str
    tree: ast.Module
    source: str
    env: bool = False
    imports: dict[str, str] = field(default_factory=dict)   # local name -> qualified name

    @property
    def short(self) -> str:
        return self.mod.rsplit(".", 1)[-1]


@dataclass
class FuncInfo:
    qual: str                      # module.func or module.Class.method
    name: str
    node: ast.FunctionDef
    unit: Unit
    cls: Optional["ClassInfo"] = None

    @property
    def params(self) -> list[str]:
        a = self.node.args
        return [x.arg for x in a.posonlyargs + a.args]

    def decorators(self) -> list[str]:
        out = []
        for d in self.node.decorator_list:
            out.append(ast.unparse(d))
        return out

    def is_static(self) -> bool:
        return "staticmethod" in self.decorators()

    def is_classmethod(self) -> bool:
        return "classmethod" in self.decorators()


@dataclass
class ClassInfo:
    qual: str
    name: str
    node: ast.ClassDef
    unit: Unit
    bases: list[str] = field(default_factory=list)           # as written, resolved if possible
    methods: dict[str, FuncInfo] = field(default_factory=dict)
    class_attrs: dict[str, ast.expr] = field(default_factory=dict)
    outer: Optional["ClassInfo"] = None
    fields: list[tuple[str, Optional[ast.expr]]] = field(default_factory=list)   # annotated names, in order
    all_defs: list["FuncInfo"] = field(default_factory=list)    # every def of the body, same-named ones included


class ProgramModel:
    def __init__(self, repo_root: str = REPO_ROOT) -> None:
        self.repo_root = repo_root
        self.pkg_dir = os.path.join(repo_root, PKG_REL)
        self.units: dict[str, Unit] = {}
        self.classes: dict[str, ClassInfo] = {}          # by qualified name
        self.class_by_name: dict[str, list[ClassInfo]] = {}
        self.functions: dict[str, FuncInfo] = {}         # by qualified name
        self.func_by_name: dict[str, list[FuncInfo]] = {}
        self.env_digests: dict[str, str] = {}
        self.module_defs: dict[str, list[FuncInfo]] = {}
        self._load()

    # -- loading -----------------------------------------------------------------------------
    def _load(self) -> None:
        if not os.path.isdir(self.pkg_dir):
            raise AnalysisError("PM", f"package directory missing: {self.pkg_dir}")
        files = sorted(glob.glob(os.path.join(self.pkg_dir, "**", "*.py"), recursive=True))
        for path in files:
            rel = os.path.relpath(path, self.repo_root)
            mod = rel[:-3].replace(os.sep, ".")
            if mod.endswith(".__init__"):
                mod = mod[: -len(".__init__")]
            self._add_unit(mod, path, env=False)
        for mod, rel in ENV_FILES.items():
            p = find_env_file(rel)
            if p is None:
                continue
            self._add_unit(mod, p, env=True)
            self.env_digests[mod] = sha256_file(p)[:16]
        for u in self.units.values():
            self._index_unit(u)

    def _add_unit(self, mod: str, path: str, env: bool) -> None:
        with open(path, encoding="utf8") as fh:
            source = fh.read()
        try:
            tree = ast.parse(source, filename=path)
        except SyntaxError as exc:
            raise AnalysisError("PM", f"cannot parse {path}: {exc}") from exc
        self.units[mod] = Unit(mod, path, tree, source, env)

    def _index_unit(self, u: Unit) -> None:
        is_pkg_init = u.path.endswith("__init__.py")
        for node in u.tree.body:
            if isinstance(node, ast.ImportFrom):
                base = node.module or ""
                if node.level:
                    parts = u.mod.split(".")
                    if not is_pkg_init:
                        parts = parts[:-1]
                    if node.level > 1:
                        parts = parts[: -(node.level - 1)]
                    base = ".".join(parts + ([node.module] if node.module else []))
                for a in node.names:
                    u.imports[a.asname or a.name] = f"{base}.{a.name}"
            elif isinstance(node, ast.Import):
                for a in node.names:
                    u.imports[a.asname or a.name.split(".")[0]] = a.name if a.asname else a.name.split(".")[0]
        self._canonical_aliases(u)
        for node in u.tree.body:
            if isinstance(node, ast.ClassDef):
                self._index_class(u, node, None)
            elif isinstance(node, (ast.FunctionDef, ast.AsyncFunctionDef)):
                fi = FuncInfo(f"{u.mod}.{node.name}", node.name, node, u)  # type: ignore[arg-type]
                if fi.qual in self.functions:               # a later def of the same name (e.g. `def _` registered
                    fi.qual += f"@{node.lineno}"            # with a dispatcher): kept under a distinct key
                    self.module_defs.setdefault(u.mod, []).append(fi)
                    self.functions[fi.qual] = fi
                    continue
                self.module_defs.setdefault(u.mod, []).append(fi)
                self.functions[fi.qual] = fi
                self.func_by_name.setdefault(node.name, []).append(fi)

    _STD_ALIASED = ("functools", "dataclasses", "enum", "contextlib", "typing", "abc", "itertools", "operator",
                    "collections", "types", "statistics", "math", "copy", "re", "string")

    def _canonical_aliases(self, u: Unit) -> None:
        """`import functools as ft` / `from functools import lru_cache as memo`: the rules that recognise library
        constructs by name (decorators, field(), auto(), NamedTuple ...) see the canonical spelling - the alias is
        rewritten in the syntax tree and the canonical name is added to the unit's imports."""
        ren: dict[str, str] = {}
        for local, target in list(u.imports.items()):
            top = target.split(".")[0]
            if top not in self._STD_ALIASED:
                continue
            canon = target if target == top else target.rsplit(".", 1)[-1]
            if "." in target and target.count(".") > 1:
                continue
            if local != canon and u.imports.get(canon, target) == target:
                ren[local] = canon
                u.imports[canon] = target
        if not ren:
            return
        assigned = {t.id for n_ in ast.walk(u.tree) for t in ast.walk(n_) if isinstance(t, ast.Name) and isinstance(t.ctx, ast.Store)}
        params = {a.arg for n_ in ast.walk(u.tree) if isinstance(n_, ast.arguments)
                  for a in n_.posonlyargs + n_.args + n_.kwonlyargs + ([n_.vararg] if n_.vararg else []) + ([n_.kwarg] if n_.kwarg else [])}
        for n_ in ast.walk(u.tree):
            if isinstance(n_, ast.Name) and isinstance(n_.ctx, ast.Load) and n_.id in ren and n_.id not in assigned \
                    and n_.id not in params:
                n_.id = ren[n_.id]

    def _index_class(self, u: Unit, node: ast.ClassDef, outer: Optional[ClassInfo]) -> None:
        qual = f"{outer.qual}.{node.name}" if outer else f"{u.mod}.{node.name}"
        ci = ClassInfo(qual, node.name, node, u, outer=outer)
        ci.bases = [ast.unparse(b) for b in node.bases]
        for st in node.body:
            if isinstance(st, (ast.FunctionDef, ast.AsyncFunctionDef)):
                fi = FuncInfo(f"{qual}.{st.name}", st.name, st, u, ci)  # type: ignore[arg-type]
                ci.all_defs.append(fi)
                if st.name in ci.methods and any(".register" in ast.unparse(d) for d in st.decorator_list):
                    fi.qual += f"@{st.lineno}"              # an implementation registered with a dispatcher
                    self.functions[fi.qual] = fi
                    continue
                if any(ast.unparse(d).endswith((".setter", ".deleter")) for d in st.decorator_list):
                    fi.qual += ".setter"
                    ci.methods[st.name + ".setter"] = fi
                    self.functions[fi.qual] = fi
                    continue
                ci.methods[st.name] = fi
                self.functions[fi.qual] = fi
                self.func_by_name.setdefault(st.name, []).append(fi)
            elif isinstance(st, ast.Assign):
                for t in st.targets:
                    if isinstance(t, ast.Name):
                        ci.class_attrs[t.id] = st.value
            elif isinstance(st, ast.AnnAssign) and isinstance(st.target, ast.Name):
                if "ClassVar" not in ast.unparse(st.annotation):
                    ci.fields.append((st.target.id, st.value))
                if st.value:
                    ci.class_attrs[st.target.id] = st.value
            elif isinstance(st, ast.ClassDef):
                self._index_class(u, st, ci)
        self.classes[qual] = ci
        self.class_by_name.setdefault(node.name, []).append(ci)

    # -- lookup ------------------------------------------------------------------------------
    def pkg_units(self) -> list[Unit]:
        return [u for u in self.units.values() if not u.env]

    def unit(self, short: str) -> Unit:
        """Unit of the package by its last module component (e.g. 'uvl_writer')."""
        for u in self.units.values():
            if not u.env and u.short == short:
                return u
        raise AnalysisError("PM", f"anchor unit vanished: {short}")

    def env_unit(self, mod: str) -> Unit:
        if mod not in self.units:
            raise AnalysisError("PM", f"environment unit not found: {mod}")
        return self.units[mod]

    def cls(self, name: str, env_ok: bool = True) -> ClassInfo:
        cands = self.class_by_name.get(name, [])
        pk = [c for c in cands if not c.unit.env]
        if len(pk) == 1:
            return pk[0]
        if not pk and env_ok and len(cands) == 1:
            return cands[0]
        if not cands:
            raise AnalysisError("PM", f"anchor class vanished: {name}")
        if pk:
            return pk[0]
        return cands[0]

    def has_cls(self, name: str) -> bool:
        return bool(self.class_by_name.get(name))

    def func(self, qual_or_name: str, unit: Optional[str] = None) -> FuncInfo:
        if qual_or_name in self.functions:
            return self.functions[qual_or_name]
        cands = self.func_by_name.get(qual_or_name.split(".")[-1], [])
        if "." in qual_or_name:
            cname, fname = qual_or_name.rsplit(".", 1)
            cands = [f for f in cands if f.cls is not None and f.cls.name == cname.split(".")[-1]]
        else:
            cands = [f for f in cands if f.cls is None] or cands
        if unit:
            here = [f for f in cands if f.unit.short == unit]
            if not here:
                # not defined in that module any more: the module may import it, or keep the old name as an alias of a
                # function that moved (to another module, into a class as a static method, under a new name)
                for u in self.units.values():
                    if u.short == unit and not u.env:
                        moved = self._follow_alias(u, qual_or_name.split(".")[-1], 0)
                        if moved is not None:
                            return moved
                uniq = [f for f in cands if not f.unit.env]
                if len(uniq) == 1 and "." not in qual_or_name:
                    return uniq[0]          # the only function of that name in the package
            cands = here
        pk = [f for f in cands if not f.unit.env] or cands
        if not pk:
            raise AnalysisError("PM", f"anchor function vanished: {qual_or_name}"
                                      + (f" in {unit}" if unit else ""))
        return pk[0]

    def _follow_alias(self, u: Unit, name: str, depth: int) -> Optional[FuncInfo]:
        if depth > 4:
            return None
        q = f"{u.mod}.{name}"
        if q in self.functions:
            return self.functions[q]
        tgt = u.imports.get(name)
        if tgt:
            if tgt in self.functions:
                return self.functions[tgt]
            modq, nm = tgt.rsplit(".", 1) if "." in tgt else ("", tgt)
            if modq in self.units:
                return self._follow_alias(self.units[modq], nm, depth + 1)
            cands = [f for f in self.func_by_name.get(nm, []) if f.cls is None and not f.unit.env]
            if len(cands) == 1:
                return cands[0]
        val = self.module_assign(u, name)
        if isinstance(val, ast.Name):
            return self._follow_alias(u, val.id, depth + 1)
        if isinstance(val, ast.Attribute) and isinstance(val.value, ast.Name):
            base = val.value.id
            bt = u.imports.get(base)
            if bt and bt in self.units:                     # module.attr
                return self._follow_alias(self.units[bt], val.attr, depth + 1)
            for ci in self.class_by_name.get(base, []) + ([self.classes[bt]] if bt in self.classes else []):
                if val.attr in ci.methods:                  # Class.method (a static method kept under the old name)
                    return ci.methods[val.attr]
        return None

    def has_func(self, name: str, unit: Optional[str] = None) -> bool:
        try:
            self.func(name, unit)
            return True
        except AnalysisError:
            return False

    def resolve_base(self, ci: ClassInfo, base: str) -> Optional[ClassInfo]:
        name = base.split(".")[-1]
        q = ci.unit.imports.get(base.split(".")[0])
        cands = self.class_by_name.get(name, [])
        if not cands:
            return None
        if len(cands) == 1:
            return cands[0]
        for c in cands:
            if q and c.qual.startswith(q.rsplit(".", 1)[0]):
                return c
        for c in cands:
            if c.unit is ci.unit:
                return c
        return cands[0]

    def mro(self, ci: ClassInfo) -> list[ClassInfo]:
        out = [ci]
        for b in ci.bases:
            bc = self.resolve_base(ci, b)
            if bc is not None and bc not in out:
                for x in self.mro(bc):
                    if x not in out:
                        out.append(x)
        return out

    def base_names(self, ci: ClassInfo) -> set[str]:
        """All base-class names (transitively as far as known), unresolved names included."""
        names: set[str] = set()
        for c in self.mro(ci):
            names.add(c.name)
            for b in c.bases:
                names.add(b.split(".")[-1])
        return names

    def subclasses_of(self, base_name: str) -> list[ClassInfo]:
        return [c for c in self.classes.values()
                if not c.unit.env and c.name != base_name and base_name in self.base_names(c)]

    dynamic: Any = None      # set by the evaluator: (pm, class, name, what the class bodies say) -> what the built class says

    def method(self, ci: ClassInfo, name: str) -> Optional[FuncInfo]:
        found = None
        for c in self.mro(ci):
            if name in c.methods:
                found = c.methods[name]
                break
        if ProgramModel.dynamic is not None and not ci.unit.env:
            return ProgramModel.dynamic(self, ci, name, found)
        return found

    def enum_members(self, ci: ClassInfo) -> dict[str, object]:
        out: dict[str, object] = {}
        for k, v in ci.class_attrs.items():
            if isinstance(v, ast.Constant):
                out[k] = v.value
        return out

    def record_kind(self, ci: ClassInfo) -> Optional[tuple[str, dict[str, bool]]]:
        """('dataclass', options) / ('namedtuple', {}) for classes whose __init__ is synthesised from the
        annotated fields; None otherwise."""
        for c in self.mro(ci):
            for d in c.node.decorator_list:
                txt = ast.unparse(d)
                if txt.split("(")[0] in ("dataclass", "dataclasses.dataclass"):
                    opts: dict[str, bool] = {}
                    if isinstance(d, ast.Call):
                        for k in d.keywords:
                            if k.arg and isinstance(k.value, ast.Constant):
                                opts[k.arg] = bool(k.value.value)
                    return ("dataclass", opts)
            if any(b.split(".")[-1] == "NamedTuple" for b in c.bases):
                return ("namedtuple", {})
        return None

    def record_fields(self, ci: ClassInfo) -> list[tuple[str, Optional[ast.expr]]]:
        out: list[tuple[str, Optional[ast.expr]]] = []
        for c in reversed(self.mro(ci)):
            for nm, d in c.fields:
                out = [(n2, d2) for n2, d2 in out if n2 != nm] + [(nm, d)]
        return out

    def is_enum(self, ci: ClassInfo) -> bool:
        return "Enum" in self.base_names(ci) or "Flag" in self.base_names(ci)

    def is_flag(self, ci: ClassInfo) -> bool:
        return "Flag" in self.base_names(ci)

    def module_assign(self, u: Unit, name: str) -> Optional[ast.expr]:
        for st in u.tree.body:
            if isinstance(st, ast.Assign):
                for t in st.targets:
                    if isinstance(t, ast.Name) and t.id == name:
                        return st.value
            elif isinstance(st, ast.AnnAssign) and isinstance(st.target, ast.Name) \
                    and st.target.id == name and st.value is not None:
                return st.value
        return None

    def functions_in(self, u: Unit) -> list[FuncInfo]:
        return [f for f in self.functions.values() if f.unit is u]

    # -- callee resolution (syntactic; receiver conventions) ----------------------------------
    def resolve_call(self, call: ast.Call, caller: FuncInfo) -> list[FuncInfo]:
        """Best-effort callee set for a call inside `caller` (empty = unknown / external)."""
        f = call.func
        u = caller.unit
        if isinstance(f, ast.Name):
            q = u.imports.get(f.id)
            if q and q in self.functions:
                return [self.functions[q]]
            loc_q = f"{u.mod}.{f.id}"
            if loc_q in self.functions:
                return [self.functions[loc_q]]
            if q:
                nm = q.rsplit(".", 1)[-1]
                # re-exported through a package __init__
                cands = [x for x in self.func_by_name.get(nm, []) if x.cls is None]
                if len(cands) == 1:
                    return cands
                # class constructor
                cc = [c for c in self.class_by_name.get(nm, [])]
                if cc:
                    m = self.method(cc[0], "__init__")
                    return [m] if m else []
            cc = [c for c in self.class_by_name.get(f.id, []) if c.unit is u]
            if cc:
                m = self.method(cc[0], "__init__")
                return [m] if m else []
            return []
        if isinstance(f, ast.Attribute):
            recv = f.value
            name = f.attr
            if isinstance(recv, ast.Name) and recv.id in ("self", "cls") and caller.cls is not None:
                m = self.method(caller.cls, name)
                return [m] if m else []
            if isinstance(recv, ast.Call) and isinstance(recv.func, ast.Name) \
                    and recv.func.id == "super" and caller.cls is not None:
                for c in self.mro(caller.cls)[1:]:
                    if name in c.methods:
                        return [c.methods[name]]
                return []
            # ClassName.method(...)
            if isinstance(recv, ast.Name) and recv.id in self.class_by_name:
                m = self.method(self.cls(recv.id), name)
                return [m] if m else []
            if isinstance(recv, ast.Attribute) and recv.attr in self.class_by_name:
                m = self.method(self.cls(recv.attr), name)
                return [m] if m else []
            # module alias: functools.reduce etc. -> external
            if isinstance(recv, ast.Name) and recv.id in u.imports and \
                    u.imports[recv.id] in ("functools", "json", "re", "math", "itertools",
                                           "random", "statistics", "os", "logging", "string",
                                           "sys", "ElementTree", "minidom"):
                return []
            # by unique method name among model / package classes
            cands = [x for x in self.func_by_name.get(name, []) if x.cls is not None]
            return cands
        return []


def walk_no_nested(node: ast.AST) -> Iterator[ast.AST]:
    """ast.walk that does not descend into nested function/class definitions."""
    stack = [node]
    first = True
    while stack:
        n = stack.pop()
        if not first and isinstance(n, (ast.FunctionDef, ast.AsyncFunctionDef, ast.ClassDef)):
            continue
        first = False
        yield n
        stack.extend(reversed(list(ast.iter_child_nodes(n))))


def calls_in(node: ast.AST) -> list[ast.Call]:
    return [n for n in ast.walk(node) if isinstance(n, ast.Call)]


def call_name(call: ast.Call) -> str:
    f = call.func
    if isinstance(f, ast.Name):
        return f.id
    if isinstance(f, ast.Attribute):
        return f.attr
    return ""


def dotted(e: ast.AST) -> Optional[str]:
    if isinstance(e, ast.Name):
        return e.id
    if isinstance(e, ast.Attribute):
        b = dotted(e.value)
        return None if b is None else f"{b}.{e.attr}"
    return None
