"""CARD — order-type abstraction of relation cardinalities (DESIGN §3.4).

Domain D of triples (card_min, card_max, n).  The predicates analysed touch these quantities
only through comparisons with each other and with the literal constants that occur (checked:
`OrdInt` forbids arithmetic and records every constant); the box below has three distinct values
above the largest such constant, so each order type of (min, max, n, constants) has a
representative.  The reference semantics (oracle) is the usual feature-model semantics used by the
property statements: a selected parent has k selected children of the relation with
min <= k <= (n if max == -1 else max).
"""
from __future__ import annotations

from dataclasses import dataclass
from typing import Any, Iterable, Optional

from .absint import AObj, OrdInt, tagged
from .core import AnalysisError

MAX_CONST = 1     # largest literal the predicates may compare against (checked via the log)


@dataclass(frozen=True)
class D:
    min: int
    max: int
    n: int

    def __str__(self) -> str:
        return f"({self.min},{'*' if self.max == -1 else self.max},n={self.n})"

    @property
    def upper(self) -> int:
        return self.n if self.max == -1 else self.max


def domain(tier: str = "quick", maxc: int = 1) -> list[D]:
    """Box with three distinct values above the largest literal constant `maxc`."""
    hi = (maxc + 3) if tier == "quick" else (maxc + 6)
    nn = (maxc + 3) if tier == "quick" else (maxc + 5)
    return [D(a, b, n) for n in range(1, nn + 1) for a in range(0, hi + 1) for b in range(-1, hi + 1)]


def wf(d: D) -> bool:
    """Well-formed cardinalities: 0 <= min <= max <= n, or max = -1 ('*') with min <= n."""
    if d.max == -1:
        return 0 <= d.min <= d.n
    return 0 <= d.min <= d.max <= d.n


def wf_strict(d: D) -> bool:
    """Well-formed without the '*' convention (the quantifier of C03: 0<=min<=max<=n)."""
    return d.max != -1 and wf(d)


def domain_wf(tier: str = "quick", star: bool = True, maxc: int = 1) -> list[D]:
    return [d for d in domain(tier, maxc) if (wf(d) if star else wf_strict(d))]


# ---- reference semantics ---------------------------------------------------------------------
def kind(d: D) -> str:
    """The class of a relation determined only by cardinality and number of children."""
    if d.n == 1:
        if (d.min, d.max) == (1, 1):
            return "mandatory"
        if (d.min, d.max) == (0, 1):
            return "optional"
        return "other1"           # (0,0,1), (0,*,1), (1,*,1): no class in the library
    if (d.min, d.max) == (1, 1):
        return "alternative"
    if d.min == 1 and d.max == d.n:
        return "or"
    if (d.min, d.max) == (0, 1):
        return "mutex"
    return "cardinal"


KINDS = ("mandatory", "optional", "alternative", "or", "mutex", "cardinal")


def forced_all(d: D) -> bool:
    """Every child is in every configuration containing the parent  <=>  min >= n."""
    return d.min >= d.n


def forces_parent_iff_child(d: D) -> bool:
    """child selected <=> parent selected, for every child of the relation."""
    return d.min >= d.n


def n_selections(d: D) -> tuple[int, int]:
    return (d.min, d.upper)


# ---- abstract objects --------------------------------------------------------------------------
class Log:
    def __init__(self) -> None:
        self.consts: set[int] = set()

    def check(self, rule: str, maxc: int = MAX_CONST) -> None:
        bad = [c for c in self.consts if c > maxc or c < -1]
        if bad:
            raise AnalysisError(rule, f"cardinality compared with literal(s) {sorted(bad)} outside "
                                      f"the constants the domain was built for (-1..{maxc})")

    def maxc(self) -> int:
        return max([MAX_CONST] + [c for c in self.consts])


def adaptive(rule: str, run: Any, limit: int = 9) -> Any:
    """Run `run(maxc, log)` on a box built for literal constants <= maxc; if the formulas turn
    out to compare against a larger literal, rebuild the box around it and decide again."""
    maxc = MAX_CONST
    for _ in range(4):
        log = Log()
        res = run(maxc, log)
        m = log.maxc()
        if m <= maxc:
            log.check(rule, maxc)
            return res
        if m > limit:
            raise AnalysisError(rule, f"cardinality compared with literal {m} (> {limit})")
        maxc = m
    raise AnalysisError(rule, "domain did not stabilise")


_VARIANT = [0]


def mk_feature(name: str, parent: Optional[AObj] = None, **extra: Any) -> AObj:
    """A feature of an abstract context. The fields the tree queries must NOT depend on (abstract flag, feature
    cardinality, attributes) take different values from one feature to the next, so that a query which looks at them
    disagrees with its definition on some context instead of leaving the fragment."""
    _VARIANT[0] += 1
    lo, hi, ab = ((1, 1, False), (0, 3, True), (2, 2, False), (0, 1, True), (1, -1, False))[_VARIANT[0] % 5]
    extra.setdefault("is_abstract", ab)
    extra.setdefault("feature_cardinality", AObj("Cardinality", min=lo, max=hi))
    extra.setdefault("attributes", [])
    f = AObj("Feature", name=name, parent=parent, relations=[], **extra)
    return f


PM: list[Any] = []                                        # the program model, when a check wants constructors evaluated


def mk_relation(d: D, parent: Optional[AObj], log: Log, prefix: str = "c",
                children: Optional[list[AObj]] = None) -> AObj:
    if children is None:
        children = [mk_feature(f"{prefix}{i}", parent) for i in range(d.n)]
    r = None
    if PM:
        # the class's own constructor, evaluated from source: whatever else it sets up (a memo field, a counter) is there
        from .absint import AbsMutation, AbsRaise, Interp
        from .core import AnalysisError
        try:
            r = Interp(PM[0]).eval_call_class(PM[0].cls("Relation"), [parent, list(children), d.min, d.max])
            for c in children:
                c._f["parent"] = parent
        except (AbsRaise, AbsMutation, AnalysisError, KeyError):
            r = None
    if r is None:
        r = AObj("Relation")
    r._f.update(parent=parent, children=tagged(children, "n", log.consts),
                card_min=OrdInt(d.min, "min", log.consts), card_max=OrdInt(d.max, "max", log.consts))
    r._f.pop("_complete", None)
    return r


def mk_parent_context(ds: Iterable[D], log: Log, pname: str = "P") -> tuple[AObj, list[AObj]]:
    """A parent feature owning one relation per element of ds (children named r<i>c<j>)."""
    p = mk_feature(pname, None)
    rels = []
    for i, d in enumerate(ds):
        r = mk_relation(d, p, log, prefix=f"r{i}c")
        p._f["relations"].append(r)
        rels.append(r)
    return p, rels
