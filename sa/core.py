"""Core of the static-analysis framework: obligations, findings, evidence, exit codes.

Exit codes (DESIGN §1.3):
  0  every obligation discharged (or only findings listed as `known` in known_findings.json)
  1  an obligation was refuted by a named construct -> `VIOLATION property=<id> replay=<path>`
  2  ANALYSIS-ERROR: the code left the fragment an extractor understands, an anchor vanished,
     an instance count fell below its floor, or the checker itself raised.
"""
from __future__ import annotations

import ast
import hashlib
import json
import os
import sys
import time
from dataclasses import dataclass, field
from typing import Any, Optional

VERIF_ROOT = os.path.dirname(os.path.dirname(os.path.abspath(__file__)))
REPO_ROOT = os.environ.get("VERIF_REPO", "/repo")
PKG_REL = "flamapy/metamodels/fm_metamodel"
EVIDENCE_DIR = os.environ.get("VERIF_EVIDENCE_DIR", os.path.join(VERIF_ROOT, "evidence"))
KNOWN_FILE = os.path.join(VERIF_ROOT, "known_findings.json")


class AnalysisError(Exception):
    """The analysed code is outside the fragment the rule understands (exit 2)."""

    def __init__(self, rule: str, reason: str, where: str = "") -> None:
        super().__init__(f"{rule}: {reason} {where}".strip())
        self.rule = rule
        self.reason = reason
        self.where = where


@dataclass
class Obligation:
    rule: str            # e.g. C03-PARTITION
    key: str             # semantic construct key (never a line number)
    verdict: str         # ok | violation | info | unverified
    where: str           # file:line (for the reader only; not part of identity)
    detail: str
    nontrivial: bool = True
    facts: dict[str, Any] = field(default_factory=dict)

    def ident(self) -> tuple[str, str]:
        return (self.rule, self.key)


def loc(unit_path: str, node: Any) -> str:
    line = getattr(node, "lineno", 0)
    rel = os.path.relpath(unit_path, REPO_ROOT) if unit_path.startswith(REPO_ROOT) else unit_path
    return f"{rel}:{line}"


def src(node: Any) -> str:
    try:
        return ast.unparse(node)
    except Exception:  # pragma: no cover
        return repr(node)


class Ctx:
    """Collects obligations of one property check and renders the result."""

    def __init__(self, prop: str, tier: str) -> None:
        self.prop = prop
        self.tier = tier
        self.obligations: list[Obligation] = []
        self.analysed: dict[str, Any] = {}
        self.assumptions: list[str] = []
        self.trusted_base: list[str] = []
        self.not_decided: list[str] = []
        self.explanation: str = ""
        self.sensitivity: list[dict[str, Any]] = []
        self.t0 = time.time()
        self.seed = int(os.environ.get("VERIF_SEED", "0") or 0)

    # -- recording ---------------------------------------------------------------------------
    def ok(self, rule: str, key: str, where: str = "", detail: str = "",
           nontrivial: bool = True, **facts: Any) -> None:
        self.obligations.append(Obligation(rule, key, "ok", where, detail, nontrivial, facts))

    def violation(self, rule: str, key: str, where: str = "", detail: str = "",
                  **facts: Any) -> None:
        self.obligations.append(Obligation(rule, key, "violation", where, detail, True, facts))

    def info(self, rule: str, key: str, where: str = "", detail: str = "", **facts: Any) -> None:
        self.obligations.append(Obligation(rule, key, "info", where, detail, False, facts))

    def unverified(self, rule: str, key: str, where: str = "", detail: str = "",
                   **facts: Any) -> None:
        self.obligations.append(Obligation(rule, key, "unverified", where, detail, False, facts))

    def check(self, cond: bool, rule: str, key: str, where: str = "", detail: str = "",
              bad: str = "", **facts: Any) -> bool:
        if cond:
            self.ok(rule, key, where, detail, **facts)
        else:
            self.violation(rule, key, where, bad or detail, **facts)
        return cond

    def floor(self, rule: str, what: str, count: int, minimum: int) -> None:
        """Instance-count floor: a rule matching too few sites passes vacuously -> exit 2."""
        self.analysed[f"{rule}:{what}"] = count
        if count < minimum:
            raise AnalysisError(rule, f"instance count of {what} is {count}, below floor {minimum}")

    def count(self, rule: str) -> int:
        return sum(1 for o in self.obligations if o.rule == rule)

    # -- finishing ---------------------------------------------------------------------------
    def finish(self) -> int:
        known = load_known()
        known_ids = {(k["rule"], k["key"]): k for k in known
                     if k.get("property") == self.prop and k.get("status") == "known"}
        viol = [o for o in self.obligations if o.verdict == "violation"]
        # collapse duplicates (same identity reported from two paths)
        seen: dict[tuple[str, str], Obligation] = {}
        for o in viol:
            seen.setdefault(o.ident(), o)
        new: list[Obligation] = []
        listed: list[Obligation] = []
        for ident, o in seen.items():
            (listed if ident in known_ids else new).append(o)
        for o in listed:
            k = known_ids[o.ident()]
            print(f"KNOWN-FINDING: property={self.prop} {o.rule} {o.key} {k.get('what', o.detail)}")
        replay_paths = []
        if new:
            rdir = os.path.join(EVIDENCE_DIR, "replay")
            os.makedirs(rdir, exist_ok=True)
            for i, o in enumerate(new):
                path = os.path.join(rdir, f"{self.prop}-{i}.json")
                with open(path, "w", encoding="utf8") as fh:
                    json.dump({"property": self.prop, "rule": o.rule, "key": o.key,
                               "where": o.where, "detail": o.detail, "facts": o.facts},
                              fh, indent=1, default=str)
                replay_paths.append(path)
                print(f"  finding: {o.rule} [{o.key}] at {o.where}: {o.detail}")
                print(f"VIOLATION property={self.prop} replay={path}")
        self.write_evidence(len(new), len(listed))
        n_ok = sum(1 for o in self.obligations if o.verdict == "ok")
        print(f"analysed: {json.dumps(self.analysed, sort_keys=True)}")
        print(f"{self.prop} [{self.tier}] obligations={len(self.obligations)} ok={n_ok} "
              f"violations={len(new)} known={len(listed)} "
              f"info={sum(1 for o in self.obligations if o.verdict == 'info')} "
              f"unverified={sum(1 for o in self.obligations if o.verdict == 'unverified')} "
              f"wall={time.time() - self.t0:.2f}s")
        return 1 if new else 0

    def write_evidence(self, n_new: int, n_known: int) -> None:
        os.makedirs(EVIDENCE_DIR, exist_ok=True)
        decided = [o for o in self.obligations if o.verdict in ("ok", "violation")]
        distinct_nontrivial = len({o.ident() for o in decided if o.nontrivial})
        by_rule: dict[str, dict[str, int]] = {}
        for o in self.obligations:
            d = by_rule.setdefault(o.rule, {})
            d[o.verdict] = d.get(o.verdict, 0) + 1
        samples = []
        seen_rules: dict[str, int] = {}
        for o in self.obligations:
            if seen_rules.get(o.rule, 0) >= 3 and o.verdict == "ok":
                continue
            seen_rules[o.rule] = seen_rules.get(o.rule, 0) + 1
            samples.append({"rule": o.rule, "key": o.key, "verdict": o.verdict,
                            "where": o.where, "detail": o.detail[:400]})
        try:
            from .absint import Interp
            top_calls, steps = Interp.TOP_CALLS, Interp.TOTAL_STEPS
            from .absint import ARITH_ON_ORDINALS
            if ARITH_ON_ORDINALS:
                self.analysed["arithmetic-on-ordinals"] = sorted(ARITH_ON_ORDINALS)
                self.assumptions.append(
                    "cardinalities take part in arithmetic (" + ", ".join(sorted(ARITH_ON_ORDINALS)) + "): those "
                    "formulas are decided on every point of the box but not by the order-type argument")
        except Exception:  # pragma: no cover
            top_calls, steps = 0, 0
        ev = {
            "property_id": self.prop,
            "tier": self.tier,
            "seed": self.seed,
            "level": "other",
            "coverage": {
                "explanation": self.explanation,
                "evaluations": max(len(self.obligations), top_calls),
                "source_evaluations": top_calls,
                "evaluator_steps": steps,
                "distinct_nontrivial": distinct_nontrivial,
                "rule": ("evaluations = top-level evaluations of a function/method AST of the "
                         "analysed source over an abstract input (at least one per obligation); an "
                         "obligation = one rule instance at a named construct or abstract class; "
                         "distinct_nontrivial = distinct (rule, construct-key) pairs whose "
                         "discharge needed more than the presence of the construct (formula "
                         "equivalence over the abstraction, model comparison, step/inductive "
                         "argument, effect or determinism argument)"),
                "obligations": len(decided),
                "discharged": sum(1 for o in decided if o.verdict == "ok"),
                "by_rule": by_rule,
                "analysed": self.analysed,
                "samples": samples[:120],
                "not_decided": self.not_decided,
                "known_findings_reported": n_known,
                "sensitivity": self.sensitivity,
                "trusted_base": self.trusted_base,
                "checker_cmd": f"/venv/bin/python -m sa {self.prop} --tier {self.tier}",
                "exhaustive": False,
            },
            "assumptions": self.assumptions,
            "wall_s": round(time.time() - self.t0, 3),
            "violations": n_new,
        }
        with open(os.path.join(EVIDENCE_DIR, f"{self.prop}.json"), "w", encoding="utf8") as fh:
            json.dump(ev, fh, indent=1, default=str)


def load_known() -> list[dict[str, Any]]:
    if not os.path.exists(KNOWN_FILE):
        return []
    with open(KNOWN_FILE, encoding="utf8") as fh:
        return json.load(fh).get("findings", [])


def sha256_file(path: str) -> str:
    with open(path, "rb") as fh:
        return hashlib.sha256(fh.read()).hexdigest()


def analysis_error_exit(prop: str, tier: str, exc: BaseException) -> int:
    """Report exit 2 and still leave a (valid) evidence file saying what happened."""
    import traceback
    if isinstance(exc, AnalysisError):
        print(f"ANALYSIS-ERROR property={prop} {exc.rule} {exc.reason} {exc.where}".strip())
    else:
        traceback.print_exc()
        print(f"ANALYSIS-ERROR property={prop} checker-exception {type(exc).__name__}: {exc}")
    sys.stdout.flush()
    return 2


_LIBRARY_ERRORS = {"FlamaException", "ParsingException", "DuplicatedFeature", "ElementNotFound", "TransformationException",
                   "OperationNotFound", "PluginNotFound", "ConfigurationNotFound"}


def is_library_error(pm: Any, what: str) -> bool:
    """Is the raised exception (text of the `raise` as the evaluator reports it) one of the library's own errors -
    flamapy's exception classes or a class of the analysed package deriving from them?"""
    import re as _re
    mk = _re.match(r"(?:[A-Za-z_][A-Za-z0-9_]*\.)*([A-Za-z_][A-Za-z0-9_]*)", what.strip())
    if not mk:
        return False
    kind = mk.group(1)
    if kind in _LIBRARY_ERRORS:
        return True
    if pm is not None and pm.has_cls(kind):
        return bool(pm.base_names(pm.cls(kind)) & _LIBRARY_ERRORS)
    return False
