"""Structural recognisers (normal forms of common idioms), shared by several rules."""
from __future__ import annotations

import ast
from typing import Any, Optional

from .pm import FuncInfo


def body_no_doc(fn: ast.FunctionDef) -> list[ast.stmt]:
    body = list(fn.body)
    if body and isinstance(body[0], ast.Expr) and isinstance(body[0].value, ast.Constant) \
            and isinstance(body[0].value.value, str):
        body = body[1:]
    return body


def comp_as_filter(e: ast.AST) -> Optional[tuple[ast.expr, str, Optional[ast.expr]]]:
    """[x for x in BASE if P] / list(filter(lambda x: P, BASE)) -> (BASE, x, P)."""
    if isinstance(e, ast.ListComp) and len(e.generators) == 1:
        g = e.generators[0]
        if isinstance(g.target, ast.Name) and isinstance(e.elt, ast.Name) and e.elt.id == g.target.id:
            pred: Optional[ast.expr]
            if not g.ifs:
                pred = None
            elif len(g.ifs) == 1:
                pred = g.ifs[0]
            else:
                pred = ast.BoolOp(op=ast.And(), values=list(g.ifs))
            return (g.iter, g.target.id, pred)
    if isinstance(e, ast.Call) and isinstance(e.func, ast.Name) and e.func.id == "list" \
            and len(e.args) == 1:
        inner = e.args[0]
        if isinstance(inner, ast.Call) and isinstance(inner.func, ast.Name) \
                and inner.func.id == "filter" and len(inner.args) == 2 \
                and isinstance(inner.args[0], ast.Lambda) and len(inner.args[0].args.args) == 1:
            lam = inner.args[0]
            return (inner.args[1], lam.args.args[0].arg, lam.body)
        if isinstance(inner, ast.GeneratorExp):
            return comp_as_filter(ast.ListComp(elt=inner.elt, generators=inner.generators))
    return None


def as_filter(fi: FuncInfo) -> Optional[tuple[ast.expr, str, Optional[ast.expr]]]:
    """Recognise a method whose result is a uniform, order-preserving filter of a base listing.

    Accepted idioms: `return [x for x in BASE if P]`, `return list(filter(lambda x: P, BASE))`,
    `res = []; for x in BASE: if P: res.append(x); return res`, and the first two through one
    local variable.
    """
    body = body_no_doc(fi.node)
    if len(body) == 1 and isinstance(body[0], ast.Return) and body[0].value is not None:
        return comp_as_filter(body[0].value)
    if len(body) == 2 and isinstance(body[0], ast.Assign) and isinstance(body[1], ast.Return) \
            and len(body[0].targets) == 1 and isinstance(body[0].targets[0], ast.Name) \
            and isinstance(body[1].value, ast.Name) and body[1].value.id == body[0].targets[0].id:
        return comp_as_filter(body[0].value)
    if len(body) == 3 and isinstance(body[0], (ast.Assign, ast.AnnAssign)) \
            and isinstance(body[1], ast.For) and isinstance(body[2], ast.Return):
        tgt = body[0].targets[0] if isinstance(body[0], ast.Assign) else body[0].target
        val = body[0].value
        if isinstance(tgt, ast.Name) and isinstance(val, ast.List) and not val.elts \
                and isinstance(body[2].value, ast.Name) and body[2].value.id == tgt.id \
                and isinstance(body[1].target, ast.Name) and not body[1].orelse:
            x = body[1].target.id
            inner = body[1].body
            pred: Optional[ast.expr] = None
            if len(inner) == 1 and isinstance(inner[0], ast.If) and not inner[0].orelse:
                pred = inner[0].test
                inner = inner[0].body
            if len(inner) == 1 and isinstance(inner[0], ast.Expr) \
                    and isinstance(inner[0].value, ast.Call) \
                    and isinstance(inner[0].value.func, ast.Attribute) \
                    and inner[0].value.func.attr == "append" \
                    and isinstance(inner[0].value.func.value, ast.Name) \
                    and inner[0].value.func.value.id == tgt.id \
                    and len(inner[0].value.args) == 1 \
                    and isinstance(inner[0].value.args[0], ast.Name) \
                    and inner[0].value.args[0].id == x:
                return (body[1].iter, x, pred)
    return None


def const_str(e: Any) -> Optional[str]:
    if isinstance(e, ast.Constant) and isinstance(e.value, str):
        return e.value
    return None
