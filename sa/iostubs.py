"""Virtual file system and standard-library stubs for evaluating transform() bodies."""
from __future__ import annotations

import json
from typing import Any, Optional

from .absint import AObj, AbsRaise, EnumVal, Interp, Native, OrdInt


class VFS:
    def __init__(self) -> None:
        self.files: dict[str, Any] = {}
        self.opens: list[dict[str, Any]] = []
        self.mtimes: dict[str, int] = {}

    CLOCK = [1_700_000_000_000_000_000]                   # virtual time in ns, one clock for the whole analysis: every
                                                          # write moves it on, so no two writes share a modification time

    def touch(self, path: str) -> None:
        VFS.CLOCK[0] += 1_000_000_007
        self.mtimes[path] = VFS.CLOCK[0]

    def put(self, path: str, content: Any) -> None:
        """Another program replaces the file (content and modification time change)."""
        self.files[path] = content
        self.touch(path)

    def stat(self, path: str) -> "StatResult":
        if path not in self.files:
            raise AbsRaise(f"FileNotFoundError: [Errno 2] No such file or directory: {path!r}")
        data = self.files[path]
        size = len(data.encode("utf8")) if isinstance(data, str) else len(data)
        if path not in self.mtimes:
            self.touch(path)                               # a file put there directly: it was written at some time of its own
        return StatResult(self.mtimes[path], size, sum(map(ord, path)) % 10**9)


class StatResult(Native):
    def __init__(self, mtime_ns: int, size: int, ino: int) -> None:
        self.st_mtime_ns = self.st_ctime_ns = self.st_atime_ns = mtime_ns
        self.st_mtime = self.st_ctime = self.st_atime = mtime_ns / 1e9
        self.st_size, self.st_ino, self.st_dev, self.st_mode, self.st_nlink = size, ino, 1, 0o100644, 1

    def __iter__(self) -> Any:
        return iter((self.st_mode, self.st_ino, self.st_dev, self.st_nlink, 0, 0, self.st_size, int(self.st_atime),
                     int(self.st_mtime), int(self.st_ctime)))


class FileStub(Native):
    def __init__(self, vfs: VFS, path: str, mode: str, encoding: Optional[str]) -> None:
        self.vfs, self.path, self.mode, self.encoding = vfs, path, mode, encoding
        if "w" in mode:
            vfs.files[path] = b"" if "b" in mode else ""
            vfs.touch(path)

    def write(self, data: Any) -> int:
        if "b" in self.mode:
            if not isinstance(data, (bytes, bytearray)):
                raise AbsRaise("TypeError: a bytes-like object is required, not 'str'")
        elif not isinstance(data, str):
            raise AbsRaise(f"TypeError: write() argument must be str, not {type(data).__name__}")
        self.vfs.files[self.path] = self.vfs.files[self.path] + data
        self.vfs.touch(self.path)
        return len(data)

    def read(self) -> Any:
        if self.path not in self.vfs.files:
            raise AbsRaise("FileNotFoundError")
        data = self.vfs.files[self.path]
        if "b" in self.mode and isinstance(data, str):
            return data.encode("utf8")                 # the virtual file system stores text files as UTF-8
        if "b" not in self.mode and isinstance(data, (bytes, bytearray)):
            try:
                return bytes(data).decode(self.encoding or "utf8")
            except (UnicodeDecodeError, LookupError) as exc:
                raise AbsRaise(f"UnicodeDecodeError: {exc}") from exc
        return data

    def close(self) -> None:
        return None


def pure_data(v: Any) -> bool:
    if isinstance(v, (AObj, EnumVal, OrdInt)):
        return False
    if isinstance(v, dict):
        return all(isinstance(k, (str, int, float, bool)) or k is None for k in v) and \
            all(pure_data(x) for x in v.values())
    if isinstance(v, (list, tuple)):
        return all(pure_data(x) for x in v)
    return isinstance(v, (str, int, float, bool)) or v is None


class PathStub(Native):
    """pathlib.Path over the virtual file system (the operations writers/readers plausibly use)."""

    def __init__(self, vfs: VFS, path: Any, opener: Any) -> None:
        self._vfs, self._p, self._open = vfs, str(path), opener

    def __str__(self) -> str:
        return self._p

    def __fspath__(self) -> str:
        return self._p

    def __eq__(self, o: Any) -> bool:
        return isinstance(o, PathStub) and o._p == self._p

    def __hash__(self) -> int:
        return hash(self._p)

    def __truediv__(self, other: Any) -> "PathStub":
        return PathStub(self._vfs, self._p.rstrip("/") + "/" + str(other), self._open)

    @property
    def name(self) -> str:
        return self._p.rsplit("/", 1)[-1]

    @property
    def suffix(self) -> str:
        nm = self.name
        return "." + nm.rsplit(".", 1)[1] if "." in nm.strip(".") else ""

    @property
    def stem(self) -> str:
        nm = self.name
        return nm.rsplit(".", 1)[0] if "." in nm.strip(".") else nm

    @property
    def parent(self) -> "PathStub":
        return PathStub(self._vfs, self._p.rsplit("/", 1)[0] or "/", self._open)

    def exists(self) -> bool:
        return self._p in self._vfs.files

    def is_file(self) -> bool:
        return self._p in self._vfs.files

    def resolve(self, *a: Any, **k: Any) -> "PathStub":
        return self

    def stat(self, *a: Any, **k: Any) -> Any:
        return self._vfs.stat(self._p)

    def absolute(self) -> "PathStub":
        return self

    def open(self, mode: str = "r", buffering: int = -1, encoding: Optional[str] = None, **kw: Any) -> Any:
        return self._open(self._p, mode, encoding=encoding, **kw)

    def write_text(self, data: Any, encoding: Optional[str] = None, errors: Optional[str] = None,
                   newline: Optional[str] = None) -> int:
        if not isinstance(data, str):
            raise AbsRaise(f"TypeError: data must be str, not {type(data).__name__}")
        f = self._open(self._p, "w", encoding=encoding)
        return f.write(data)

    def write_bytes(self, data: Any) -> int:
        f = self._open(self._p, "wb")
        return f.write(data)

    def read_text(self, encoding: Optional[str] = None, errors: Optional[str] = None) -> Any:
        return self._open(self._p, "r", encoding=encoding).read()

    def read_bytes(self) -> Any:
        return self._open(self._p, "rb").read()


def install_io(it: Interp, vfs: VFS) -> None:
    def _open(path: Any, mode: str = "r", buffering: int = -1, encoding: Optional[str] = None, **kw: Any) -> Any:
        if isinstance(buffering, str) and encoding is None:      # open(path, mode, encoding) never happens; guard
            encoding, buffering = buffering, -1
        path = str(path) if isinstance(path, PathStub) else path
        if not isinstance(mode, str) or set(mode) - set("rwxab+t") or sum(mode.count(c) for c in "rwxa") != 1 \
                or ("t" in mode and "b" in mode) or len(set(mode)) != len(mode):
            raise AbsRaise(f"ValueError: invalid mode: {mode!r}")
        if "b" in mode and encoding is not None:
            raise AbsRaise("ValueError: binary mode doesn't take an encoding argument")
        vfs.opens.append({"path": path, "mode": mode, "encoding": encoding})
        if "r" in mode and path not in vfs.files:
            raise AbsRaise(f"FileNotFoundError: {path}")
        return FileStub(vfs, path, mode, encoding)

    def dumps(obj: Any, **kw: Any) -> str:
        if not pure_data(obj):
            raise AbsRaise("TypeError: Object is not JSON serializable")
        return json.dumps(obj, **kw)

    def dump(obj: Any, fp: Any, **kw: Any) -> None:
        fp.write(dumps(obj, **kw))

    def loads(data: Any, **kw: Any) -> Any:
        try:
            return json.loads(data)
        except json.JSONDecodeError as exc:
            raise AbsRaise(f"JSONDecodeError: {exc}") from exc
        except TypeError as exc:
            raise AbsRaise(f"TypeError: {exc}") from exc

    def load(fp: Any, **kw: Any) -> Any:
        data = fp.read()
        if isinstance(data, (bytes, str)):
            return loads(data)
        return data
    it.native["builtins.open"] = _open
    it.native["pathlib.Path"] = lambda *parts: PathStub(vfs, "/".join(str(x) for x in parts), _open)
    it.native["pathlib.PurePath"] = it.native["pathlib.Path"]
    it.native["os.fspath"] = lambda p_: str(p_)
    it.native["json.dumps"] = dumps
    it.native["json.dump"] = dump
    it.native["json.load"] = load
    it.native["json.loads"] = loads
    it.native["os.path.abspath"] = lambda p: str(p)
    it.native["os.path.realpath"] = lambda p, **kw: str(p)
    it.native["os.path.normpath"] = lambda p: str(p)
    it.native["os.path.normcase"] = lambda p: str(p)
    it.native["os.path.expanduser"] = lambda p: str(p)
    it.native["os.path.exists"] = lambda p: str(p) in vfs.files
    it.native["os.path.isfile"] = lambda p: str(p) in vfs.files
    it.native["os.path.getmtime"] = lambda p: vfs.stat(str(p)).st_mtime
    it.native["os.path.getsize"] = lambda p: vfs.stat(str(p)).st_size
    it.native["os.path.basename"] = lambda p: str(p).rsplit("/", 1)[-1]
    it.native["os.path.dirname"] = lambda p: str(p).rsplit("/", 1)[0] if "/" in str(p) else ""
    it.native["os.path.splitext"] = lambda p: __import__("os").path.splitext(str(p))
    it.native["os.stat"] = lambda p, **kw: vfs.stat(str(p))
    it.native["os.path.join"] = lambda *a: "/".join(x for x in a if x)
    it.native["os.sep"] = "/"
