"""CLI: python -m sa <Cxx> [--tier quick|thorough] [--replay PATH]"""
from __future__ import annotations

import argparse
import importlib
import json
import os
import sys

from .core import AnalysisError, Ctx, analysis_error_exit


def run(prop: str, tier: str) -> int:
    try:
        mod = importlib.import_module(f"sa.props.{prop.lower()}")
        from .pm import ProgramModel
        pm = ProgramModel()
        ctx = Ctx(prop, tier)
        ctx.trusted_base = [f"python {sys.version.split()[0]} (ast)"] + \
            [f"{m} sha256:{d}" for m, d in sorted(pm.env_digests.items())]
        ctx.analysed["units"] = len(pm.pkg_units())
        ctx.analysed["env_units"] = len(pm.units) - len(pm.pkg_units())
        ctx.analysed["functions"] = sum(1 for f in pm.functions.values() if not f.unit.env)
        mod.check(pm, ctx)
        from .model import DISCREPANCIES
        seen = set()
        for cls, fld, text in DISCREPANCIES:
            if (cls, fld) in seen:
                continue
            seen.add((cls, fld))
            ci = pm.cls(cls) if pm.has_cls(cls) else None
            ctx.violation(f"{prop}-MODEL", f"keeps:{cls}.{fld}", f"{ci.unit.path.split('/flamapy/')[-1]}:{ci.node.lineno}" if ci else "",
                          f"the model classes do not hold the model they are given (every abstract input of this check is "
                          f"built through them): {text}")
        if not DISCREPANCIES:
            ctx.ok(f"{prop}-MODEL", "keeps", "", "constructors and add_relation keep the values they are given "
                   "(every abstract input of this check was built through them and read back)", nontrivial=False)
        return ctx.finish()
    except AnalysisError as exc:
        return analysis_error_exit(prop, tier, exc)
    except Exception as exc:  # noqa: BLE001 - a crash of the checker is exit 2, never exit 1
        return analysis_error_exit(prop, tier, exc)


def _watchdog(prop: str) -> None:
    """The evaluation of code that left the fragment in an unforeseen way (an endless source consumed whole, a runaway
    recursion through generators) must end as `analysis broken` (exit 2), not in the kernel's out-of-memory killer."""
    import threading
    import time
    limit_mb = int(os.environ.get("VERIF_MEM_LIMIT_MB", "6000"))
    limit_s = int(os.environ.get("VERIF_TIME_LIMIT_S", "3000"))
    t0 = time.time()

    def watch() -> None:
        page = os.sysconf("SC_PAGE_SIZE")
        while True:
            time.sleep(0.5)
            try:
                with open("/proc/self/statm", encoding="ascii") as fh:
                    rss_mb = int(fh.read().split()[1]) * page // (1 << 20)
            except OSError:
                return
            why = None
            if rss_mb > limit_mb:
                why = f"memory use {rss_mb} MB exceeds the bound of {limit_mb} MB"
            elif time.time() - t0 > limit_s:
                why = f"run time exceeds the bound of {limit_s} s"
            if why:
                sys.stdout.write(f"ANALYSIS-ERROR property={prop} RESOURCE {why}: the evaluation does not terminate within "
                                 f"bounds on this source (no verdict)\n")
                sys.stdout.flush()
                os._exit(2)
    threading.Thread(target=watch, daemon=True, name="watchdog").start()


def main() -> int:
    ap = argparse.ArgumentParser(prog="sa")
    ap.add_argument("prop")
    ap.add_argument("--tier", default=os.environ.get("VERIF_TIER", "quick"),
                    choices=["quick", "thorough"])
    ap.add_argument("--replay", default=None)
    a = ap.parse_args()
    if a.replay:
        with open(a.replay, encoding="utf8") as fh:
            print(json.dumps(json.load(fh), indent=1))
        # replay = re-run the check; the finding is a construct of the current source
    if a.prop == "selftest":
        from .selftest import main as st
        return st()
    _watchdog(a.prop.upper())
    return run(a.prop.upper(), a.tier)


if __name__ == "__main__":
    sys.exit(main())
