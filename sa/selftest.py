"""python -m sa selftest — runs the self-test catalogue and the kept seeded changes (not a manifest check)."""
from __future__ import annotations

import glob
import json
import os
import subprocess
import sys

ROOT = os.path.dirname(os.path.dirname(os.path.abspath(__file__)))


def main() -> int:
    rc = subprocess.call(["/venv/bin/python", os.path.join(ROOT, "tools", "runmut.py"), "--jobs", "16"], cwd=ROOT)
    bad = 0
    for meta in sorted(glob.glob(os.path.join(ROOT, "seeded", "*", "meta.json"))):
        d = os.path.dirname(meta)
        m = json.load(open(meta))
        prop = m.get("breaks_property") or m.get("property")
        r = subprocess.run(["/venv/bin/python", os.path.join(ROOT, "tools", "seed_eval.py"), d, prop],
                           cwd=ROOT, capture_output=True, text=True)
        ok = '"confirmed": true' in r.stdout and f'"{prop}"' in r.stdout.split('"detected_by"')[-1]
        print(("ok    " if ok else "FAIL  ") + os.path.basename(d))
        bad += 0 if ok else 1
    return 1 if (rc or bad) else 0


if __name__ == "__main__":
    sys.exit(main())
